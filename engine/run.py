"""Check runner:  ./check Cxx [--tier quick|thorough] [--replay path]"""
import importlib
import json
import os
import sys
import time
import traceback

from . import facts, model, analysis, anchor

VERIF = facts.VERIF
UNITS_PROPS = ("C02", "C03", "C04", "C05", "C06", "C07", "C15", "C17", "C19", "C20")
UNITS_NOTE = (" (U) Units-of-measure analysis (rule id %s.U, rules/units.py): every function of the program that touches share counts, share values, token "
              "amounts or dollar limits is dimensionally consistent - asset shares, liability shares, tokens, dollars, unix seconds and slots (dimensions of the leaves fixed by "
              "the state field names and the converter API, everything else inferred by unification over the expression trees) are combined only through "
              "the share-value converters, and each function's inferred parameter dimensions are enforced at its call sites; a function with no consistent assignment (shares compared with / subtracted from / passed as an amount) is reported.")


# development runs against a scratch tree (VERIF_REPO) never touch the registered evidence files
EVDIR = os.path.join(VERIF, "evidence") if not os.environ.get("VERIF_REPO") else os.path.join(VERIF, ".work", "evidence-scratch")


class AnchorMissing(Exception):
    pass


class Ctx:
    def __init__(self, pid, tier, prog, am, raw, meta, config="default"):
        self.pid = pid
        self.tier = tier
        self.prog = prog
        self.am = am
        self.raw = raw
        self.meta = meta
        self.config = config
        self.slicer = analysis.Slicer(prog, bound=3 if tier == "quick" else 6)
        self.instances = []     # dicts
        self.floors = {}
        self.tables = {}
        self.notes = []

    # ---- instance recording
    def inst(self, rule, construct, ok, expected, found="", loc=None, detail=None):
        """ok: True (holds) / False (violation) / None (undecided)"""
        self.instances.append({"rule": rule, "construct": construct, "status": "pass" if ok else ("undecided" if ok is None else "VIOLATION"),
                               "expected": expected, "found": found if isinstance(found, str) else json.dumps(found, default=str),
                               "loc": loc, "detail": detail, "config": self.config})
        return ok

    def missing(self, rule, what):
        self.instances.append({"rule": rule, "construct": "anchor:" + what, "status": "VIOLATION", "expected": "anchor present: " + what,
                               "found": "anchor-missing", "loc": None, "detail": None, "config": self.config, "reason": "anchor-missing"})

    def floor(self, rule, n):
        self.floors[rule] = n

    # ---- anchored lookups (fail closed)
    def fn(self, rule, spec):
        r = self.prog.find_fns(spec)
        if len(r) != 1:
            self.missing(rule, "function %r (found %d)" % (spec, len(r)))
            raise AnchorMissing()
        return r[0]

    def ix(self, rule, name):
        e = self.am.ix(name)
        if e is None or not e["handlers"] or e["struct"] is None:
            self.missing(rule, "instruction %s" % name)
            raise AnchorMissing()
        return e

    def handler(self, rule, name):
        return self.ix(rule, name)["handlers"][0]


def load_known():
    p = os.path.join(VERIF, "known_findings.json")
    if not os.path.exists(p):
        return []
    return json.load(open(p)).get("findings", [])


def prepare(prog):
    """normalisations applied to the program model before any rule runs: (1) helpers of the reviewed snapshot that were merely renamed
    are found again by their content, (2) functions that did not exist on the reviewed tree (extracted helpers) are spliced into their
    callers.  Returns notes for the evidence file."""
    from rules import snapshot
    from . import inline
    notes = []
    renamed = snapshot.apply_renames(prog)
    if renamed:
        notes.append("renamed helpers resolved by content: %s" % renamed)
    ren2 = inline.resolve_renamed(prog)
    if ren2:
        notes.append("renamed functions recognised by signature and callees: %s" % ren2)
    from rules import common
    common.NEW_ADTS = inline.new_adts(prog)
    if common.NEW_ADTS:
        notes.append("ADTs not on the reviewed tree, rendered positionally (as tuples): %s" % sorted(common.NEW_ADTS))
    inl = inline.inline_new_functions(prog)
    if inl:
        notes.append("functions not on the reviewed tree, spliced into their callers: %s" % inl)
    return notes


def _eval_config(job):
    """evaluate one property's rules on one feature configuration (separate process in the thorough tier)"""
    pid, tier, cfg, d, meta = job
    mod = importlib.import_module("rules." + pid)
    raw = facts.load_raw(d)
    prog = model.Program(raw)
    prep = prepare(prog)
    am = anchor.AnchorModel(prog, raw)
    ctx = Ctx(pid, tier, prog, am, raw, meta, cfg)
    ctx.notes.extend(prep)
    try:
        try:
            mod.run(ctx)
        finally:
            # (S) reviewed snapshot of the small shared helpers this property relies on (rules/snapshot.py)
            from rules import snapshot
            try:
                snapshot.check_snapshot(ctx, pid)
            except AnchorMissing:
                pass
            # (U) units-of-measure analysis (rules/units.py) for the properties that own share / token / dollar arithmetic
            from rules import units
            if pid in units.PROPS:
                units.check_units(ctx, pid)
    except AnchorMissing:
        pass
    except Exception:
        traceback.print_exc()
        ctx.instances.append({"rule": pid + ".engine", "construct": "engine", "status": "VIOLATION", "expected": "rule evaluation completes",
                              "found": "engine exception: " + traceback.format_exc()[-600:], "loc": None, "detail": None, "config": cfg,
                              "reason": "engine-error"})
    inst = list(ctx.instances)
    from collections import Counter
    cnt = Counter(i["rule"] for i in ctx.instances if i["status"] != "VIOLATION" or i.get("reason") != "anchor-missing")
    for r, n in ctx.floors.items():
        if cnt.get(r, 0) < n:
            inst.append({"rule": r, "construct": "floor", "status": "VIOLATION", "expected": ">= %d instances" % n,
                         "found": "%d instances" % cnt.get(r, 0), "loc": None, "detail": None, "config": cfg, "reason": "anchor-missing"})
    st = {}
    if cfg == "default":
        st = {"functions_analysed": len(prog.fns), "call_sites": sum(len(f.calls()) for f in prog.fns.values()), "instructions": len(am.instructions),
              "accounts_structs": len(am.structs), "bool_joins_threaded": sum(f.nthreaded for f in prog.fns.values())}
    return {"instances": inst, "floors": dict(ctx.floors), "tables": {"%s@%s" % (k, cfg): v for k, v in ctx.tables.items()},
            "config": {"config": cfg, "tree_hash": meta["tree_hash"], "files_hashed": meta["files_hashed"]}, "stats": st, "notes": list(ctx.notes)}


def run_property(pid, tier, replay=None):
    t0 = time.time()
    seed = int(os.environ.get("VERIF_SEED", "0") or 0)
    configs = ["default"] if tier == "quick" else list(facts.CONFIGS.keys())
    mod = importlib.import_module("rules." + pid)
    all_inst = []
    tables = {}
    stats = {"configs": [], "functions_analysed": 0, "call_sites": 0, "instructions": 0, "accounts_structs": 0, "bool_joins_threaded": 0}
    floors = {}
    built = []
    for cfg in configs:
        try:
            d, meta = facts.build(cfg)
        except facts.AnalysisError as e:
            print("ANALYSIS-ERROR property=%s config=%s: %s" % (pid, cfg, str(e)[-1500:]))
            return 2
        built.append((pid, tier, cfg, d, meta))
    if len(built) > 1:
        import multiprocessing
        with multiprocessing.Pool(min(len(built), os.cpu_count() or 1)) as pool:
            results = pool.map(_eval_config, built)
    else:
        results = [_eval_config(b) for b in built]
    prep_notes = []
    for res in results:
        for n_ in res.get("notes", []):
            if n_ not in prep_notes:
                prep_notes.append(n_)
        all_inst.extend(res["instances"])
        floors = res["floors"]
        tables.update(res["tables"])
        stats["configs"].append(res["config"])
        if res["config"]["config"] == "default":
            stats.update(res["stats"])
    # known findings
    known = [k for k in load_known() if k.get("property") == pid and k.get("status", "open") == "open"]
    kkeys = {(k["rule"], k["construct"]) for k in known}
    viol = [i for i in all_inst if i["status"] == "VIOLATION"]
    # dedupe across configs
    seen = set()
    uviol = []
    for v in viol:
        k = (v["rule"], v["construct"])
        if k in seen:
            continue
        seen.add(k)
        uviol.append(v)
    new = [v for v in uviol if (v["rule"], v["construct"]) not in kkeys]
    kn = [v for v in uviol if (v["rule"], v["construct"]) in kkeys]
    vdir = os.path.join(EVDIR, pid + ".violations")
    if os.path.isdir(vdir):
        for f in os.listdir(vdir):
            os.unlink(os.path.join(vdir, f))
    for v in kn:
        print("KNOWN-FINDING: property=%s rule=%s construct=%s -- %s (found: %s)" % (pid, v["rule"], v["construct"], v["expected"], v["found"][:200]))
    for n, v in enumerate(new):
        os.makedirs(vdir, exist_ok=True)
        rp = os.path.join(vdir, "%d.json" % n)
        with open(rp, "w") as fh:
            json.dump(v, fh, indent=1)
        print("VIOLATION property=%s replay=%s" % (pid, rp))
        print("  rule=%s construct=%s at %s\n  expected: %s\n  found:    %s%s" % (
            v["rule"], v["construct"], v.get("loc"), v["expected"], v["found"][:600],
            ("\n  reason=" + v["reason"]) if v.get("reason") else ""))
    # evidence
    passed = [i for i in all_inst if i["status"] == "pass"]
    und = [i for i in all_inst if i["status"] == "undecided"]
    # non-trivial: the instance's anchor existed and an analysis was actually evaluated for it (table exemptions and missing anchors are not)
    distinct = {(i["rule"], i["construct"]) for i in all_inst if i["status"] in ("pass", "VIOLATION") and i.get("reason") != "anchor-missing"
                and not str(i.get("found", "")).startswith("exempt")}
    samples = []
    seen_rules = set()
    for i in all_inst:
        if i["rule"] not in seen_rules and len(samples) < 40:
            seen_rules.add(i["rule"])
            samples.append({k: i[k] for k in ("rule", "construct", "status", "expected", "found", "loc")})
    info = getattr(mod, "INFO", {})
    ev = {
        "property_id": pid, "tier": tier, "seed": seed, "level": "other",
        "coverage": {
            "explanation": info.get("explanation", "") + " (S) In addition the complete path tables (conditions => result | stores) of the small shared helpers this property relies on are compared with the reviewed snapshot rules/leaf_snapshot.json (rule id %s.S); (K) numeric kernels and leaf helpers pinned in rules/kernels.py." % pid + (UNITS_NOTE % pid if pid in UNITS_PROPS else ""),
            "evaluations": len(all_inst),
            "distinct_nontrivial": len(distinct),
            "rule": "rule instances (rule id, construct) enumerated from /repo's MIR facts and Accounts constraints on this run; `instances` lists every one with its verdict and source location; an instance is non-trivial when its anchor exists and an analysis was evaluated for it (rows answered from an exemption table are counted in evaluations only); distinct = distinct (rule id, construct key) across feature configurations",
            "samples": samples,
            "passed": len(passed), "undecided": len(und), "undecided_list": [(i["rule"], i["construct"]) for i in und][:60],
            "rules": sorted({i["rule"] for i in all_inst}),
            "instances": [[i["rule"], i["construct"], i["status"], i.get("loc"), i.get("config")] for i in all_inst][:6000],
            "floors": floors,
            "tables": tables,
            "exhaustive": bool(tables),
            "trusted_base": ["rustc nightly type check / MIR construction / Instance resolution", "Anchor 0.31.1 derive expansion", "frozen expectation tables in /verif/rules"],
            **stats,
        },
        "assumptions": info.get("assumptions", []),
        "normalisations": {"rule": "before any rule runs: snapshot helpers that were renamed are found by content; functions absent from the reviewed "
                                   "function list (rules/known_fns.json) are spliced into their callers at MIR level; boolean / discriminant joins are threaded",
                           "applied_on_this_tree": prep_notes},
        "wall_s": round(time.time() - t0, 2),
        "violations": len(new),
        "known_findings": [{"rule": v["rule"], "construct": v["construct"]} for v in kn],
        "violation_list": [{k: v.get(k) for k in ("rule", "construct", "expected", "found", "loc", "reason")} for v in new],
    }
    os.makedirs(EVDIR, exist_ok=True)
    tmp = os.path.join(EVDIR, pid + ".json.tmp%d" % os.getpid())
    with open(tmp, "w") as fh:
        json.dump(ev, fh, indent=1, default=str)
    os.replace(tmp, os.path.join(EVDIR, pid + ".json"))
    print("%s: %d instances, %d passed, %d undecided, %d known, %d violations (%.1fs)" % (pid, len(all_inst), len(passed), len(und), len(kn), len(new), time.time() - t0))
    return 1 if new else 0


def main():
    args = sys.argv[1:]
    if not args:
        print("usage: check Cxx [--tier quick|thorough]")
        return 2
    pid = args[0]
    tier = os.environ.get("VERIF_TIER", "quick")
    if "--tier" in args:
        tier = args[args.index("--tier") + 1]
    if tier not in ("quick", "thorough"):
        tier = "quick"
    sys.path.insert(0, VERIF)
    return run_property(pid, tier)


if __name__ == "__main__":
    sys.exit(main())
