"""Path rules (A3), provenance (A4), guard atoms (A5) over the program model."""
from collections import defaultdict
from .model import match_def, op_place, const_int, term_succ

RESULT = "core::result::Result"
OPTION = "core::option::Option"
MFI_ERR = "marginfi::errors::MarginfiError"


# --------------------------------------------------------------------------- error exits

def error_blocks(f):
    """Blocks of f that commit to an error result: assign Result::Err / Option::None (or a local aliasing
    the return place) to _0, or call FromResidual::from_residual into _0."""
    out = set()
    # locals that are only ever moved into _0
    alias = {0} | set(f.inl_err_locals or ())      # spliced callees whose result is propagated: their error exits are the caller's
    for bb in f.blocks:
        for s in bb["s"]:
            if "d" in s and s["d"]["l"] == 0 and not s["d"].get("p") and s["v"]["r"] == "use":
                p = op_place(s["v"]["a"][0])
                if p and not p.get("p"):
                    alias.add(p["l"])
    for i, bb in enumerate(f.blocks):
        for s in bb["s"]:
            if "d" not in s:
                continue
            d = s["d"]
            if d["l"] in alias and not d.get("p"):
                v = s["v"]
                if v["r"] == "agg" and v.get("ak") == "adt":
                    if (v["adt"] == RESULT and v["variant"] == "Err") or (v["adt"] == OPTION and v["variant"] == "None"):
                        out.add(i)
        t = bb["t"]
        if t["k"] == "call" and t["dest"]["l"] in alias and not t["dest"].get("p"):
            ci = f.dinfo(t["raw"]) if "raw" in t else None
            if ci and ci["name"] == "from_residual":
                out.add(i)
    return out


def diverging_blocks(f):
    out = set()
    for i, bb in enumerate(f.blocks):
        t = bb["t"]
        if t["k"] == "call" and t.get("to") is None:
            out.add(i)
        if t["k"] in ("unreachable", "resume", "abort"):
            out.add(i)
    return out


def success_reach(f, start=0, removed=()):
    """blocks reachable from start on the success CFG (error blocks removed) avoiding `removed`."""
    rem = set(removed) | error_blocks(f)
    return f.reachable(start, rem)


def can_succeed_avoiding(f, removed, start=0, removed_edges=()):
    """True if some Return is reachable from `start` on the success CFG without entering `removed`
    (and without using `removed_edges`).  Returns (bool, witness path or None)."""
    rem = set(removed) | error_blocks(f)
    removed_edges = set(removed_edges)
    if start in rem:
        return False, None
    succ = f.succ()
    prev = {start: None}
    st = [start]
    while st:
        x = st.pop()
        if f.blocks[x]["t"]["k"] == "return":
            path = []
            y = x
            while y is not None:
                path.append(y)
                y = prev[y]
            return True, list(reversed(path))
        for y in succ[x]:
            if (x, y) in removed_edges:
                continue
            if y not in prev and y not in rem:
                prev[y] = x
                st.append(y)
    return False, None


def must_pass(f, event_blocks):
    """every successful execution of f passes one of event_blocks.  (ok, witness)"""
    ok, w = can_succeed_avoiding(f, event_blocks)
    return (not ok), w


def after_all(f, e1_blocks, e2_blocks):
    """after every e1 event, every success path to Return passes an e2 event. returns list of failing
    (e1 block, witness)."""
    bad = []
    succ = f.succ()
    for b in e1_blocks:
        if b in e2_blocks:
            # same block: a call terminator event after a statement event counts; a call event equal to
            # itself does not protect itself -> look at successors
            pass
        for s in succ[b]:
            ok, w = can_succeed_avoiding(f, e2_blocks, start=s)
            if ok:
                bad.append((b, [b] + w))
                break
    return bad


def set_dominates(f, e1_blocks, b, removed_edges=()):
    """every path entry->b passes a block in e1 (b itself excluded unless in e1)."""
    if b in e1_blocks:
        return True
    r = reach_without(f, set(e1_blocks), removed_edges)
    return b not in r


def reach_without(f, removed_blocks=(), removed_edges=(), start=0):
    removed_blocks = set(removed_blocks)
    removed_edges = set(removed_edges)
    if start in removed_blocks:
        return set()
    seen = {start}
    st = [start]
    succ = f.succ()
    while st:
        x = st.pop()
        for y in succ[x]:
            if (x, y) in removed_edges or y in removed_blocks or y in seen:
                continue
            seen.add(y)
            st.append(y)
    return seen


# --------------------------------------------------------------------------- events

def call_blocks(prog, f, spec, transitive=True, arg_pred=None):
    """blocks of f whose call terminator targets a def matching spec, or (transitive) a function whose
    transitive callees include one; closure-creation blocks count for the closure's body."""
    reaching, targets = prog.fns_reaching(spec)
    out = []
    for c in f.calls():
        hit = False
        k = c.key
        if k in targets or (c.raw and c.raw["key"] in targets):
            hit = True
        elif transitive and (k in reaching or (c.closure and c.closure in reaching)):
            hit = True
        if hit and (arg_pred is None or arg_pred(c)):
            out.append(c.block)
    if transitive:
        for b, ck in f.closures_created():
            if ck in reaching and b not in out:
                out.append(b)
        for b, fk in f.fn_refs():
            if fk in reaching and b not in out:
                out.append(b)
    return sorted(set(out))


def direct_calls(f, spec):
    return [c for c in f.calls() if match_def(c.callee, spec) or match_def(c.raw, spec)]


def write_blocks(prog, f, pred, transitive=True):
    """blocks where a field matching pred(owner, field) is (may be) written, directly or through a call."""
    out = set()
    for w, sites in prog.writes_direct(f.key).items():
        if pred(*w):
            for (b, sp, kind) in sites:
                out.add(b)
    if transitive:
        for c in f.calls():
            ks = [c.key] + ([c.closure] if c.closure else [])
            for k in ks:
                if k and any(pred(*w) for w in prog.writes(k)):
                    out.add(c.block)
        for b, ck in f.closures_created():
            if any(pred(*w) for w in prog.writes(ck)):
                out.add(b)
    return sorted(out)


# --------------------------------------------------------------------------- consumed

PASS_THROUGH = {"map_err", "map", "and_then", "into", "from", "branch", "ok_or", "ok_or_else", "with_account_name",
                "with_pubkeys", "with_values", "with_source"}
TERMINAL_OK = {"unwrap", "expect", "from_residual"}


def consumed(f, call_block, path=()):
    """The Result produced by the call terminating call_block (at field path `path` of the returned value,
    e.g. (0,) for the first component of a returned tuple) is checked: it flows (through moves and
    pass-through adaptors) to `?` (Try::branch), to the return place, to unwrap/expect, or its
    discriminant is switched on.  Returns (ok, reason)."""
    t = f.blocks[call_block]["t"]
    work = [(t["dest"]["l"], tuple(path))]
    seen = set()

    def fields_of(pl):
        return tuple(e["f"] for e in pl.get("p", []) if isinstance(e, dict) and "f" in e)

    def match(pl, l, path):
        """does a read of place pl touch (l, path)?  returns remaining path or None"""
        if pl["l"] != l:
            return None
        fp = fields_of(pl)
        n = min(len(fp), len(path))
        if fp[:n] != path[:n]:
            return None
        if len(fp) >= len(path):
            return ()
        return path[len(fp):]

    while work:
        l, path = work.pop()
        if (l, path) in seen:
            continue
        seen.add((l, path))
        if l == 0 and not path:
            return True, "returned"
        for bi, bb in enumerate(f.blocks):
            for s in bb["s"]:
                if "d" not in s:
                    continue
                v = s["v"]
                if v["r"] == "discr":
                    r = match(v["pl"], l, path)
                    if r == ():
                        return True, "matched"
                for o in v.get("a", []):
                    p = op_place(o)
                    if p:
                        r = match(p, l, path)
                        if r is not None:
                            work.append((s["d"]["l"], fields_of(s["d"]) + r))
                if v["r"] in ("ref",):
                    r = match(v["pl"], l, path)
                    if r is not None:
                        work.append((s["d"]["l"], fields_of(s["d"]) + r))
            tt = bb["t"]
            if tt["k"] == "call":
                for o in tt["args"]:
                    p = op_place(o)
                    if not p:
                        continue
                    r = match(p, l, path)
                    if r is None:
                        continue
                    ci = f.dinfo(tt["res"]) if tt.get("res") is not None else f.dinfo(tt["raw"]) if "raw" in tt else None
                    nm = ci["name"] if ci else ""
                    if r != ():
                        continue    # a container holding the result is passed on: not a check of the result
                    if nm == "branch":
                        return True, "?"
                    if nm in TERMINAL_OK:
                        return True, nm
                    if nm in ("ok", "is_ok", "is_err", "unwrap_or", "unwrap_or_default", "unwrap_or_else", "or", "or_else", "err", "drop"):
                        continue
                    work.append((tt["dest"]["l"], ()))
            if tt["k"] == "switch":
                p = op_place(tt["on"])
                if p and match(p, l, path) == ():
                    return True, "switched"
    return False, "result never checked"


# --------------------------------------------------------------------------- provenance (A4)

class Prov:
    __slots__ = ("params", "fields", "consts", "calls", "ops", "ints", "exact", "variants", "ppaths", "pwhole", "cvals")

    def __init__(self):
        self.cvals = set()     # hex bytes of evaluated constant memory (slices / arrays / pubkeys)
        self.pwhole = set()    # params used as a whole (no field path)
        self.ppaths = set()    # (param index, remaining field path)
        self.params = set()    # (param index)
        self.fields = set()    # (owner, field)
        self.consts = set()    # named const keys
        self.calls = set()     # callee keys
        self.ops = set()       # bin/un ops
        self.ints = set()      # literal ints
        self.variants = set()  # (adt, variant) aggregates
        self.exact = True

    def update(self, o):
        self.ppaths |= o.ppaths
        self.pwhole |= o.pwhole
        self.cvals |= o.cvals
        self.params |= o.params
        self.fields |= o.fields
        self.consts |= o.consts
        self.calls |= o.calls
        self.ops |= o.ops
        self.ints |= o.ints
        self.variants |= o.variants
        self.exact = self.exact and o.exact

    def has_field(self, owner_suffix, name):
        return any(n == name and (o == owner_suffix or o.endswith("::" + owner_suffix)) for (o, n) in self.fields)

    def has_call(self, prog, spec):
        return any(match_def(prog.defs.get(k), spec) for k in self.calls)

    def has_const(self, name):
        return any(k.endswith("::" + name) for k in self.consts)

    def summary(self):
        return {"params": sorted(self.params), "fields": sorted("%s.%s" % (o.split("::")[-1], n) for o, n in self.fields),
                "consts": sorted(k.split("::")[-1] for k in self.consts),
                "calls": sorted(k.split("::", 1)[-1] for k in self.calls)[:40], "ops": sorted(self.ops),
                "ints": sorted(self.ints)[:10], "variants": sorted("%s::%s" % (a.split("::")[-1], v) for a, v in self.variants), "exact": self.exact}


def _collect_cvals(v, pv, depth=0):
    """record evaluated constant memory (and referenced statics) of a const operand"""
    if depth > 3 or not isinstance(v, dict):
        return
    for key in ("slice", "mem", "ptr"):
        m = v.get(key)
        if isinstance(m, dict):
            if "static" in m:
                pv.consts.add(m["static"])
            if "hex" in m and m["hex"]:
                pv.cvals.add(m["hex"])
            for p in m.get("ptrs", []) or []:
                _collect_cvals({"mem": p.get("to")}, pv, depth + 1)


SAME_PATH_CALLS = {"branch", "into", "from", "clone", "deref", "deref_mut", "borrow", "borrow_mut", "as_ref", "as_mut",
                   "to_owned", "ok_or", "ok_or_else", "map_err", "from_residual", "try_from", "try_into", "as_deref", "as_deref_mut",
                   "copied", "cloned"}
UNWRAP_CALLS = {"unwrap", "expect", "unwrap_or", "unwrap_or_default", "unwrap_or_else", "unwrap_unchecked"}


class Slicer:
    """Flow-insensitive backward slice over a body's locals with bounded inlining of analysed callees.
    Field-sensitive along a projection path: slicing `x.a.b` follows only the operands that build
    field a.b when x is defined by aggregates / moves / calls into analysed functions."""

    def __init__(self, prog, bound=3):
        self.prog = prog
        self.bound = bound
        self._ret_cache = {}

    def place_fields(self, pl, pv):
        for e in pl.get("p", []):
            if isinstance(e, dict) and "f" in e and not e["o"].startswith("("):
                pv.fields.add((e["o"], e["n"]))

    @staticmethod
    def place_path(pl):
        return tuple(e["f"] for e in pl.get("p", []) if isinstance(e, dict) and "f" in e)

    def operand(self, f, o, depth=0, path=(), at=None):
        """`at`: block in which the operand is used; only definitions that can reach it are followed."""
        pv = Prov()
        self._operand(f, o, pv, depth, set(), tuple(path), at)
        return pv

    def local(self, f, l, depth=0, path=(), at=None):
        pv = Prov()
        self._local(f, l, pv, depth, set(), tuple(path), at)
        return pv

    def _operand(self, f, o, pv, depth, seen, path=(), at=None):
        p = op_place(o)
        if p is not None:
            self.place_fields(p, pv)
            self._local(f, p["l"], pv, depth, seen, self.place_path(p) + path, at)
            for e in p.get("p", []):
                if isinstance(e, dict) and "i" in e:
                    self._local(f, e["i"], pv, depth, seen, (), at)
            return
        k = o.get("k")
        if k:
            if "item" in k:
                d = f.dinfo(k["item"])
                if "promoted" in k:
                    pf = self.prog.promoted.get((d["key"], k["promoted"]))
                    if pf is not None:
                        self._local(pf, 0, pv, depth, set(), path, None)
                else:
                    pv.consts.add(d["key"])
            elif "fn" in k:
                pv.calls.add(f.dinfo(k["fn"])["key"])
            ci = const_int(o)
            if ci is not None:
                pv.ints.add(ci)
            v = k.get("v")
            if isinstance(v, dict):
                _collect_cvals(v, pv)

    def _local(self, f, l, pv, depth, seen, path=(), at=None):
        if len(path) > 8:
            path = path[:8]
        key = (id(f), l, path, at)
        if key in seen:
            return
        seen.add(key)
        if 1 <= l <= f.argc:
            pv.params.add(l)
            if path:
                pv.ppaths.add((l, path))
            else:
                pv.pwhole.add(l)
        defs = f.local_defs().get(l, [])
        for (bi, si) in defs:
            if at is not None and bi != at and at not in f.reach_from(bi):
                continue    # this definition cannot reach the use
            if at is not None and bi == at and si == "T" and at not in f.reach_from(bi):
                continue    # a call result is defined at the end of the block
            bb = f.blocks[bi]
            if si == "T":
                t = bb["t"]
                dp = self.place_path(t["dest"])
                if dp:
                    # call result stored into a field of l
                    if path[:len(dp)] == dp[:len(path)]:
                        self._call(f, t, pv, depth, seen, path[len(dp):], bi)
                else:
                    self._call(f, t, pv, depth, seen, path, bi)
            else:
                s = bb["s"][si]
                dp = self.place_path(s["d"])
                if dp:
                    # partial assignment  l.dp = rv : relevant iff dp and path are compatible
                    n = min(len(dp), len(path))
                    if dp[:n] != path[:n]:
                        continue
                    self._rvalue(f, s["v"], pv, depth, seen, path[len(dp):], bi)
                else:
                    self._rvalue(f, s["v"], pv, depth, seen, path, bi)
        # writes through &mut borrows of this whole local handed to calls (out-params)
        for bi, bb in enumerate(f.blocks):
            for s in bb["s"]:
                if "d" in s and s["v"]["r"] == "ref" and s["v"].get("mut") and s["v"]["pl"]["l"] == l and not s["d"].get("p") \
                        and not s["v"]["pl"].get("p"):
                    if at is None or bi == at or at in f.reach_from(bi):
                        self._mut_uses(f, s["d"]["l"], pv, depth, seen, 0)

    def _mut_uses(self, f, r, pv, depth, seen, hops):
        if hops > 3:
            return
        for bb in f.blocks:
            for s in bb["s"]:
                if "d" in s and s["v"]["r"] == "ref" and s["v"].get("mut") and s["v"]["pl"]["l"] == r:
                    self._mut_uses(f, s["d"]["l"], pv, depth, seen, hops + 1)
                if "d" in s and s["v"]["r"] == "use":
                    p = op_place(s["v"]["a"][0])
                    if p and p["l"] == r and not p.get("p") and "m" in s["v"]["a"][0]:
                        self._mut_uses(f, s["d"]["l"], pv, depth, seen, hops + 1)
            t = bb["t"]
            if t["k"] == "call":
                for o in t["args"]:
                    p = op_place(o)
                    if p and p["l"] == r and not p.get("p"):
                        k = (id(f), "call", id(t))
                        if k in seen:
                            continue
                        seen.add(k)
                        ci = f.dinfo(t["res"]) if t.get("res") is not None else (f.dinfo(t["raw"]) if "raw" in t else None)
                        if ci:
                            pv.calls.add(ci["key"])
                        for o2 in t["args"]:
                            if o2 is not o:
                                self._operand(f, o2, pv, depth, seen, ())

    def _rvalue(self, f, v, pv, depth, seen, path=(), at=None):
        r = v["r"]
        if r == "use":
            self._operand(f, v["a"][0], pv, depth, seen, path, at)
        elif r in ("repeat", "cast"):
            self._operand(f, v["a"][0], pv, depth, seen, path if r == "cast" and v.get("kind", "").startswith(("PointerCoercion", "PtrToPtr", "Transmute")) else (), at)
        elif r in ("ref", "rawptr"):
            pl = v["pl"]
            self.place_fields(pl, pv)
            self._local(f, pl["l"], pv, depth, seen, self.place_path(pl) + path, at)
            for e in pl.get("p", []):
                if isinstance(e, dict) and "i" in e:
                    self._local(f, e["i"], pv, depth, seen, (), at)
        elif r == "discr":
            pl = v["pl"]
            self.place_fields(pl, pv)
            self._local(f, pl["l"], pv, depth, seen, self.place_path(pl), at)
            for e in pl.get("p", []):
                if isinstance(e, dict) and "i" in e:
                    self._local(f, e["i"], pv, depth, seen, (), at)
            pv.ops.add("discr")
        elif r == "bin":
            pv.ops.add(v["op"])
            for o in v["a"]:
                self._operand(f, o, pv, depth, seen, (), at)
        elif r == "un":
            pv.ops.add(v["op"])
            self._operand(f, v["a"][0], pv, depth, seen, (), at)
        elif r == "agg":
            if v.get("ak") == "adt":
                pv.variants.add((v["adt"], v["variant"]))
            if v.get("ak") == "closure":
                pv.calls.add(f.dinfo(v["def"])["key"])
            if path and v.get("ak") in ("adt", "tuple") and path[0] < len(v["a"]):
                self._operand(f, v["a"][path[0]], pv, depth, seen, path[1:], at)
            else:
                for o in v["a"]:
                    self._operand(f, o, pv, depth, seen, (), at)
        elif r == "setdiscr":
            pass

    def _merge_summary(self, pv, summ):
        pv.cvals |= summ.cvals
        pv.fields |= summ.fields
        pv.consts |= summ.consts
        pv.calls |= summ.calls
        pv.ops |= summ.ops
        pv.ints |= summ.ints
        pv.variants |= summ.variants
        pv.exact = pv.exact and summ.exact

    def _call(self, f, t, pv, depth, seen, path=(), at=None):
        ci = f.dinfo(t["res"]) if t.get("res") is not None else (f.dinfo(t["raw"]) if "raw" in t else None)
        if ci is None:
            pv.exact = False
            for o in t["args"]:
                self._operand(f, o, pv, depth, seen, (), at)
            return
        key = ci["key"]
        name = ci["name"]
        if name == "from_residual":
            return   # the error residual of `?` carries no payload data
        pv.calls.add(key)
        callee = self.prog.fns.get(key)
        if callee is not None and depth < self.bound:
            summ = self.ret_summary(callee, depth + 1, path)
            self._merge_summary(pv, summ)
            ppaths = {pi: pp for (pi, pp) in summ.ppaths}
            # by-value enum arguments select the callee's result by control flow: keep their identity
            for ai in range(min(len(t["args"]), callee.argc)):
                lt = callee.local_ty(ai + 1)
                if lt.get("k") == "adt" and lt["adt"] in self.prog.adts and self.prog.adts[lt["adt"]]["is_enum"] and (ai + 1) not in summ.params:
                    self._operand(f, t["args"][ai], pv, depth, seen, (), at)
            for pi in summ.params:
                if pi - 1 < len(t["args"]):
                    pps = [pp for (q, pp) in summ.ppaths if q == pi]
                    if pps and len(pps) <= 6 and pi not in summ.pwhole:
                        for pp in pps:
                            self._operand(f, t["args"][pi - 1], pv, depth, seen, pp, at)
                    else:
                        self._operand(f, t["args"][pi - 1], pv, depth, seen, (), at)
        else:
            if callee is not None:
                pv.exact = False
            if name in SAME_PATH_CALLS and t["args"]:
                self._operand(f, t["args"][0], pv, depth, seen, path, at)
                for o in t["args"][1:]:
                    self._operand(f, o, pv, depth, seen, (), at)
            elif name in UNWRAP_CALLS and t["args"]:
                self._operand(f, t["args"][0], pv, depth, seen, (0,) + path, at)
                for o in t["args"][1:]:
                    self._operand(f, o, pv, depth, seen, (), at)
            else:
                for o in t["args"]:
                    self._operand(f, o, pv, depth, seen, (), at)
        # closure args: include the closure body's return provenance
        for o in t["args"]:
            p = op_place(o)
            if p is None:
                continue
            lt = f.local_ty(p["l"]) if not p.get("p") else None
            if lt and lt.get("k") == "closure":
                ck = f.dinfo(lt["def"])["key"]
                cf = self.prog.fns.get(ck)
                if cf is not None and depth < self.bound:
                    summ = self.ret_summary(cf, depth + 1, ())
                    self._merge_summary(pv, summ)

    def ret_summary(self, callee, depth, path=()):
        k = (callee.key, depth, path)
        r = self._ret_cache.get(k)
        if r is None:
            r = Prov()
            self._ret_cache[k] = r   # recursion guard
            self._local(callee, 0, r, depth, set(), path, None)
        return r


# --------------------------------------------------------------------------- guard atoms (A5)

NEG = {"lt": "ge", "le": "gt", "gt": "le", "ge": "lt", "eq": "ne", "ne": "eq"}
SWAP = {"lt": "gt", "le": "ge", "gt": "lt", "ge": "le", "eq": "eq", "ne": "ne"}
BINREL = {"Lt": "lt", "Le": "le", "Gt": "gt", "Ge": "ge", "Eq": "eq", "Ne": "ne"}


class Atom:
    """error_if(rel, lhs, rhs)   rel in lt/le/eq/ne after canonicalisation (gt/ge are swapped),
       or error_if(('call', key, truth), args...)  or ('variant', adt, frozenset(variants))
       or ('bool', truth) for a plain bool local whose definition is not a comparison."""

    def __init__(self, kind, rel=None, lhs=None, rhs=None, callee=None, truth=None, args=None, variants=None,
                 block=None, switch=None, raw=None):
        self.kind = kind
        self.rel = rel
        self.lhs = lhs
        self.rhs = rhs
        self.callee = callee
        self.truth = truth
        self.args = args or []
        self.variants = variants
        self.block = block
        self.switch = switch
        self.raw = raw

    def describe(self):
        if self.kind == "cmp":
            return "error_if(%s, %s, %s)" % (self.rel, _pvs(self.lhs), _pvs(self.rhs))
        if self.kind == "call":
            return "error_if(%s%s(%s))" % ("" if self.truth else "!", self.callee.split("::", 1)[-1], "; ".join(_pvs(a) for a in self.args))
        if self.kind == "variant":
            return "error_if(variant %s of %s)" % (self.variants, _pvs(self.lhs))
        return "error_if(%s %s)" % (self.kind, self.truth)


def _pvs(pv):
    if pv is None:
        return "?"
    s = pv.summary()
    parts = []
    if s["fields"]:
        parts.append("fields=" + ",".join(s["fields"][:8]))
    if s["consts"]:
        parts.append("consts=" + ",".join(s["consts"][:6]))
    if s["params"]:
        parts.append("params=" + ",".join(map(str, s["params"])))
    if s["ints"]:
        parts.append("ints=" + ",".join(map(str, s["ints"][:5])))
    if s["calls"]:
        parts.append("calls=" + ",".join(c.split("::")[-1] for c in s["calls"][:8]))
    return "{" + " ".join(parts) + "}"


def inevitable_closure(f, targets):
    """blocks from which control inevitably reaches `targets` through single-successor chains."""
    c = set(targets)
    pred = f.pred()
    succ = f.succ()
    work = list(targets)
    while work:
        x = work.pop()
        for p in pred[x]:
            if p in c:
                continue
            ss = succ[p]
            if len(ss) == 1 or all(s in c for s in ss):
                # a call/goto/assert/drop with a single normal successor
                c.add(p)
                work.append(p)
    return c


def guard_edges(f, targets):
    """[(switch block, arm value or 'else', target)] edges entering the inevitable closure of targets
    from a switch outside it.  Targets from which a successful return is still reachable (e.g. an error
    value built eagerly for `ok_or(..)`) are not error sites and are ignored."""
    targets = [b for b in targets if not can_succeed_avoiding(f, [], start=b)[0]]
    c = inevitable_closure(f, targets)
    out = []
    for i, bb in enumerate(f.blocks):
        t = bb["t"]
        if t["k"] != "switch" or i in c:
            continue
        for (v, b) in t["arms"]:
            if b in c:
                out.append((i, int(v), b))
        if t["else"] in c:
            out.append((i, "else", t["else"]))
    return out


def variant_blocks(f, adt, variant):
    out = []
    for i, bb in enumerate(f.blocks):
        for s in bb["s"]:
            v = s.get("v")
            if v and v["r"] == "agg" and v.get("ak") == "adt" and v["adt"] == adt and (variant is None or v["variant"] == variant):
                out.append(i)
    return out


def error_variant_blocks(f, variant):
    return variant_blocks(f, MFI_ERR, variant)


def error_variants(prog, f):
    """{variant: [blocks]} MarginfiError variants constructed directly in f."""
    out = defaultdict(list)
    for i, bb in enumerate(f.blocks):
        for s in bb["s"]:
            v = s.get("v")
            if v and v["r"] == "agg" and v.get("ak") == "adt" and v["adt"] == MFI_ERR:
                out[v["variant"]].append(i)
    return out


def single_def(f, l):
    d = f.local_defs().get(l, [])
    if len(d) == 1:
        return d[0]
    return None


def atom_of_edge(prog, f, sw, arm, slicer, depth=0):
    """Canonical atom for 'control takes edge (sw, arm)'.  arm: int value or 'else'."""
    t = f.blocks[sw]["t"]
    on = t["on"]
    p = op_place(on)
    if p is None or p.get("p"):
        return Atom("opaque", block=sw, raw="switch on non-local")
    l = p["l"]
    arms = [int(a) for a, _ in t["arms"]]
    lty = f.local_ty(l)
    # boolean?
    if lty["s"] == "bool":
        if arm == "else":
            truth = True if arms == [0] else None
        else:
            truth = (arm != 0)
        if truth is None:
            return Atom("opaque", block=sw, raw="bool switch shape")
        return _bool_atom(prog, f, l, truth, slicer, sw, depth)
    # discriminant switch
    d = single_def(f, l)
    if d is not None and d[1] != "T":
        s = f.blocks[d[0]]["s"][d[1]]
        v = s["v"]
        if v["r"] == "discr":
            pl = v["pl"]
            pt = f.ty(pl["t"]) if "t" in pl else f.local_ty(pl["l"])
            if arm == "else":
                vals = ("not", tuple(sorted(arms)))
            else:
                vals = ("in", (arm,))
            pv = slicer.operand(f, {"c": pl})
            return Atom("variant", lhs=pv, variants=vals, block=sw, raw=pt.get("adt") or pt.get("s"))
    # integer switch on a value: treat as eq/ne with constants
    pv = slicer.local(f, l)
    if arm == "else":
        return Atom("intswitch", lhs=pv, variants=("not", tuple(sorted(arms))), block=sw)
    return Atom("intswitch", lhs=pv, variants=("in", (arm,)), block=sw)


def _bool_atom(prog, f, l, truth, slicer, sw, depth):
    """atom for 'bool local l has value truth'"""
    d = single_def(f, l)
    if d is None and depth <= 6:
        # a materialised test (`let flag = matches!(x, V);` ... `if flag`): the local is assigned `true` in one successor of a switch and
        # `false` in the other, and nowhere else - "flag has value t" is the edge of that switch into the block assigning t
        defs = f.local_defs().get(l) or []
        if len(defs) == 2 and all(si_ != "T" for (_, si_) in defs):
            vals = {}
            for (b_, s_) in defs:
                st_ = f.blocks[b_]["s"][s_]
                c_ = const_int(st_["v"]["a"][0]) if st_["v"]["r"] == "use" and not st_["d"].get("p") and st_["v"].get("a") else None
                if c_ is not None:
                    vals[bool(c_)] = b_
            if len(vals) == 2 and vals[True] != vals[False]:
                pred = f.pred()
                pt, pf = list(pred[vals[True]]), list(pred[vals[False]])
                if len(pt) == 1 and pt == pf and f.blocks[pt[0]]["t"]["k"] == "switch":
                    s0 = pt[0]
                    t0 = f.blocks[s0]["t"]
                    want = vals[truth]
                    arms0 = [(int(a_), b2) for a_, b2 in t0["arms"]] + [("else", t0["else"])]
                    hit = [a_ for a_, b2 in arms0 if b2 == want]
                    if len(hit) == 1 and s0 != sw:
                        at = atom_of_edge(prog, f, s0, hit[0], slicer, depth + 1)
                        at.block = sw
                        return at
    if d is None or depth > 6:
        pv = slicer.local(f, l)
        return Atom("bool", truth=truth, lhs=pv, block=sw)
    bi, si = d
    if si == "T":
        t = f.blocks[bi]["t"]
        ci = f.dinfo(t["res"]) if t.get("res") is not None else (f.dinfo(t["raw"]) if "raw" in t else None)
        if ci is None:
            return Atom("bool", truth=truth, lhs=slicer.local(f, l), block=sw)
        nm = ci["name"]
        tr = ci.get("trait", "")
        if nm in ("eq", "ne", "lt", "le", "gt", "ge") and (tr.endswith("::PartialEq") or tr.endswith("::PartialOrd")) and len(t["args"]) == 2:
            rel = nm if truth else NEG[nm]
            a = slicer.operand(f, t["args"][0])
            b = slicer.operand(f, t["args"][1])
            return _canon_cmp(rel, a, b, sw)
        args = [slicer.operand(f, o) for o in t["args"]]
        return Atom("call", callee=ci["key"], truth=truth, args=args, block=sw)
    s = f.blocks[bi]["s"][si]
    v = s["v"]
    if v["r"] == "bin" and v["op"] in BINREL:
        rel = BINREL[v["op"]]
        rel = rel if truth else NEG[rel]
        a = slicer.operand(f, v["a"][0])
        b = slicer.operand(f, v["a"][1])
        return _canon_cmp(rel, a, b, sw)
    if v["r"] == "un" and v["op"] == "Not":
        p = op_place(v["a"][0])
        if p is not None and not p.get("p"):
            return _bool_atom(prog, f, p["l"], not truth, slicer, sw, depth + 1)
    if v["r"] == "use":
        p = op_place(v["a"][0])
        if p is not None and not p.get("p"):
            return _bool_atom(prog, f, p["l"], truth, slicer, sw, depth + 1)
        if p is not None:
            pv = slicer.operand(f, v["a"][0])
            return Atom("bool", truth=truth, lhs=pv, block=sw)
    return Atom("bool", truth=truth, lhs=slicer.local(f, l), block=sw)


def _canon_cmp(rel, a, b, sw):
    if rel in ("gt", "ge"):
        rel = SWAP[rel]
        a, b = b, a
    return Atom("cmp", rel=rel, lhs=a, rhs=b, block=sw)


def guard_atoms(prog, f, targets, slicer):
    """atoms for every guard edge of the given target blocks"""
    out = []
    for (sw, arm, tgt) in guard_edges(f, targets):
        a = atom_of_edge(prog, f, sw, arm, slicer)
        a.switch = (sw, arm, tgt)
        out.append(a)
    return out


def edge_conditions_to(prog, f, block, slicer, limit=12):
    """Conjunction of atoms that hold on *every* path from entry to `block`: for each switch S that
    dominates `block`, if exactly one out-edge of S can reach `block` (without re-entering S), that
    edge's atom is a necessary condition."""
    out = []
    idom = f.dominators()
    x = block
    chain = []
    while x is not None and x in idom and idom[x] is not None:
        x = idom[x]
        chain.append(x)
    succ = f.succ()
    for s in chain:
        t = f.blocks[s]["t"]
        if t["k"] != "switch":
            continue
        live = []
        edges = [(int(v), b) for v, b in t["arms"]] + [("else", t["else"])]
        for (v, b) in edges:
            r = reach_without(f, removed_blocks={s}, start=b)
            if block in r:
                live.append((v, b))
        if len(live) == 1:
            a = atom_of_edge(prog, f, s, live[0][0], slicer)
            a.switch = (s, live[0][0], live[0][1])
            out.append(a)
        if len(out) >= limit:
            break
    return out
