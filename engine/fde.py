"""A6: exhaustive conditional constant propagation of small decision functions over a finite input
domain.  Values outside the finite domain are TOP; a branch on TOP forks and the set of outcomes is
returned, so a table cell that depends on TOP shows up as a multi-outcome (undecided) cell."""
import copy

MFI_ERR = "marginfi::errors::MarginfiError"


class Cell:
    __slots__ = ("v",)

    def __init__(self, v=None):
        self.v = v if v is not None else TOP


TOP = ("top",)


def Int(n):
    return ("int", int(n))


def Bool(b):
    return ("int", 1 if b else 0)


def Adt(adt, vi, fields=None):
    return ("adt", adt, vi, fields if fields is not None else {})


def Ref(cell):
    return ("ref", cell)


def is_int(v):
    return v[0] == "int"


def clone(v):
    if v[0] == "adt":
        return ("adt", v[1], v[2], {k: Cell(clone(c.v)) for k, c in v[3].items()})
    if v[0] == "tuple":
        return ("tuple", [Cell(clone(c.v)) for c in v[1]])
    return v


class Undecided(Exception):
    pass


class Outcome:
    def __init__(self, kind, value=None, errors=None):
        self.kind = kind      # 'return' | 'diverge' | 'undecided'
        self.value = value
        tr = errors or []
        self.errors = [e for e in tr if not e.startswith("call:")]
        self.calls = [e[5:] for e in tr if e.startswith("call:")]

    def key(self):
        v = self.value
        if self.kind != "return":
            return (self.kind,)
        return ("return", show(v), tuple(self.errors[-1:]))


def show(v, depth=0):
    if v is None:
        return "?"
    if v[0] == "int":
        return str(v[1])
    if v[0] == "adt":
        if depth > 2:
            return "adt"
        fs = ",".join("%s=%s" % (k, show(c.v, depth + 1)) for k, c in sorted(v[3].items()) if c.v[0] != "top")
        return "%s#%s{%s}" % ((v[1] or "?").split("::")[-1], v[2], fs)
    if v[0] == "ref":
        return "&" + show(v[1].v, depth + 1)
    if v[0] == "tuple":
        return "(" + ",".join(show(c.v, depth + 1) for c in v[1]) + ")"
    return v[0]


class Interp:
    def __init__(self, prog, max_steps=4000, max_depth=6, max_forks=64, stubs=None):
        self.prog = prog
        self.max_steps = max_steps
        self.max_depth = max_depth
        self.max_forks = max_forks
        self.stubs = stubs or {}     # callee key/name -> python fn(args values)->value

    # ---- enum helpers
    def enum_value(self, adt_suffix, variant):
        a = self._adt(adt_suffix)
        for i, v in enumerate(a["variants"]):
            if v["name"] == variant:
                return Adt(self._adt_key(adt_suffix), i)
        raise KeyError(variant)

    def _adt_key(self, suffix):
        for k in self.prog.adts:
            if k == suffix or k.endswith("::" + suffix):
                return k
        raise KeyError(suffix)

    def _adt(self, suffix):
        return self.prog.adts[self._adt_key(suffix)]

    def variants(self, adt_suffix):
        return [v["name"] for v in self._adt(adt_suffix)["variants"]]

    def discr_of(self, v):
        if v[0] != "adt" or v[2] is None:
            return None
        a = self.prog.adts.get(v[1])
        if a is None:
            return v[2]
        return int(a["variants"][v[2]]["discr"])

    def variant_name(self, v):
        if v[0] != "adt" or v[2] is None:
            return None
        a = self.prog.adts.get(v[1])
        if a is None:
            return str(v[2])
        return a["variants"][v[2]]["name"]

    # ---- run
    def run(self, fn, args, depth=0):
        """returns list of Outcome (one per explored path)"""
        outs = []
        errs = []
        frame = {i: Cell() for i in range(len(fn.raw["locals"]))}
        for i, a in enumerate(args):
            frame[i + 1].v = a
        self._steps = 0
        self._forks = 0
        self._exec(fn, frame, 0, errs, outs, depth)
        return outs

    def _place_cell(self, fn, frame, pl, create=True):
        c = frame[pl["l"]]
        for e in pl.get("p", []):
            if e == "*":
                if c.v[0] == "ref":
                    c = c.v[1]
                else:
                    return None
            elif isinstance(e, dict) and "f" in e:
                if c.v[0] == "top":
                    if not create:
                        return None
                    c.v = ("adt", None, None, {})
                if c.v[0] == "adt":
                    fs = c.v[3]
                    if e["f"] not in fs:
                        fs[e["f"]] = Cell()
                    c = fs[e["f"]]
                elif c.v[0] == "tuple":
                    c = c.v[1][e["f"]]
                else:
                    return None
            elif isinstance(e, dict) and "dc" in e:
                continue
            else:
                return None
        return c

    def _operand(self, fn, frame, o):
        if "c" in o or "m" in o:
            pl = o.get("c") or o.get("m")
            c = self._place_cell(fn, frame, pl)
            if c is None:
                return TOP
            return clone(c.v) if c.v[0] in ("adt", "tuple") else c.v
        k = o.get("k")
        if k:
            if "promoted" in k:
                d = fn.dinfo(k["item"])
                pf = self.prog.promoted.get((d["key"], k["promoted"]))
                if pf is None:
                    return TOP
                outs = self.run_sub(pf, [])
                if len(outs) == 1 and outs[0].kind == "return":
                    return outs[0].value
                return TOP
            v = k.get("v")
            t = fn.ty(k["ty"])
            if v and "int" in v:
                n = int(v["int"])
                if t.get("k") == "adt" and t["adt"] in self.prog.adts and self.prog.adts[t["adt"]]["is_enum"]:
                    a = self.prog.adts[t["adt"]]
                    for i, vv in enumerate(a["variants"]):
                        if int(vv["discr"]) == n:
                            return Adt(t["adt"], i)
                return Int(n)
            if "item" in k:
                d = fn.dinfo(k["item"])
                c = self.prog.consts.get(d["key"])
                if c and c["v"] and "int" in c["v"]:
                    return Int(int(c["v"]["int"]))
            if v and "zst" in v:
                return ("tuple", [])
        return TOP

    def run_sub(self, fn, args, depth=0):
        saved = (self._steps, self._forks) if hasattr(self, "_steps") else (0, 0)
        outs = []
        frame = {i: Cell() for i in range(len(fn.raw["locals"]))}
        for i, a in enumerate(args):
            frame[i + 1].v = a
        self._exec(fn, frame, 0, [], outs, depth)
        return outs

    def _binop(self, op, a, b, fn, v):
        if not (is_int(a) and is_int(b)):
            # partial knowledge for bit ops with zero etc. is not attempted
            return TOP
        x, y = a[1], b[1]
        base = op.replace("WithOverflow", "").replace("Unchecked", "")
        r = None
        if base == "Add":
            r = x + y
        elif base == "Sub":
            r = x - y
        elif base == "Mul":
            r = x * y
        elif base == "Div":
            r = None if y == 0 else int(x / y) if (x < 0) != (y < 0) else x // y
        elif base == "Rem":
            r = None if y == 0 else x % y
        elif base == "BitAnd":
            r = x & y
        elif base == "BitOr":
            r = x | y
        elif base == "BitXor":
            r = x ^ y
        elif base == "Shl":
            r = x << y if 0 <= y < 128 else None
        elif base == "Shr":
            r = x >> y if 0 <= y < 128 else None
        elif base == "Eq":
            r = int(x == y)
        elif base == "Ne":
            r = int(x != y)
        elif base == "Lt":
            r = int(x < y)
        elif base == "Le":
            r = int(x <= y)
        elif base == "Gt":
            r = int(x > y)
        elif base == "Ge":
            r = int(x >= y)
        if r is None:
            return TOP
        if op.endswith("WithOverflow"):
            return ("tuple", [Cell(Int(r)), Cell(Int(0))])
        return Int(r)

    def _rvalue(self, fn, frame, v, errs):
        r = v["r"]
        if r == "use":
            return self._operand(fn, frame, v["a"][0])
        if r in ("ref", "rawptr"):
            c = self._place_cell(fn, frame, v["pl"])
            return Ref(c) if c is not None else TOP
        if r == "discr":
            c = self._place_cell(fn, frame, v["pl"], create=False)
            if c is None:
                return TOP
            d = self.discr_of(c.v)
            return Int(d) if d is not None else TOP
        if r == "bin":
            a = self._operand(fn, frame, v["a"][0])
            b = self._operand(fn, frame, v["a"][1])
            return self._binop(v["op"], a, b, fn, v)
        if r == "un":
            a = self._operand(fn, frame, v["a"][0])
            if not is_int(a):
                return TOP
            if v["op"] == "Not":
                # bool not vs bitwise not: decide by type is not available here; bools are 0/1
                return Int(1 - a[1]) if a[1] in (0, 1) else Int(~a[1])
            if v["op"] == "Neg":
                return Int(-a[1])
            return TOP
        if r == "cast":
            a = self._operand(fn, frame, v["a"][0])
            if is_int(a) and v["kind"] == "IntToInt":
                to = fn.tystr(v["to"])
                bits = {"u8": 8, "u16": 16, "u32": 32, "u64": 64, "u128": 128, "usize": 64}.get(to)
                if bits:
                    return Int(a[1] & ((1 << bits) - 1))
                return a
            if a[0] == "adt" and v["kind"] == "IntToInt":
                d = self.discr_of(a)
                return Int(d) if d is not None else TOP
            if v["kind"].startswith("PointerCoercion") or v["kind"] in ("PtrToPtr", "Transmute", "Subtype"):
                return a
            return TOP
        if r == "agg":
            ak = v.get("ak")
            vals = [self._operand(fn, frame, o) for o in v["a"]]
            if ak == "adt":
                if v["adt"] == MFI_ERR:
                    errs.append(v["variant"])
                return Adt(v["adt"], v["vi"], {i: Cell(x) for i, x in enumerate(vals)})
            if ak == "tuple":
                return ("tuple", [Cell(x) for x in vals])
            return TOP
        return TOP

    def _exec(self, fn, frame, bb, errs, outs, depth):
        while True:
            self._steps += 1
            if self._steps > self.max_steps:
                outs.append(Outcome("undecided", errors=list(errs)))
                return
            blk = fn.blocks[bb]
            for s in blk["s"]:
                if "d" not in s:
                    continue
                v = s["v"]
                if v["r"] == "setdiscr":
                    c = self._place_cell(fn, frame, s["d"])
                    if c is not None and c.v[0] == "adt":
                        c.v = ("adt", c.v[1], v["vi"], c.v[3])
                    continue
                val = self._rvalue(fn, frame, v, errs)
                c = self._place_cell(fn, frame, s["d"])
                if c is not None:
                    c.v = val
            t = blk["t"]
            k = t["k"]
            if k == "goto":
                bb = t["to"]
            elif k == "return":
                outs.append(Outcome("return", frame[0].v, list(errs)))
                return
            elif k == "switch":
                on = self._operand(fn, frame, t["on"])
                if is_int(on):
                    tgt = t["else"]
                    for (av, ab) in t["arms"]:
                        if int(av) == on[1]:
                            tgt = ab
                    bb = tgt
                else:
                    self._forks += 1
                    if self._forks > self.max_forks:
                        outs.append(Outcome("undecided", errors=list(errs)))
                        return
                    targets = []
                    for (_, ab) in t["arms"]:
                        if ab not in targets:
                            targets.append(ab)
                    if t["else"] not in targets:
                        targets.append(t["else"])
                    for tg in targets:
                        # skip unreachable-only targets
                        if fn.blocks[tg]["t"]["k"] == "unreachable" and not fn.blocks[tg]["s"]:
                            continue
                        fr2 = self._fork_frame(frame)
                        self._exec(fn, fr2, tg, list(errs), outs, depth)
                    return
            elif k == "assert":
                bb = t["to"]
            elif k == "drop":
                bb = t["to"]
            elif k == "call":
                args = [self._operand(fn, frame, o) for o in t["args"]]
                _ci = fn.dinfo(t["res"]) if t.get("res") is not None else (fn.dinfo(t["raw"]) if "raw" in t else None)
                if _ci is not None and depth == 0:
                    errs.append("call:" + _ci["name"])
                res = self._call(fn, t, args, errs, depth)
                if res is DIVERGE:
                    outs.append(Outcome("diverge", errors=list(errs)))
                    return
                if isinstance(res, list):
                    # multiple outcomes from callee: fork on each
                    if t.get("to") is None:
                        outs.append(Outcome("diverge", errors=list(errs)))
                        return
                    for (val, cerrs) in res:
                        fr2 = self._fork_frame(frame)
                        c = self._place_cell(fn, fr2, t["dest"])
                        if c is not None:
                            c.v = val
                        self._exec(fn, fr2, t["to"], list(errs) + cerrs, outs, depth)
                    return
                c = self._place_cell(fn, frame, t["dest"])
                if c is not None:
                    c.v = res
                if t.get("to") is None:
                    outs.append(Outcome("diverge", errors=list(errs)))
                    return
                bb = t["to"]
            elif k in ("unreachable", "resume", "abort"):
                outs.append(Outcome("diverge", errors=list(errs)))
                return
            else:
                outs.append(Outcome("undecided", errors=list(errs)))
                return

    def _fork_frame(self, frame):
        memo = {}

        def cp_cell(c):
            if id(c) in memo:
                return memo[id(c)]
            n = Cell()
            memo[id(c)] = n
            n.v = cp_val(c.v)
            return n

        def cp_val(v):
            if v[0] == "adt":
                return ("adt", v[1], v[2], {k: cp_cell(c) for k, c in v[3].items()})
            if v[0] == "tuple":
                return ("tuple", [cp_cell(c) for c in v[1]])
            if v[0] == "ref":
                return ("ref", cp_cell(v[1]))
            return v
        return {i: cp_cell(c) for i, c in frame.items()}

    def _call(self, fn, t, args, errs, depth):
        ci = fn.dinfo(t["res"]) if t.get("res") is not None else (fn.dinfo(t["raw"]) if "raw" in t else None)
        if ci is None:
            return TOP
        key = ci["key"]
        name = ci["name"]
        if key in self.stubs:
            return self.stubs[key](self, args)
        if name in self.stubs:
            return self.stubs[name](self, args)
        if name == "discriminant_value" and args and args[0][0] == "ref":
            d = self.discr_of(args[0][1].v)
            return Int(d) if d is not None else TOP
        if name == "branch" and len(args) == 1 and args[0][0] == "adt" and args[0][2] is not None:
            a = args[0]
            CF = "core::ops::control_flow::ControlFlow"
            if a[1] == "core::result::Result":
                if a[2] == 0:
                    return Adt(CF, 0, {0: a[3].get(0, Cell())})
                return Adt(CF, 1, {0: Cell(a)})
            if a[1] == "core::option::Option":
                if a[2] == 1:
                    return Adt(CF, 0, {0: a[3].get(0, Cell())})
                return Adt(CF, 1, {0: Cell(a)})
        if name == "from_residual" and len(args) == 1 and args[0][0] == "adt":
            return args[0]
        if name in ("panic", "panic_fmt", "unreachable_display", "panic_nounwind", "begin_panic"):
            return DIVERGE
        if name == "deref" and args and args[0][0] == "ref" and args[0][1].v[0] == "ref":
            return args[0][1].v
        if name in ("eq", "ne") and len(args) == 2 and all(a[0] == "ref" for a in args):
            a, b = args[0][1].v, args[1][1].v
            while a[0] == "ref":
                a = a[1].v
            while b[0] == "ref":
                b = b[1].v
            if is_int(a) and is_int(b):
                return Bool((a[1] == b[1]) == (name == "eq"))
            if a[0] == "adt" and b[0] == "adt" and a[1] == b[1] and a[2] is not None and b[2] is not None and not a[3] and not b[3] \
                    and a[1] in self.prog.adts and self.prog.adts[a[1]]["is_enum"] and \
                    all(not v["fields"] for v in self.prog.adts[a[1]]["variants"]):
                # PartialEq on a field-less enum (derived): discriminant equality
                return Bool((a[2] == b[2]) == (name == "eq"))
            callee = self.prog.fns.get(key)
            if callee is None:
                return TOP
        if name in ("clone",) and args and args[0][0] == "ref":
            return clone(args[0][1].v)
        if name in ("into", "from") and len(args) == 1 and is_int(args[0]):
            return args[0]
        callee = self.prog.fns.get(key)
        if callee is None or depth >= self.max_depth:
            return TOP
        if ci.get("kind") == "Closure" and len(args) == 2 and args[1][0] == "tuple":
            # "rust-call" ABI: the argument tuple is spread over the closure body's parameters
            args = [args[0]] + [c.v for c in args[1][1]]
        outs = []
        frame = {i: Cell() for i in range(len(callee.raw["locals"]))}
        for i, a in enumerate(args):
            if i + 1 in frame:
                frame[i + 1].v = a
        self._exec(callee, frame, 0, [], outs, depth + 1)
        rets = [(o.value, list(o.errors)) for o in outs if o.kind == "return"]
        if any(o.kind == "undecided" for o in outs):
            return TOP
        if not rets:
            return DIVERGE
        if len(rets) == 1:
            errs.extend(rets[0][1])
            return rets[0][0]
        return rets


DIVERGE = object()


def result_kind(interp, out):
    """classify an Outcome of a Result-returning function: ('Ok',) or ('Err', variant)"""
    if out.kind != "return":
        return (out.kind,)
    v = out.value
    if v[0] == "adt" and v[1] == "core::result::Result":
        if v[2] == 0:
            return ("Ok",)
        return ("Err", out.errors[-1] if out.errors else "?")
    if v[0] == "adt" and v[1] == "core::option::Option":
        return ("Some" if v[2] == 1 else "None", show(v[3].get(0).v) if v[2] == 1 and 0 in v[3] else "")
    if is_int(v):
        return ("val", v[1])
    if v[0] == "adt":
        return ("variant", interp.variant_name(v))
    return ("?", show(v))
