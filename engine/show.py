"""Pretty printer for facts (debugging aid):  python3 -m engine.show <fn-key-regex> [--full]"""
import sys
import re
from . import facts, model


def s_place(f, pl):
    s = "_%d" % pl["l"]
    n = f.varname(pl["l"])
    if n:
        s += "{" + n + "}"
    for e in pl.get("p", []):
        if e == "*":
            s = "(*%s)" % s
        elif isinstance(e, dict):
            if "f" in e:
                s += "." + e["n"] + "<" + e["o"].split("::")[-1] + ">"
            elif "i" in e:
                s += "[_%d]" % e["i"]
            elif "ci" in e:
                s += "[%d]" % e["ci"]
            elif "dc" in e:
                s += " as " + e["dc"]
            else:
                s += str(e)
        else:
            s += "." + str(e)
    return s


def s_op(f, o):
    if "c" in o:
        return s_place(f, o["c"])
    if "m" in o:
        return "move " + s_place(f, o["m"])
    k = o.get("k")
    if k:
        t = f.tystr(k["ty"])
        if "fn" in k:
            return "fn:" + f.dinfo(k["fn"])["path"]
        s = "const"
        if "item" in k:
            s += " " + f.dinfo(k["item"])["path"]
            if "promoted" in k:
                s += "::promoted[%d]" % k["promoted"]
        if "v" in k and k["v"]:
            v = k["v"]
            if "int" in v:
                s += " " + v["int"]
            elif "zst" in v:
                s += " zst"
            else:
                s += " " + str(v)[:80]
        return s + ": " + t[-40:]
    return str(o)


def s_rv(f, v):
    r = v["r"]
    if r == "use":
        return s_op(f, v["a"][0])
    if r == "ref":
        return ("&mut " if v["mut"] else "&") + s_place(f, v["pl"])
    if r == "rawptr":
        return "&raw " + s_place(f, v["pl"])
    if r == "cast":
        return "%s as %s (%s)" % (s_op(f, v["a"][0]), f.tystr(v["to"]), v["kind"])
    if r == "bin":
        return "%s(%s, %s)" % (v["op"], s_op(f, v["a"][0]), s_op(f, v["a"][1]))
    if r == "un":
        return "%s(%s)" % (v["op"], s_op(f, v["a"][0]))
    if r == "discr":
        return "discriminant(%s)" % s_place(f, v["pl"])
    if r == "agg":
        if v["ak"] == "adt":
            return "%s::%s{%s}" % (v["adt"].split("::")[-1], v["variant"],
                                   ", ".join("%s: %s" % (n, s_op(f, a)) for n, a in zip(v["fields"], v["a"])))
        if v["ak"] == "closure":
            return "closure %s [%s]" % (f.dinfo(v["def"])["key"], ", ".join(s_op(f, a) for a in v["a"]))
        return "%s(%s)" % (v["ak"], ", ".join(s_op(f, a) for a in v["a"]))
    return str(v)


def show(f, out=sys.stdout):
    out.write("fn %s  argc=%d  %s\n" % (f.key + ("" if f.promoted is None else "::promoted[%d]" % f.promoted), f.argc, f.loc(f.raw["span"])))
    f.succ()
    for i, bb in enumerate(f.blocks):
        out.write("  bb%d:%s\n" % (i, " (cleanup)" if bb["t"].get("cleanup") else ""))
        for s in bb["s"]:
            if "d" in s:
                out.write("    %s = %s   // L%d\n" % (s_place(f, s["d"]), s_rv(f, s["v"]), s["sp"][1]))
        t = bb["t"]
        k = t["k"]
        if k == "call":
            cal = f.dinfo(t["res"]) if t.get("res") is not None else (f.dinfo(t["raw"]) if "raw" in t else None)
            name = cal["path"] if cal else "indirect " + s_op(f, t["indirect"])
            if cal and "self_ty" in cal and "trait" in cal:
                name = "<%s as %s>::%s" % (cal["self_ty"], cal["trait"].split("::")[-1], cal["name"])
            out.write("    %s = %s(%s) -> %s   // L%d%s\n" % (s_place(f, t["dest"]), name, ", ".join(s_op(f, a) for a in t["args"]),
                                                      "bb%s" % t["to"] if t.get("to") is not None else "!", t["sp"][1],
                                                      " UNRESOLVED" if t.get("res") is None and "raw" in t else ""))
        elif k == "switch":
            out.write("    switch %s -> %s else bb%d\n" % (s_op(f, t["on"]), ", ".join("%s:bb%d" % (a, b) for a, b in t["arms"]), t["else"]))
        elif k == "goto":
            out.write("    goto bb%d%s\n" % (t["to"], " (threaded)" if "threaded_from" in t else ""))
        elif k == "assert":
            out.write("    assert(%s == %s, %s) -> bb%d\n" % (s_op(f, t["cond"]), t["expected"], t["msg"], t["to"]))
        elif k == "drop":
            out.write("    drop(%s) -> bb%d\n" % (s_place(f, t["pl"]), t["to"]))
        else:
            out.write("    %s\n" % k)


def main():
    pat = sys.argv[1]
    d, meta = facts.build("default")
    prog = model.Program(facts.load_raw(d))
    n = 0
    for k, f in sorted(prog.fns.items()):
        if re.search(pat, k):
            show(f)
            n += 1
            if "--promoted" in sys.argv:
                for (kk, pi), pf in prog.promoted.items():
                    if kk == k:
                        show(pf)
    if n == 0:
        print("no match")


if __name__ == "__main__":
    main()
