"""Anchor layer: instruction map (from the generated dispatch code in MIR) and normalised
`#[account(..)]` constraints (from attribute token trees collected on the expanded AST)."""
import re
from .model import match_def


def flat(tokens):
    """token tree -> flat token list with explicit delimiters"""
    out = []
    for t in tokens:
        if isinstance(t, dict):
            o = t["g"]
            c = {"(": ")", "[": "]", "{": "}", "": ""}[o]
            if o:
                out.append(o)
            out.extend(flat(t["t"]))
            if c:
                out.append(c)
        else:
            out.append(t)
    return out


def split_top(tokens, sep=","):
    items, cur = [], []
    for t in tokens:
        if t == sep and not isinstance(t, dict):
            if cur:
                items.append(cur)
            cur = []
        else:
            cur.append(t)
    if cur:
        items.append(cur)
    return items


def tokstr(tokens):
    return " ".join(flat(tokens))


class Constraint:
    def __init__(self, kind, **kw):
        self.kind = kind
        self.__dict__.update(kw)

    def __repr__(self):
        d = {k: v for k, v in self.__dict__.items() if k not in ("kind", "raw")}
        return "%s(%s)" % (self.kind, ", ".join("%s=%s" % kv for kv in d.items()))


def _split_err(item):
    """split `... @ Err::V` -> (tokens, 'V' or None)"""
    for i, t in enumerate(item):
        if t == "@":
            err = [x for x in item[i + 1:] if isinstance(x, str)]
            return item[:i], (err[-1] if err else None)
    return item, None


def _subst_lets(expr_tokens):
    """For `{ let a = X.load()?; ...; tail }` return tail tokens with each let-bound variable replaced by
    its initialiser tokens (parenthesised).  Non-block expressions are returned unchanged."""
    if len(expr_tokens) == 1 and isinstance(expr_tokens[0], dict) and expr_tokens[0]["g"] in ("{", "("):
        g = expr_tokens[0]
        if g["g"] == "(":
            return _subst_lets(g["t"])
        stmts = split_top(g["t"], ";")
        env = {}
        tail = None
        for st in stmts:
            if st and st[0] == "let":
                # let NAME [: TYPE] = INIT
                name = st[1]
                if "=" in st:
                    eq = st.index("=")
                    init = _apply_env(st[eq + 1:], env)
                    env[name] = init
            else:
                tail = st
        if tail is None:
            return []
        return _apply_env(tail, env)
    return expr_tokens


def _apply_env(tokens, env):
    out = []
    prev = None
    for t in tokens:
        if isinstance(t, dict):
            out.append({"g": t["g"], "t": _apply_env(t["t"], env)})
        elif t in env and prev != ".":
            out.append({"g": "", "t": env[t]})
        else:
            out.append(t)
        prev = t if isinstance(t, str) else None
    return out


def _norm(s):
    return re.sub(r"\s+", " ", s).strip()


KEYEQ_PATTERNS = [
    # A.load()?.F == B.key()
    re.compile(r"^(?P<a>\w+) \. load \( \) \? \. (?P<f>[\w \.]+?) (?P<op>==|!=) (?P<b>\w+) \. key \( \)$"),
    re.compile(r"^(?P<b>\w+) \. key \( \) (?P<op>==|!=) (?P<a>\w+) \. load \( \) \? \. (?P<f>[\w \.]+?)$"),
    # A.F == B.key()   (Account<T>)
    re.compile(r"^(?P<a>\w+) \. (?P<f>\w+) (?P<op>==|!=) (?P<b>\w+) \. key \( \)$"),
    re.compile(r"^(?P<b>\w+) \. key \( \) (?P<op>==|!=) (?P<a>\w+) \. (?P<f>\w+)$"),
    # A.load()?.F.eq(&B.key())
    re.compile(r"^(?P<a>\w+) \. load \( \) \? \. (?P<f>[\w \.]+?) \. eq \( & (?P<b>\w+) \. key \( \) \)$"),
]


def normalise_field(field_name, ty_src, attrs):
    cons = []
    for at in attrs:
        if at["path"] != "account":
            continue
        for item in split_top(at["tokens"]):
            item, err = _split_err(item)
            head = item[0] if item else None
            if not item:
                continue
            # key with optional `ns::key`
            key = None
            rest = None
            if "=" in [t for t in item if isinstance(t, str)]:
                eq = next(i for i, t in enumerate(item) if t == "=")
                key = "".join(t for t in item[:eq] if isinstance(t, str))
                rest = item[eq + 1:]
            else:
                key = "".join(t for t in item if isinstance(t, str))
                rest = []
            raw = tokstr(item)
            if key == "mut":
                cons.append(Constraint("mut", raw=raw))
            elif key == "signer":
                cons.append(Constraint("signer", raw=raw))
            elif key in ("init", "init_if_needed", "zero"):
                cons.append(Constraint("init", how=key, raw=raw))
            elif key == "close":
                cons.append(Constraint("close", target=tokstr(rest), raw=raw))
            elif key == "payer":
                cons.append(Constraint("payer", target=tokstr(rest), raw=raw))
            elif key == "space":
                cons.append(Constraint("space", expr=tokstr(rest), raw=raw))
            elif key == "has_one":
                cons.append(Constraint("keyeq", a=field_name, f=tokstr(rest), b=tokstr(rest), err=err, how="has_one", raw=raw))
            elif key == "address":
                cons.append(Constraint("address", expr=_norm(tokstr(rest)), err=err, raw=raw))
            elif key == "owner":
                cons.append(Constraint("owner", expr=_norm(tokstr(rest)), err=err, raw=raw))
            elif key == "seeds":
                seeds = []
                if rest and isinstance(rest[0], dict):
                    for sd in split_top(rest[0]["t"]):
                        seeds.append(_norm(tokstr(sd)))
                cons.append(Constraint("seeds", seeds=seeds, raw=raw))
            elif key == "bump":
                cons.append(Constraint("bump", expr=_norm(tokstr(rest)) if rest else None, raw=raw))
            elif key == "seeds::program":
                cons.append(Constraint("seeds_program", expr=_norm(tokstr(rest)), raw=raw))
            elif key in ("token::mint", "token::authority", "token::token_program", "associated_token::mint",
                         "associated_token::authority", "associated_token::token_program", "mint::authority",
                         "mint::decimals", "mint::token_program", "mint::freeze_authority"):
                cons.append(Constraint("spl", key=key, expr=_norm(tokstr(rest)), raw=raw))
            elif key == "constraint":
                ex = _subst_lets(rest)
                # `constraint = a && b && c @ E` enforces exactly what three constraints a, b, c (each @ E) enforce:
                # every top-level conjunct becomes its own normalised constraint
                for s in _conjuncts(_norm(tokstr(ex))):
                    m = None
                    for pat in KEYEQ_PATTERNS:
                        m = pat.match(s)
                        if m:
                            break
                    if m:
                        cons.append(Constraint("keyeq", a=m.group("a"), f=m.group("f").replace(" ", ""), b=m.group("b"),
                                               neg=(m.group("op") == "!="), err=err, how="constraint", raw=raw))
                    else:
                        cons.append(Constraint("pred", expr=s, err=err, raw=raw))
            elif key.startswith("realloc"):
                cons.append(Constraint("realloc", key=key, expr=_norm(tokstr(rest)), raw=raw))
            else:
                cons.append(Constraint("opaque", key=key, raw=raw))
    return cons


def _strip_parens(s):
    s = s.strip()
    while (s.startswith("( ") and s.endswith(" )") and _balanced(s[2:-2])) or (s.startswith("{ ") and s.endswith(" }") and _balanced(s[2:-2]) and ";" not in s):
        s = s[2:-2].strip()
    return s


def _conjuncts(s):
    """top-level `&&` conjuncts of a (space separated, tokenised) boolean expression, outer parentheses stripped, recursively"""
    s = _strip_parens(s)
    toks = s.split(" ")
    parts, cur, d = [], [], 0
    hasor = False
    for t in toks:
        if t in ("(", "[", "{"):
            d += 1
        elif t in (")", "]", "}"):
            d -= 1
        if d == 0 and t == "||":
            hasor = True
        if d == 0 and t == "&&":
            parts.append(" ".join(cur))
            cur = []
        else:
            cur.append(t)
    parts.append(" ".join(cur))
    if hasor or len(parts) == 1:
        return [s]
    out = []
    for p_ in parts:
        out.extend(_conjuncts(p_))
    return out


def _balanced(s):
    d = 0
    for t in s.split(" "):
        if t in "([{":
            d += 1
        elif t in ")]}":
            d -= 1
            if d < 0:
                return False
    return d == 0


class AccField:
    def __init__(self, name, ty_src, ty, cons, line):
        self.name = name
        self.ty_src = ty_src     # source spelling
        self.ty = ty             # resolved type dict
        self.cons = cons
        self.line = line

    @property
    def ctor(self):
        """outer type constructor name, peeling Box / Option"""
        s = self.ty["s"]
        opt = False
        while True:
            m = re.match(r"^(?:std|core|alloc)::(?:boxed::Box|option::Option)<(.*)>$", s)
            if not m:
                break
            if "Option<" in s[:30]:
                opt = True
            s = m.group(1)
        m = re.match(r"^([\w:]+)", s)
        return m.group(1).split("::")[-1]

    @property
    def optional(self):
        return "option::Option<" in self.ty["s"][:40]

    @property
    def inner(self):
        """canonical ADT of the innermost account data type (Bank, MarginfiGroup, ...)"""
        t = self.ty
        return _inner_adt(t, self._types)

    def kinds(self, kind):
        return [c for c in self.cons if c.kind == kind]

    def has(self, kind):
        return any(c.kind == kind for c in self.cons)


def _inner_adt(t, types, depth=0):
    if depth > 6:
        return None
    if t.get("k") == "adt":
        if t["adt"] == "alloc::alloc::Global":
            return None
        for a in t.get("args", []):
            r = _inner_adt(types[a], types, depth + 1)
            if r:
                return r
        return t["adt"]
    return None


class AccountsStruct:
    def __init__(self, key, fields, file, line, attrs):
        self.key = key
        self.name = key.split("::")[-1]
        self.fields = fields
        self.file = file
        self.line = line
        self.attrs = attrs

    def field(self, name):
        for f in self.fields:
            if f.name == name:
                return f
        return None

    def fields_of(self, inner_suffix, ctor=None):
        out = []
        for f in self.fields:
            i = f.inner
            if i and (i == inner_suffix or i.endswith("::" + inner_suffix)) and (ctor is None or f.ctor == ctor):
                out.append(f)
        return out

    def all_constraints(self):
        for f in self.fields:
            for c in f.cons:
                yield f, c


class AnchorModel:
    def __init__(self, prog, raw):
        self.prog = prog
        self.structs = {}
        asts = {}
        for cname, r in raw.items():
            for s in r.get("ast_structs", []):
                asts[s["path"]] = s
        # Accounts structs = self types of impls of anchor_lang::Accounts::try_accounts
        for k, f in prog.fns.items():
            if f.info["name"] == "try_accounts" and f.info.get("trait", "").endswith("::Accounts") and f.info.get("self_adt"):
                sk = f.info["self_adt"]
                adt = prog.adts.get(sk)
                ast = asts.get(sk)
                if adt is None or ast is None:
                    continue
                types = adt["_crate"].types
                fields = []
                afields = {x["name"]: x for x in ast["fields"]}
                for fd in adt["variants"][0]["fields"]:
                    af = afields.get(fd["name"], {"attrs": [], "ty_src": ""})
                    cons = normalise_field(fd["name"], af["ty_src"], af["attrs"])
                    line = af["attrs"][0]["line"] if af["attrs"] else None
                    fo = AccField(fd["name"], af["ty_src"], types[fd["ty"]], cons, line)
                    fo._types = types
                    fields.append(fo)
                st = AccountsStruct(sk, fields, ast["file"], ast["line"], ast["attrs"])
                st.try_accounts = f
                self.structs[sk] = st
        # instruction map
        self.instructions = {}
        for k, f in prog.fns.items():
            m = re.match(r"^marginfi::__private::__global::(\w+)$", k)
            if not m:
                continue
            ix = m.group(1)
            ent = {"name": ix, "global": f, "struct": None, "program_fn": None, "handlers": []}
            for c in f.calls():
                if c.callee and c.callee["name"] == "try_accounts" and c.callee.get("self_adt") in self.structs:
                    ent["struct"] = self.structs[c.callee["self_adt"]]
                if c.key == "marginfi::marginfi::" + ix:
                    ent["program_fn"] = prog.fns.get(c.key)
            pf = ent["program_fn"]
            if pf is not None:
                for c in pf.calls():
                    if c.key in prog.fns and c.callee["crate"] == "marginfi":
                        ent["handlers"].append(prog.fns[c.key])
            self.instructions[ix] = ent

    def ix(self, name):
        return self.instructions.get(name)
