"""Facts build + cache + load.

Facts are produced by the mirfacts rustc driver run over /repo's *current*
working tree with /repo's own cargo (1.79) as orchestrator and the nightly
rustc as compiler.  The cache is content addressed (SHA-256 over every input
file of the analysed tree + the driver binary + the configuration), so a check
never reads facts that were produced from a different tree.
"""
import fcntl
import hashlib
import json
import os
import pickle
import shutil
import subprocess
import sys
import time

VERIF = os.path.dirname(os.path.dirname(os.path.abspath(__file__)))
REPO = os.environ.get("VERIF_REPO", "/repo")
WORK = os.path.join(VERIF, ".work")
DRIVER = os.path.join(VERIF, "tools/mirfacts/target/release/mirfacts")
CRATES = ["marginfi", "marginfi_type_crate", "kamino_mocks", "drift_mocks", "solend_mocks", "id_crate"]
PKG_DIRS = ["marginfi", "marginfi-type-crate", "marginfi_type_crate", "kamino-mocks", "kamino_mocks",
            "drift-mocks", "drift_mocks", "solend-mocks", "solend_mocks", "id-crate", "id_crate"]

CONFIGS = {
    "default": [],
    "staging": ["--no-default-features", "--features", "staging"],
    "stagingalt": ["--no-default-features", "--features", "stagingalt"],
    "devnet": ["--no-default-features", "--features", "devnet"],
    "localnet": ["--no-default-features"],
}

SKIP_DIRS = {"target", ".git", "node_modules", ".anchor", "test-ledger"}


def tree_hash(repo=REPO):
    h = hashlib.sha256()
    files = []
    for root, dirs, fs in os.walk(repo):
        dirs[:] = sorted(d for d in dirs if d not in SKIP_DIRS)
        for f in sorted(fs):
            if f.endswith(".rs") or f in ("Cargo.toml", "Cargo.lock", "rust-toolchain.toml", "rust-toolchain"):
                files.append(os.path.join(root, f))
    for p in files:
        h.update(os.path.relpath(p, repo).encode())
        h.update(b"\0")
        try:
            with open(p, "rb") as fh:
                h.update(hashlib.sha256(fh.read()).digest())
        except OSError:
            h.update(b"?")
    with open(DRIVER, "rb") as fh:
        h.update(hashlib.sha256(fh.read()).digest())
    return h.hexdigest()[:24], len(files)


class AnalysisError(Exception):
    pass


def _toolenv():
    nightly = subprocess.check_output(["rustup", "which", "--toolchain", "nightly", "rustc"], text=True).strip()
    sysroot = subprocess.check_output([nightly, "--print", "sysroot"], text=True).strip()
    return nightly, sysroot


def build(config="default", repo=REPO, verbose=False):
    """Returns (facts_dir, meta). Builds if the cache has no entry for the current tree."""
    if not os.path.exists(DRIVER):
        raise AnalysisError("driver not built; run ./setup.sh")
    th, nfiles = tree_hash(repo)
    base = os.path.join(WORK, "facts", config)
    os.makedirs(base, exist_ok=True)
    out = os.path.join(base, th)
    okf = os.path.join(out, "OK")
    if os.path.exists(okf):
        return out, json.load(open(okf))
    # one build at a time per target directory; development tools that analyse several scratch trees at once may use more than one
    # target directory (VERIF_FACT_SLOTS, default 1 - the registered checks never need more)
    nslots = max(1, int(os.environ.get("VERIF_FACT_SLOTS", "1") or 1))
    lock = None
    slot = 0
    if nslots > 1:
        for k in range(nslots):
            lk = open(os.path.join(WORK, "facts.lock" + (".%d" % k if k else "")), "w")
            try:
                fcntl.flock(lk, fcntl.LOCK_EX | fcntl.LOCK_NB)
                lock, slot = lk, k
                break
            except OSError:
                lk.close()
    if lock is None:
        slot = (os.getpid() % nslots) if nslots > 1 else 0
        lock = open(os.path.join(WORK, "facts.lock" + (".%d" % slot if slot else "")), "w")
        fcntl.flock(lock, fcntl.LOCK_EX)
    try:
        if os.path.exists(okf):
            return out, json.load(open(okf))
        if os.path.exists(out):
            shutil.rmtree(out)
        os.makedirs(out)
        target = os.path.join(WORK, "target-" + config + ("-s%d" % slot if slot else ""))
        # cargo's freshness cache would skip the wrapper: drop the members' fingerprints
        fp = os.path.join(target, "debug", ".fingerprint")
        if os.path.isdir(fp):
            for d in os.listdir(fp):
                stem = d.rsplit("-", 1)[0]
                if stem in PKG_DIRS:
                    shutil.rmtree(os.path.join(fp, d), ignore_errors=True)
        nonce = "%s-%d-%d" % (th, os.getpid(), int(time.time() * 1000))
        nightly, sysroot = _toolenv()
        env = dict(os.environ)
        env.update({
            "CARGO_NET_OFFLINE": "true",
            "RUSTC": nightly,
            "RUSTC_WORKSPACE_WRAPPER": DRIVER,
            "LD_LIBRARY_PATH": sysroot + "/lib",
            "RUSTFLAGS": "-Zmir-opt-level=0 -Awarnings -Cdebug-assertions=off -Coverflow-checks=on",
            "CARGO_TARGET_DIR": target,
            "MIRFACTS_OUT": out,
            "MIRFACTS_CRATES": ",".join(CRATES),
            "MIRFACTS_NONCE": nonce,
        })
        env.pop("RUSTUP_TOOLCHAIN", None)
        t0 = time.time()
        cmd = ["cargo", "check", "--offline", "-p", "marginfi", "--lib"] + CONFIGS[config]
        p = subprocess.run(cmd, cwd=repo, env=env, stdout=subprocess.PIPE, stderr=subprocess.STDOUT, text=True)
        if verbose:
            sys.stderr.write(p.stdout[-3000:])
        if p.returncode != 0:
            shutil.rmtree(out, ignore_errors=True)
            raise AnalysisError("analysis build failed (tree does not compile under the analysis toolchain):\n" + p.stdout[-4000:])
        for c in CRATES:
            fpath = os.path.join(out, c + ".json")
            if not os.path.exists(fpath):
                shutil.rmtree(out, ignore_errors=True)
                raise AnalysisError("facts file missing for crate %s (driver was skipped?)" % c)
            with open(fpath) as fh:
                head = fh.read(400)
            if nonce not in head:
                shutil.rmtree(out, ignore_errors=True)
                raise AnalysisError("stale facts file for crate %s (nonce mismatch)" % c)
        meta = {"tree_hash": th, "files_hashed": nfiles, "config": config, "nonce": nonce,
                "build_s": round(time.time() - t0, 1)}
        with open(okf, "w") as fh:
            json.dump(meta, fh)
        # keep only the 4 most recent cache entries per config
        ents = sorted((os.path.getmtime(os.path.join(base, d)), d) for d in os.listdir(base))
        for mt, d in ents[:-4]:
            if time.time() - mt > 1800:          # never evict an entry another (concurrent) check may still be reading
                shutil.rmtree(os.path.join(base, d), ignore_errors=True)
        return out, meta
    finally:
        fcntl.flock(lock, fcntl.LOCK_UN)
        lock.close()


def load_raw(facts_dir):
    """Load per-crate JSON (pickle cached)."""
    pk = os.path.join(facts_dir, "raw.pickle")
    if os.path.exists(pk):
        try:
            with open(pk, "rb") as fh:
                return pickle.load(fh)
        except Exception:
            pass
    raw = {}
    for c in CRATES:
        with open(os.path.join(facts_dir, c + ".json")) as fh:
            raw[c] = json.load(fh)
    tmp = pk + ".%d" % os.getpid()
    with open(tmp, "wb") as fh:
        pickle.dump(raw, fh, protocol=pickle.HIGHEST_PROTOCOL)
    os.replace(tmp, pk)
    return raw
