"""Transparent new functions.

A function of the analysed crates that is not in the reviewed list of known functions (rules/known_fns.json) is code that
was *extracted* (or added) after the rules were written.  Every rule is stated on the functions the review knew, so such a
function is spliced into each of its callers at MIR level before any analysis runs: the callee's blocks are copied into the
caller with fresh locals, parameters become assignments from the argument operands, `return` becomes an assignment of the
callee's return local to the call's destination followed by a jump to the continuation.  Control-flow, dominance, provenance,
guard-atom, expression-tree and write-set analyses then see exactly what they would see had the code been written in place,
so an "extract helper" refactoring changes nothing, and a defect hidden inside a new helper is examined like inline code.

When the call's result is propagated (`?`, or returned), the callee's own error exits (`Err(..)` / `None` assigned to its return
local, its own `?`) are error exits of the caller too; the spliced return local is recorded in `Fn.inl_err_locals` and
analysis.error_blocks treats it like `_0`.
"""
import copy
import json
import os
import re

ANALYSED = ("marginfi", "marginfi_type_crate", "kamino_mocks", "drift_mocks", "solend_mocks", "id_crate")
KNOWN_FILE = os.path.join(os.path.dirname(os.path.dirname(os.path.abspath(__file__))), "rules", "known_fns.json")


def fn_id(f):
    sa = (f.info.get("self_adt") or "").split("::")[-1]
    mod = f.key.rsplit("::", 1)[0]
    mod = re.sub(r"::\{impl#\d+\}", "", mod)
    return "%s|%s|%s|%s" % (f.info["crate"], sa, f.name, mod)


def all_ids(prog):
    out = set()
    for k, f in prog.fns.items():
        if f.info["kind"] == "Closure" or f.info["crate"] not in ANALYSED or "::tests::" in k or "{closure#" in k:
            continue
        out.add(fn_id(f))
    return out


def fingerprint(f):
    """(signature, callee names) of a function: enough to recognise it again after a rename"""
    sig = [f.tystr(f.raw["locals"][i]) for i in range(0, f.argc + 1)]
    callees = set()
    for bb in f.blocks:
        t = bb["t"]
        if t["k"] == "call":
            r = t.get("res") if t.get("res") is not None else t.get("raw")
            if r is not None:
                callees.add(f.dinfo(r)["name"])
    return {"sig": sig, "callees": sorted(callees)}


def resolve_renamed(prog):
    """A known function of marginfi / the type crate that is missing by name, while exactly one function that is *not* known has the same
    self type, the same signature and (nearly) the same callees, was renamed: the new function gets the reviewed name back as an alias so
    that every name-anchored rule keeps looking at it (its content is still checked by those rules).  Returns {old id: new name}."""
    d = _load()
    if not d or not d.get("prints"):
        return {}
    known = set(d["fns"])
    known_names = {tuple(x.split("|")[:3]) for x in known}
    live = {}
    fresh = []
    for k, f in prog.fns.items():
        if f.info["kind"] == "Closure" or "{closure#" in k or f.info["crate"] not in ANALYSED or "::tests::" in k:
            continue
        fid = fn_id(f)
        live[tuple(fid.split("|")[:3])] = f
        if fid not in known and tuple(fid.split("|")[:3]) not in known_names:
            fresh.append(f)
    out = {}
    if not fresh:
        return out
    fps = {f.key: fingerprint(f) for f in fresh}
    used = set()
    for fid, fp in sorted(d["prints"].items()):
        crate, sa, name = fid.split("|")[:3]
        if (crate, sa, name) in live:
            continue
        cands = []
        for g in fresh:
            if g.key in used or g.info["crate"] != crate or (g.info.get("self_adt") or "").split("::")[-1] != sa:
                continue
            gp = fps[g.key]
            if gp["sig"] != fp["sig"]:
                continue
            a, b = set(gp["callees"]), set(fp["callees"])
            jac = (len(a & b) / len(a | b)) if (a | b) else 1.0
            if jac >= 0.7:
                cands.append((jac, g))
        if len(cands) == 1:
            g = cands[0][1]
            used.add(g.key)
            out[fid] = g.name
            for c in prog.crates.values():
                for dd in c.defs:
                    if dd.get("key") == g.key:
                        dd["alias_of"] = dd.get("name")
                        dd["name"] = name
    return out


def _load():
    try:
        d = json.load(open(KNOWN_FILE))
    except Exception:
        return None
    if isinstance(d, list):
        d = {"fns": d, "adts": []}
    return d


def load_known():
    d = _load()
    return set(d["fns"]) if d else None


def new_adts(prog):
    """ADTs of the analysed crates that did not exist on the reviewed tree (e.g. a small struct introduced to name a tuple)"""
    d = _load()
    if not d or not d.get("adts"):
        return set()
    known = set(d["adts"])
    return {k for k, a in prog.adts.items() if k.split("::")[0] in ANALYSED and k not in known}


def _place(pl, lm):
    q = dict(pl)
    q["l"] = lm(pl["l"])
    if pl.get("p"):
        q["p"] = [({**e, "i": lm(e["i"])} if isinstance(e, dict) and "i" in e else e) for e in pl["p"]]
    return q


def _operand(o, base):
    if "c" in o:
        return {**o, "c": _place(o["c"], base)}
    if "m" in o:
        return {**o, "m": _place(o["m"], base)}
    return copy.deepcopy(o)


def _rvalue(v, base):
    q = copy.deepcopy(v)
    if "a" in v:
        q["a"] = [_operand(a, base) for a in v["a"]]
    if "pl" in v:
        q["pl"] = _place(v["pl"], base)
    return q


def _stmt(s, base):
    if "d" not in s:
        return copy.deepcopy(s)
    q = dict(s)
    q["d"] = _place(s["d"], base)
    q["v"] = _rvalue(s["v"], base)
    return q


def _term(t, base, boff):
    q = copy.deepcopy(t)
    for k in ("on", "cond", "indirect"):
        if k in t and isinstance(t[k], dict):
            q[k] = _operand(t[k], base)
    if "args" in t:
        q["args"] = [_operand(a, base) for a in t["args"]]
    if "dest" in t:
        q["dest"] = _place(t["dest"], base)
    if "pl" in t:
        q["pl"] = _place(t["pl"], base)
    for k in ("to", "unwind", "else"):
        if t.get(k) is not None:
            q[k] = t[k] + boff
    if "arms" in t:
        q["arms"] = [[a, b + boff] for a, b in t["arms"]]
    return q


def _reset(f):
    f._succ = None
    f._pred = None
    f._calls = None
    f._defs = None
    f._threaded = False
    f.nthreaded = 0
    f._closures = None
    f._dom = None
    f._fnrefs = None
    f._rf = None


def splice(F, b, G, propagated):
    """inline the call terminating block b of F (callee body G)"""
    t = F.blocks[b]["t"]
    base = len(F.raw["locals"])
    boff = len(F.blocks)
    dest = t["dest"]
    plain = not dest.get("p")
    # the callee's return local is the call's destination itself when that is a plain local (no extra move), a fresh local otherwise
    ret = dest["l"] if plain else base

    def lm(l):
        return ret if l == 0 else l + base
    F.raw["locals"] = list(F.raw["locals"]) + list(G.raw["locals"])
    names = dict(F.raw.get("names") or {})
    for k, v in (G.raw.get("names") or {}).items():
        if int(k) != 0:
            names[str(base + int(k))] = v
    F.raw["names"] = names
    sp = t.get("sp")
    for j, arg in enumerate(t["args"]):
        F.blocks[b]["s"].append({"d": {"l": base + 1 + j}, "v": {"r": "use", "a": [copy.deepcopy(arg)]}, "sp": sp})
    cont = t.get("to")
    for gb in G.blocks:
        nb = {"s": [_stmt(s, lm) for s in gb["s"]], "t": _term(gb["t"], lm, boff)}
        if gb["t"]["k"] == "return":
            if not plain:
                nb["s"].append({"d": copy.deepcopy(dest), "v": {"r": "use", "a": [{"m": {"l": base}}]}, "sp": gb["t"].get("sp")})
            nb["t"] = {"k": "goto", "to": cont, "sp": gb["t"].get("sp")} if cont is not None else {"k": "unreachable", "sp": gb["t"].get("sp")}
        F.blocks.append(nb)
    F.blocks[b]["t"] = {"k": "goto", "to": boff, "sp": sp, "inlined": G.key}
    if propagated and ret != 0:
        F.inl_err_locals = set(F.inl_err_locals or ()) | {ret}
    if propagated and G.inl_err_locals:
        F.inl_err_locals = set(F.inl_err_locals or ()) | {lm(x) for x in G.inl_err_locals}
    F.inl_from = list(F.inl_from or ()) + [G.key]
    _reset(F)


def _propagates(c):
    """the call's Result / Option is handed on unchanged (`?` or returned): only then are the callee's error exits the caller's.  A result
    that the caller matches on is handled by the caller's own arms."""
    return bool(c[0]) and c[1] in ("?", "returned")


def _callee_key(f, t):
    r = t.get("res")
    if r is None:
        r = t.get("raw")
    return f.dinfo(r)["key"] if r is not None else None


def inline_new_functions(prog, known=None, max_blocks=400):
    """Returns {new function key: number of call sites spliced}.  `known` = set of reviewed function ids (None: nothing is new)."""
    if known is None:
        known = load_known()
    if not known:
        return {}
    known_names = {tuple(x.split("|")[:3]) for x in known}
    new = {}
    for k, f in prog.fns.items():
        if f.info["kind"] == "Closure" or "{closure#" in k or f.info["crate"] not in ANALYSED or "::tests::" in k:
            continue
        if k.startswith("marginfi::__private") or k.startswith("marginfi::instruction::") or "__client_accounts" in k or "__cpi_client_accounts" in k:
            continue          # Anchor-generated dispatch / client code of an added instruction
        tr = f.info.get("trait")
        if tr and tr.split("::")[0] not in ANALYSED:
            continue          # impl of an external trait (Accounts, Default, Serialize, ...): called through the trait, not extracted code
        fid = fn_id(f)
        if fid in known or tuple(fid.split("|")[:3]) in known_names:
            continue
        if len(f.blocks) > max_blocks:
            continue
        new[k] = f
    if not new:
        return {}
    from . import analysis
    done = {}
    state = {}
    callers = {}

    def process(F, stack):
        """splice every call of F to a new function (callee processed first)"""
        if state.get(F.key) == "done":
            return
        state[F.key] = "busy"
        n0 = len(F.blocks)
        for b in range(n0):
            t = F.blocks[b]["t"]
            if t["k"] != "call":
                continue
            ck = _callee_key(F, t)
            G = new.get(ck)
            if G is None or G is F or ck in stack or G.info["crate"] != F.info["crate"]:
                continue
            if len(t["args"]) != G.argc or t.get("dest") is None:
                continue
            process(G, stack | {F.key})
            if state.get(G.key) != "done":
                continue
            dest = t["dest"]
            try:
                propagated = (dest["l"] == 0 and not dest.get("p")) or _propagates(analysis.consumed(F, b))
            except Exception:
                propagated = False
            saved = (copy.deepcopy(F.blocks[b]), list(F.raw["locals"]), dict(F.raw.get("names") or {}), len(F.blocks), F.inl_err_locals, F.inl_from)
            try:
                splice(F, b, G, propagated)
            except Exception:
                # leave the call as it was (the rules then see an ordinary call to an unknown function)
                F.blocks[b], F.raw["locals"], F.raw["names"] = saved[0], saved[1], saved[2]
                del F.blocks[saved[3]:]
                F.inl_err_locals, F.inl_from = saved[4], saved[5]
                _reset(F)
                continue
            done[ck] = done.get(ck, 0) + 1
            callers.setdefault(ck, set()).add(F.key)
        state[F.key] = "done"

    for k in sorted(prog.fns):
        F = prog.fns[k]
        if re.match(r"^marginfi::marginfi::\w+$", k):
            continue          # the #[program] module's thin wrappers: the handler they call keeps its identity
        process(F, frozenset())
    for (k, pi), F in sorted(prog.promoted.items()):
        pass
    # a new function every reference to which was spliced away no longer exists for the who-may-call / who-may-write rules
    still = set()
    for k, f in prog.fns.items():
        _reset(f)
        for bb in f.blocks:
            t = bb["t"]
            if t["k"] == "call":
                ck = _callee_key(f, t)
                if ck in new and k != ck:
                    still.add(ck)
        for _, rk in f.fn_refs():
            if rk in new:
                still.add(rk)
        _reset(f)
    for k in list(new):
        if k in done and k not in still:
            del prog.fns[k]
            # closures written inside a helper that now lives (only) inside one caller are that caller's closures
            cs = callers.get(k) or set()
            cs = {c for c in cs if c not in new or c in prog.fns}
            owner = None
            if len(cs) == 1:
                owner = next(iter(cs))
                hops = 0
                while owner in new and owner not in prog.fns and len(callers.get(owner) or ()) == 1 and hops < 4:
                    owner = next(iter(callers[owner]))
                    hops += 1
            if owner is not None and owner in prog.fns:
                for c in prog.crates.values():
                    for dd in c.defs:
                        if dd.get("closure_of") == k:
                            dd["closure_of"] = owner
    prog._callees = {}
    prog._reach = {}
    prog._callers = None
    prog._writes_direct = {}
    prog._writes_trans = {}
    return done


# ----------------------------------------------------------------------------------------------------------------------------
# "deep" form of one function: a clone with the bodies of its analysed-crate callees spliced in (bounded depth).  Two versions of a
# function that differ only in where the helper boundaries are (a helper extracted, inlined, merged or split) have the same deep form.

_DEEP_MEMO = {}


def deep_fn(prog, f, depth=2, max_blocks=60, _stack=frozenset()):
    from . import model, analysis
    key = (id(prog), f.key, depth)
    if key in _DEEP_MEMO:
        return _DEEP_MEMO[key]
    raw = copy.deepcopy({k: v for k, v in f.raw.items()})
    g = model.Fn(f.crate, raw)
    g.inl_err_locals = set(f.inl_err_locals or ()) or None
    n0 = len(g.blocks)
    if depth > 0:
        for b in range(n0):
            t = g.blocks[b]["t"]
            if t["k"] != "call":
                continue
            ck = _callee_key(g, t)
            c = prog.fns.get(ck)
            if c is None or ck == f.key or ck in _stack or c.info["kind"] == "Closure" or c.info["crate"] != f.info["crate"] or c.info["crate"] not in ANALYSED:
                continue
            if len(c.blocks) > max_blocks or len(t["args"]) != c.argc or t.get("dest") is None:
                continue
            cd = deep_fn(prog, c, depth - 1, max_blocks, _stack | {f.key})
            if len(g.blocks) + len(cd.blocks) > 900:
                continue
            dest = t["dest"]
            try:
                propagated = (dest["l"] == 0 and not dest.get("p")) or _propagates(analysis.consumed(g, b))
            except Exception:
                propagated = False
            saved = (copy.deepcopy(g.blocks[b]), list(g.raw["locals"]), dict(g.raw.get("names") or {}), len(g.blocks), g.inl_err_locals, g.inl_from)
            try:
                splice(g, b, cd, propagated)
            except Exception:
                g.blocks[b], g.raw["locals"], g.raw["names"] = saved[0], saved[1], saved[2]
                del g.blocks[saved[3]:]
                g.inl_err_locals, g.inl_from = saved[4], saved[5]
                _reset(g)
    _DEEP_MEMO[key] = g
    return g
