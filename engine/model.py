"""Program model over mirfacts JSON: functions, call graph, CFG, summaries."""
import re
from collections import defaultdict


class Crate:
    def __init__(self, raw):
        self.name = raw["crate"]
        self.files = raw["files"]
        self.types = raw["types"]
        self.defs = raw["defs"]
        self.raw = raw


class Fn:
    __slots__ = ("crate", "raw", "info", "key", "promoted", "blocks", "_succ", "_pred", "_calls", "_defs",
                 "_threaded", "nthreaded", "_closures", "_dom", "_fnrefs", "_rf", "inl_err_locals", "inl_from")

    def __init__(self, crate, raw):
        self.crate = crate
        self.raw = raw
        self.info = crate.defs[raw["def"]]
        self.key = self.info["key"]
        self.promoted = raw.get("promoted")
        self.blocks = raw["blocks"]
        self._succ = None
        self._pred = None
        self._calls = None
        self._defs = None
        self._threaded = False
        self.nthreaded = 0
        self._closures = None
        self._dom = None
        self._fnrefs = None
        self._rf = None
        self.inl_err_locals = None     # return locals of spliced callees whose result is propagated (engine/inline.py)
        self.inl_from = None

    # --- basic accessors
    @property
    def name(self):
        return self.info["name"]

    def ty(self, i):
        return self.crate.types[i]

    def tystr(self, i):
        return self.crate.types[i]["s"]

    def local_ty(self, l):
        return self.crate.types[self.raw["locals"][l]]

    def dinfo(self, i):
        return self.crate.defs[i]

    def loc(self, sp):
        if not sp:
            return "?"
        return "%s:%d" % (self.crate.files[sp[0]], sp[1])

    def bloc(self, b):
        return self.loc(self.blocks[b]["t"].get("sp"))

    def varname(self, l):
        return self.raw["names"].get(str(l))

    @property
    def argc(self):
        return self.raw["argc"]

    def __repr__(self):
        return "<Fn %s%s>" % (self.key, "" if self.promoted is None else "[promoted %d]" % self.promoted)

    # --- CFG
    def succ(self):
        if self._succ is None:
            self.thread_bool_joins()
            s = []
            sinks = self._spliced_error_exits()
            for i, bb in enumerate(self.blocks):
                s.append([] if i in sinks else term_succ(bb["t"]))
            self._succ = s
        return self._succ

    def _spliced_error_exits(self):
        """blocks of a spliced callee (engine/inline.py) that commit to an error which the caller propagates: control never comes back to
        the caller's success code from there, so they are terminal in the CFG (as they are when the same code is written in place)"""
        if not self.inl_err_locals:
            return set()
        al = self.inl_err_locals
        out = set()
        for i, bb in enumerate(self.blocks):
            for st in bb["s"]:
                d = st.get("d")
                v = st.get("v")
                if d and v and d["l"] in al and not d.get("p") and v["r"] == "agg" and v.get("ak") == "adt" and (
                        (v.get("adt") == "core::result::Result" and v.get("variant") == "Err") or (v.get("adt") == "core::option::Option" and v.get("variant") == "None")):
                    out.add(i)
            t = bb["t"]
            if t["k"] == "call" and t.get("dest") and t["dest"]["l"] in al and not t["dest"].get("p") and "raw" in t and self.dinfo(t["raw"])["name"] == "from_residual":
                out.add(i)
        return out

    def pred(self):
        if self._pred is None:
            p = [[] for _ in self.blocks]
            for i, ss in enumerate(self.succ()):
                for t in ss:
                    p[t].append(i)
            self._pred = p
        return self._pred

    def thread_bool_joins(self):
        """Boolean-join threading (DESIGN §3 A3).  A merge block M whose terminator switches on a bool
        local `c`, whose own statements do not assign `c`, and each of whose predecessors P ends in
        `goto M` with last assignment to `c` in P being a constant: P is redirected to the selected
        successor of M's switch.  Applied to a fix-point; purely structural."""
        if self._threaded:
            return
        self._threaded = True
        blocks = self.blocks
        changed = True
        rounds = 0
        while changed and rounds < 8:
            changed = False
            rounds += 1
            # jump-to-jump elimination: `goto E` where E is an empty block ending in `goto T` goes to T directly (exposes the
            # assigning predecessor of a join to the threading below; semantically neutral)
            for i, bb in enumerate(blocks):
                t = bb["t"]
                hops = 0
                while t["k"] == "goto" and hops < 8:
                    e = blocks[t["to"]]
                    if e["s"] or e["t"]["k"] != "goto" or e["t"]["to"] == t["to"] or t["to"] == i:
                        break
                    t["to"] = e["t"]["to"]
                    hops += 1
            preds = defaultdict(list)
            for i, bb in enumerate(blocks):
                for t in term_succ(bb["t"]):
                    preds[t].append(i)
            for m, bb in enumerate(blocks):
                t = bb["t"]
                if t["k"] != "switch":
                    continue
                on = t["on"]
                pl = on.get("c") or on.get("m")
                if not pl or pl.get("p"):
                    continue
                c = pl["l"]
                if self.tystr(self.raw["locals"][c]) != "bool":
                    continue
                if any(("d" in s and s["d"]["l"] == c) for s in bb["s"]):
                    continue
                # M may contain other statements only if they do not matter for control; we keep them by
                # only redirecting when M has no statements at all (storage markers are not emitted).
                if bb["s"]:
                    continue
                for p in list(preds.get(m, [])):
                    pt = blocks[p]["t"]
                    if pt["k"] != "goto" or pt["to"] != m:
                        continue
                    val = None
                    for s in reversed(blocks[p]["s"]):
                        if "d" in s and s["d"]["l"] == c and not s["d"].get("p"):
                            v = s["v"]
                            if v["r"] == "use" and "k" in v["a"][0] and "v" in v["a"][0]["k"] and "int" in v["a"][0]["k"]["v"]:
                                val = int(v["a"][0]["k"]["v"]["int"])
                            break
                    if val is None:
                        continue
                    target = t["else"]
                    for (av, at) in t["arms"]:
                        if int(av) == val:
                            target = at
                    pt["to"] = target
                    pt["threaded_from"] = m
                    self.nthreaded += 1
                    changed = True

            # discriminant-join threading: M = { d = discriminant(x); switch d }, predecessor P ends in `goto M` and its last whole
            # assignment to x is an Option / Result / ControlFlow aggregate of a known variant: P goes to that arm directly
            for m, bb in enumerate(blocks):
                t = bb["t"]
                if t["k"] != "switch" or len(bb["s"]) != 1:
                    continue
                s0 = bb["s"][0]
                on = t["on"]
                pl = on.get("c") or on.get("m")
                if not pl or pl.get("p") or "d" not in s0 or s0["d"].get("p") or s0["d"]["l"] != pl["l"]:
                    continue
                v0 = s0["v"]
                if v0["r"] != "discr" or v0["pl"].get("p"):
                    continue
                x = v0["pl"]["l"]
                for p in list(preds.get(m, [])):
                    pt = blocks[p]["t"]
                    if pt["k"] != "goto" or pt["to"] != m or p == m:
                        continue
                    vi = None
                    for s in reversed(blocks[p]["s"]):
                        if "d" in s and s["d"]["l"] == x:
                            v = s["v"]
                            if not s["d"].get("p") and v["r"] == "agg" and v.get("ak") == "adt" and v.get("adt") in (
                                    "core::option::Option", "core::result::Result", "core::ops::control_flow::ControlFlow") and "vi" in v:
                                vi = int(v["vi"])
                            break
                    if vi is None:
                        continue
                    target = t["else"]
                    for (av, at) in t["arms"]:
                        if int(av) == vi:
                            target = at
                    pt["to"] = target
                    pt["threaded_from"] = m
                    self.nthreaded += 1
                    changed = True

    # --- calls
    def calls(self):
        """list of CallSite for every Call terminator."""
        if self._calls is None:
            cs = []
            for i, bb in enumerate(self.blocks):
                t = bb["t"]
                if t["k"] == "call":
                    cs.append(CallSite(self, i, t))
            self._calls = cs
        return self._calls

    def closures_created(self):
        """[(block, closure def key)]"""
        if self._closures is None:
            out = []
            for i, bb in enumerate(self.blocks):
                for s in bb["s"]:
                    v = s.get("v")
                    if v and v["r"] == "agg" and v.get("ak") in ("closure", "coroutine"):
                        out.append((i, self.dinfo(v["def"])["key"]))
            self._closures = out
        return self._closures

    def fn_refs(self):
        """[(block, def key)] function items used as values (e.g. `.map(I80F48::from)`)."""
        if self._fnrefs is None:
            out = []
            for i, bb in enumerate(self.blocks):
                ops = []
                for s in bb["s"]:
                    v = s.get("v")
                    if v:
                        ops.extend(v.get("a", []))
                t = bb["t"]
                if t["k"] == "call":
                    ops.extend(t["args"])
                for o in ops:
                    k = o.get("k")
                    if k and "fn" in k:
                        out.append((i, self.dinfo(k["fn"])["key"]))
            self._fnrefs = out
        return self._fnrefs

    def local_defs(self):
        """local -> list of (block, stmt index or 'T', kind) where kind in assign/call"""
        if self._defs is None:
            d = defaultdict(list)
            for i, bb in enumerate(self.blocks):
                for j, s in enumerate(bb["s"]):
                    if "d" in s:
                        d[s["d"]["l"]].append((i, j))
                t = bb["t"]
                if t["k"] == "call":
                    d[t["dest"]["l"]].append((i, "T"))
            self._defs = d
        return self._defs

    # --- dominators
    def dominators(self):
        if self._dom is None:
            self._dom = compute_idom(len(self.blocks), self.succ(), 0)
        return self._dom

    def dominates(self, a, b):
        """block a dominates block b"""
        idom = self.dominators()
        if a == b:
            return True
        x = b
        seen = 0
        while x is not None and x != 0 and seen < 100000:
            x = idom.get(x)
            if x == a:
                return True
            seen += 1
        return a == 0 and (b in idom or b == 0)

    def reachable(self, start=0, removed=()):
        removed = set(removed)
        if start in removed:
            return set()
        seen = {start}
        st = [start]
        succ = self.succ()
        while st:
            x = st.pop()
            for y in succ[x]:
                if y not in seen and y not in removed:
                    seen.add(y)
                    st.append(y)
        return seen

    def reach_from(self, b):
        """blocks reachable from b by at least one edge (memoised)"""
        if self._rf is None:
            self._rf = {}
        r = self._rf.get(b)
        if r is None:
            succ = self.succ()
            r = set()
            st = list(succ[b])
            while st:
                x = st.pop()
                if x in r:
                    continue
                r.add(x)
                st.extend(succ[x])
            self._rf[b] = r
        return r

    def return_blocks(self):
        return [i for i, bb in enumerate(self.blocks) if bb["t"]["k"] == "return"]


def term_succ(t):
    k = t["k"]
    if k == "goto":
        return [t["to"]]
    if k == "switch":
        out = []
        for (_, b) in t["arms"]:
            if b not in out:
                out.append(b)
        if t["else"] not in out:
            out.append(t["else"])
        return out
    if k in ("call",):
        return [t["to"]] if t.get("to") is not None else []
    if k in ("assert", "drop"):
        return [t["to"]]
    return []


def compute_idom(n, succ, entry):
    # iterative (Cooper-Harvey-Kennedy)
    order = []
    seen = set()
    st = [(entry, 0)]
    seen.add(entry)
    while st:
        x, i = st.pop()
        if i < len(succ[x]):
            st.append((x, i + 1))
            y = succ[x][i]
            if y not in seen:
                seen.add(y)
                st.append((y, 0))
        else:
            order.append(x)
    rpo = list(reversed(order))
    idx = {b: i for i, b in enumerate(rpo)}
    preds = defaultdict(list)
    for x in rpo:
        for y in succ[x]:
            preds[y].append(x)
    idom = {entry: entry}
    changed = True
    while changed:
        changed = False
        for b in rpo[1:]:
            new = None
            for p in preds[b]:
                if p in idom:
                    if new is None:
                        new = p
                    else:
                        f1, f2 = p, new
                        while f1 != f2:
                            while idx[f1] > idx[f2]:
                                f1 = idom[f1]
                            while idx[f2] > idx[f1]:
                                f2 = idom[f2]
                        new = f1
            if new is not None and idom.get(b) != new:
                idom[b] = new
                changed = True
    idom[entry] = None
    return idom


class CallSite:
    __slots__ = ("fn", "block", "t", "raw", "res", "callee", "closure")

    def __init__(self, fn, block, t):
        self.fn = fn
        self.block = block
        self.t = t
        self.raw = fn.dinfo(t["raw"]) if "raw" in t else None
        r = t.get("res")
        self.res = fn.dinfo(r) if r is not None else None
        self.callee = self.res or self.raw   # def info dict or None (indirect)
        c = t.get("closure")
        if c is None:
            c = t.get("self_closure")
        self.closure = fn.dinfo(c)["key"] if c is not None else None

    @property
    def key(self):
        return self.callee["key"] if self.callee else None

    @property
    def args(self):
        return self.t["args"]

    @property
    def dest(self):
        return self.t["dest"]

    @property
    def loc(self):
        return self.fn.loc(self.t.get("sp"))

    @property
    def sub(self):
        return self.t.get("sub", "")

    def __repr__(self):
        return "<Call %s @%s bb%d>" % (self.key, self.fn.key, self.block)


def match_def(info, spec):
    """spec: dict with optional name, self_adt, trait, crate, key_re, path_re, key; all given must match.
    self_adt / trait compared on the canonical path suffix."""
    if info is None:
        return False
    if isinstance(spec, (list, tuple)):
        return any(match_def(info, s) for s in spec)
    if callable(spec):
        return spec(info)
    for k, v in spec.items():
        if k == "name":
            if isinstance(v, (list, tuple, set)):
                if info.get("name") not in v:
                    return False
            elif info.get("name") != v:
                return False
        elif k in ("self_adt", "trait"):
            got = info.get(k)
            if got is None:
                return False
            vs = v if isinstance(v, (list, tuple, set)) else [v]
            if not any(got == x or got.endswith("::" + x) for x in vs):
                return False
        elif k == "no_trait":
            if ("trait" in info) == bool(v):
                return False
        elif k == "crate":
            vs = v if isinstance(v, (list, tuple, set)) else [v]
            if info.get("crate") not in vs:
                return False
        elif k == "key":
            if info.get("key") != v:
                return False
        elif k == "key_re":
            if not re.search(v, info.get("key", "")):
                return False
        elif k == "path_re":
            if not re.search(v, info.get("path", "")):
                return False
        elif k == "self_ty_re":
            if not re.search(v, info.get("self_ty", "")):
                return False
        else:
            raise KeyError(k)
    return True


class Program:
    def __init__(self, raw):
        self.crates = {}
        self.fns = {}
        self.promoted = {}
        self.defs = {}
        self.consts = {}
        self.adts = {}
        for cname, r in raw.items():
            c = Crate(r)
            self.crates[cname] = c
            for d in c.defs:
                self.defs.setdefault(d["key"], d)
            for b in r["bodies"]:
                f = Fn(c, b)
                if f.promoted is None:
                    self.fns[f.key] = f
                else:
                    self.promoted[(f.key, f.promoted)] = f
            for k in r["consts"]:
                d = c.defs[k["def"]]
                self.consts[d["key"]] = {"info": d, "ty": c.types[k["ty"]], "v": k["v"], "span": k["span"], "crate": c}
            for a in r["adts"]:
                d = c.defs[a["def"]]
                a["_crate"] = c
                self.adts[d["key"]] = a
        self._callees = {}
        self._reach = {}
        self._callers = None
        self._writes_direct = {}
        self._writes_trans = {}

    # ---- lookup
    def find_fns(self, spec):
        return [f for f in self.fns.values() if match_def(f.info, spec)]

    def find_fn(self, spec):
        r = self.find_fns(spec)
        if len(r) != 1:
            raise LookupError("expected exactly one function for %r, found %d: %s" % (spec, len(r), [f.key for f in r][:6]))
        return r[0]

    def const_by_name(self, name, crate=None):
        out = []
        for k, c in self.consts.items():
            if c["info"]["name"] == name and (crate is None or c["info"]["crate"] == crate):
                out.append(c)
        return out

    def adt(self, suffix):
        out = [a for k, a in self.adts.items() if k == suffix or k.endswith("::" + suffix)]
        if len(out) != 1:
            raise LookupError("adt %s: %d matches" % (suffix, len(out)))
        return out[0]

    # ---- call graph
    def callees(self, key):
        """direct callee keys of fn `key` (calls + closures created + fn items referenced)."""
        r = self._callees.get(key)
        if r is None:
            f = self.fns.get(key)
            r = set()
            if f is not None:
                for c in f.calls():
                    if c.key:
                        r.add(c.key)
                    if c.raw and c.res is None:
                        r.add(c.raw["key"])
                    if c.closure:
                        r.add(c.closure)
                for _, ck in f.closures_created():
                    r.add(ck)
                for _, fk in f.fn_refs():
                    r.add(fk)
                # promoted bodies of this fn
            self._callees[key] = r
        return r

    def reach(self, key):
        """transitive callee key set (including key itself)."""
        r = self._reach.get(key)
        if r is not None:
            return r
        seen = {key}
        st = [key]
        while st:
            x = st.pop()
            for y in self.callees(x):
                if y not in seen:
                    seen.add(y)
                    st.append(y)
        self._reach[key] = seen
        return seen

    def callers(self):
        if self._callers is None:
            c = defaultdict(set)
            for k in self.fns:
                for y in self.callees(k):
                    c[y].add(k)
            self._callers = c
        return self._callers

    def fns_reaching(self, spec):
        """set of fn keys (with bodies or not) whose transitive callees contain a def matching spec,
        computed by reverse reachability."""
        targets = {k for k, d in self.defs.items() if match_def(d, spec)}
        cal = self.callers()
        seen = set(targets)
        st = list(targets)
        while st:
            x = st.pop()
            for y in cal.get(x, ()):
                if y not in seen:
                    seen.add(y)
                    st.append(y)
        return seen, targets

    # ---- writes
    def writes_direct(self, key):
        """set of (owner adt canon, field) written directly in body `key`.  A write is an assignment whose
        destination place crosses a field projection (every crossed ADT field is recorded, outermost to
        innermost), a whole-value assignment through a deref to an ADT ('*'), or a `&mut` borrow of such a
        place that is not a plain reborrow of a whole local (may-write)."""
        r = self._writes_direct.get(key)
        if r is None:
            r = {}
            f = self.fns.get(key)
            if f is not None:
                for bi, bb in enumerate(f.blocks):
                    for s in bb["s"]:
                        if "d" not in s:
                            continue
                        pl = s["d"]
                        for w in place_write_targets(f, pl):
                            r.setdefault(w, []).append((bi, s.get("sp"), "assign"))
                        v = s["v"]
                        if v["r"] in ("ref", "rawptr") and v.get("mut"):
                            for w in place_write_targets(f, v["pl"], borrow=True):
                                r.setdefault(w, []).append((bi, s.get("sp"), "mutborrow"))
                    t = bb["t"]
                    if t["k"] == "call":
                        for w in place_write_targets(f, t["dest"]):
                            r.setdefault(w, []).append((bi, t.get("sp"), "calldest"))
                _fold_fieldwise_overwrites(self, f, r)
            self._writes_direct[key] = r
        return r

    def writes(self, key):
        """transitive may-write set {(owner, field)} of fn key."""
        r = self._writes_trans.get(key)
        if r is None:
            r = set()
            for k in self.reach(key):
                r.update(self.writes_direct(k).keys())
            self._writes_trans[key] = r
        return r


def _fold_fieldwise_overwrites(prog, f, r):
    """A body that assigns *every* field of a struct (padding excepted) one by one overwrites the whole value: for the who-may-write rules
    that is the same as `*x = X { .. }`.  The field-wise entries are replaced by one whole-value ('*') entry, so `reset in place` and
    `reset by assignment` are one writer class.  A body that leaves a field out is not a reset and keeps its field-wise entries."""
    owners = {}
    for (o, n), sites in r.items():
        if n.startswith("=") and any(k == "assign" for (_, _, k) in sites):
            owners.setdefault(o, set()).add(n[1:])
    for o, got in owners.items():
        a = prog.adts.get(o)
        if not a or a.get("is_enum") or not a.get("variants"):
            continue
        names = [fl["name"] for fl in a["variants"][0]["fields"]]
        need = {n for n in names if not n.startswith("_pad")}
        if len(need) < 3 or not need <= got:
            continue
        # the field stores form one overwrite: some store block dominates all the others, and from it every success path to a return
        # passes every other store block (once the overwrite starts it completes) - conditional `set_if_some!`-style updates that happen to
        # cover all fields are not an overwrite
        rets = [i for i, bb in enumerate(f.blocks) if bb["t"]["k"] == "return"]
        from . import analysis as _A
        errb = set(_A.error_blocks(f))
        per_field = {n: {b for (b, _, k) in r[(o, "=" + n)] if k == "assign"} for n in need}
        allb = set().union(*per_field.values())
        head = None
        for c in sorted(allb):
            if all(x == c or x not in f.reachable(0, {c}) for x in allb):
                head = c
                break
        uncond = head is not None
        if uncond:
            for n in need:
                blocks = per_field[n]
                if head in blocks:
                    continue
                reach = f.reachable(head, blocks | errb)
                if any(x in reach for x in rets):
                    uncond = False
                    break
        if not uncond:
            continue
        first = min(b for n in need for (b, _, k) in r[(o, "=" + n)] if k == "assign")
        sp = next(sp for (b, sp, k) in sum((r[(o, "=" + n)] for n in need), []) if b == first)
        for n in names:
            for key in ((o, n), (o, "=" + n)):
                if key in r:
                    rest = [x for x in r[key] if x[2] != "assign"]
                    if rest:
                        r[key] = rest
                    else:
                        del r[key]
        # `x.slots[i].a = ..; x.slots[i].b = ..; ...` overwrites the element of the parent's field, exactly like `x.slots[i] = S { .. }`
        parents = set()
        for bb in f.blocks:
            for st in bb["s"]:
                pr = [e for e in (st.get("d") or {}).get("p") or [] if isinstance(e, dict) and "f" in e and not e["o"].startswith("(")]
                if pr and pr[-1]["o"] == o and pr[-1]["n"] in need:
                    parents.add((pr[-2]["o"], pr[-2]["n"]) if len(pr) >= 2 else None)
        if len(parents) == 1 and None not in parents:
            po, pn = next(iter(parents))
            r.setdefault((po, "=" + pn), []).append((first, sp, "assign"))
        else:
            r.setdefault((o, "*"), []).append((first, sp, "assign"))


def place_write_targets(f, pl, borrow=False):
    """(owner, field) pairs for a destination place."""
    out = []
    proj = pl.get("p")
    if not proj:
        return out
    saw_field = False
    for e in proj:
        if isinstance(e, dict) and "f" in e:
            o = e["o"]
            if o.startswith("("):
                continue
            out.append((o, e["n"]))
            saw_field = True
    if borrow and out:
        # a `&mut a.b.c` borrow may only write c (callees that receive it record their own writes)
        out = out[-1:]
    elif out:
        # the innermost field is the one actually (wholly) assigned: also recorded as (owner, "=field")
        out.append((out[-1][0], "=" + out[-1][1]))
    if not saw_field and not borrow:
        # whole-value store through deref
        if proj and proj[0] == "*":
            t = f.ty(pl["t"]) if "t" in pl else None
            if t and t.get("k") == "adt":
                out.append((t["adt"], "*"))
    return out


def op_place(o):
    return o.get("c") or o.get("m")


def op_const(o):
    return o.get("k")


def const_int(o):
    k = o.get("k")
    if k and "v" in k and k["v"] and "int" in k["v"]:
        return int(k["v"]["int"])
    return None
