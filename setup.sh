#!/bin/bash
# Builds the analysis tooling offline and warms the analysis target directory.
set -e
cd "$(dirname "$(readlink -f "$0")")"
export CARGO_NET_OFFLINE=true
(cd tools/mirfacts && cargo +nightly build --release --offline 2>&1 | tail -3)
test -x tools/mirfacts/target/release/mirfacts
mkdir -p .work evidence
# warm: one facts build of the current tree (compiles the ~760 dependency crates once)
python3 - <<'PY'
import sys
sys.path.insert(0, '.')
from engine import facts
d, meta = facts.build('default', verbose=True)
print('facts ready:', d, meta)
facts.load_raw(d)
PY
