"""C12 Least privilege: frames of delegated-admin instructions, flag words, freeze, deleverage window."""
from engine import analysis as A
from engine.model import op_place
from .common import *

INFO = {
    "explanation": "Decided statically: (R1) the transitive write-set (type-level field identities) of each delegated-admin "
                   "instruction is inside its remit, and none but emissions funding reaches a token transfer; (R2) every store to a "
                   "flag word (Bank.flags, MarginfiAccount.account_flags, MarginfiGroup.group_flags) is a read-modify-write of that "
                   "word, never a whole-word overwrite, and every constant handed to Bank::update_flag is within GROUP_FLAGS; "
                   "(R3) in each per-bank configuration instruction all writes to weights / oracle / curve / tier / cap / state "
                   "are reachable only over the FREEZE_SETTINGS-clear edge, the frozen edge writes at most the two limits, and "
                   "the freeze bit can only be touched from the clear edge; (R4) deleverage: start requires the risk admin, the "
                   "IN_DELEVERAGE edge of all four withdraw handlers must pass the checked daily-window update priced low-biased, "
                   "and the window routine's comparison shapes and reset wiring; (R5) the risk admin's sunset powers: every "
                   "update_flag(true, TOKENLESS_REPAYMENTS_COMPLETE) is reachable only over the true edge of get_flag(TOKENLESS_REPAYMENTS_ALLOWED), "
                   "that flag is set only by Bank::configure, and purging a deposit requires the COMPLETE flag. Not decided: the dollar arithmetic of the window.",
    "assumptions": ["type-level field identity: two accounts of one type are not distinguished by R1 (Rust's &/&mut separates source from destination)",
                    "HealthCache / risk-engine scratch structures written by deleverage brackets are local or cache data"],
}
T = "marginfi_type_crate::types::"
IRC = T + "interest_rate::InterestRateConfig"
EMS = T + "emode::EmodeSettings"
WWC = T + "group::WithdrawWindowCache"

CONTAINERS = {(BANK, "config"), (BANKCFG, "interest_rate_config"), (BANK, "emode"), (GROUP, "deleverage_withdraw_window_cache"),
              (LENDACC, "balances"), (MACCOUNT, "lending_account"), (BANK, "cache")}


def own(adt_suffix):
    return lambda o, n: o.endswith("::" + adt_suffix)


FRAMES = {
    "lending_pool_configure_bank_interest_only": (lambda o, n: o == IRC, False),
    "lending_pool_configure_bank_limits_only": (lambda o, n: (o, n) in {(BANKCFG, "deposit_limit"), (BANKCFG, "borrow_limit"), (BANKCFG, "total_asset_value_init_limit")}, False),
    "lending_pool_configure_bank_emode": (lambda o, n: o.startswith(T + "emode::"), False),
    "lending_pool_clone_emode": (lambda o, n: (o, n) == (BANK, "emode") or o.startswith(T + "emode::"), False),
    "lending_pool_setup_emissions": (lambda o, n: o == BANK and n in ("emissions_mint", "emissions_rate", "emissions_remaining", "flags"), True),
    "lending_pool_update_emissions_parameters": (lambda o, n: o == BANK and n in ("emissions_mint", "emissions_rate", "emissions_remaining", "flags"), True),
    "write_bank_metadata": (lambda o, n: o.endswith("::BankMetadata"), False),
    "lending_pool_force_tokenless_repay_complete": (lambda o, n: (o, n) == (BANK, "flags"), False),
    "purge_deleverage_balance": (lambda o, n: (o == BALANCE) or (o, n) in {(BANK, "total_asset_shares"), (BANK, "lending_position_count"), (MACCOUNT, "last_update")}, False),
    "configure_deleverage_withdrawal_limit": (lambda o, n: o == WWC and n in ("daily_limit", "last_daily_reset_timestamp"), False),
}

FROZEN_FIELDS = lambda o, n: (o == BANKCFG and n in (
    "asset_weight_init", "asset_weight_maint", "liability_weight_init", "liability_weight_maint", "oracle_setup", "oracle_keys",
    "oracle_max_age", "oracle_max_confidence", "fixed_price", "risk_tier", "total_asset_value_init_limit", "operational_state",
    "asset_tag")) or o == IRC
FREEZE_IXS = ["lending_pool_configure_bank", "lending_pool_configure_bank_interest_only", "lending_pool_configure_bank_limits_only",
              "lending_pool_configure_bank_oracle", "lending_pool_set_fixed_oracle_price"]
FROZEN_EDGE_ALLOWED = {(BANKCFG, "deposit_limit"), (BANKCFG, "borrow_limit")}

FLAG_WORDS = [(BANK, "flags"), (MACCOUNT, "account_flags"), (GROUP, "group_flags")]
# whole-word stores that are legitimate
FLAG_STORE_EXEMPT = {
    ("marginfi::instructions::marginfi_group::clone_bank::lending_pool_clone_bank", BANK, "flags"): "staging/localnet-only bank clone copies the source bank verbatim",
    ("marginfi::instructions::marginfi_account::transfer_account::transfer_to_new_account", MACCOUNT, "account_flags"): "fresh Init account",
    ("marginfi::instructions::marginfi_account::transfer_account::transfer_to_new_account_pda", MACCOUNT, "account_flags"): "fresh Init account",
}


def run(ctx):
    prog = ctx.prog
    transfer_reach, _ = prog.fns_reaching(TRANSFER_SPECS)
    # ------------------------------------------------------------ R1 frames
    ctx.floor("C12.R1", 10)
    for ixn, (allowed, may_transfer) in FRAMES.items():
        try:
            h = ctx.handler("C12.R1", ixn)
        except Exception:
            continue
        ws = {w for w in prog.writes(h.key) if w[0].startswith(T) and not w[1].startswith("=")}
        bad = sorted(w for w in ws if not allowed(*w) and w not in CONTAINERS)
        # containers are fine only if something inside them is allowed
        ctx.inst("C12.R1", "frame/" + ixn, not bad, "write-set of %s stays inside its remit" % ixn,
                 "outside remit: %s" % [(o.split("::")[-1], n) for o, n in bad] if bad else "ok (%d fields)" % len(ws), h.loc(h.raw["span"]))
        tr = h.key in transfer_reach
        ctx.inst("C12.R1", "no-transfer/" + ixn, (not tr) or may_transfer, "%s reaches no token transfer%s" % (ixn, " (emissions funding allowed)" if may_transfer else ""),
                 "reaches a transfer" if tr else "ok", h.loc(h.raw["span"]))

    # ------------------------------------------------------------ R2 flag words are read-modify-write
    nstores = 0
    for (owner, fld) in FLAG_WORDS:
        for k, kinds in writers_of(prog, owner, fld):
            if "assign" not in kinds:
                continue
            f = prog.fns[k]
            for bi, s, pv in field_stores(ctx, f, owner, fld):
                nstores += 1
                construct = "flag-store/%s.%s@%s" % (owner.split("::")[-1], fld, k.split("::", 1)[1])
                if (k, owner, fld) in FLAG_STORE_EXEMPT:
                    ctx.inst("C12.R2", construct, True, "exempt: " + FLAG_STORE_EXEMPT[(k, owner, fld)], "exempt (table)", f.bloc(bi))
                    continue
                rmw = pv.has_field(owner, fld) and any(o in ("BitOr", "BitAnd", "BitXor") for o in pv.ops)
                # shape of the update: only `W | x` (set), `W & !x` (clear) and `(W & !M) | x` (replace the bits of mask M) leave every other bit alone
                W = expr_tree(prog, f, {"c": s["d"]})
                tr = rvalue_tree(prog, f, s["v"])
                sc = split_call(tr)
                shape = False
                if sc and sc[0] == "bitor" and W in sc[1] and len(sc[1]) >= 2:
                    shape = True
                elif sc and sc[0] == "bitand" and len(sc[1]) == 2 and W in sc[1] and any(a.startswith("not(") for a in sc[1]):
                    shape = True
                elif sc and sc[0] == "bitor":
                    inner = [split_call(a) for a in sc[1]]
                    shape = any(i and i[0] == "bitand" and len(i[1]) == 2 and W in i[1] and any(a.startswith("not(") for a in i[1]) for i in inner)
                ctx.inst("C12.R2", construct.replace("flag-store/", "flag-store-shape/"), shape,
                         "the update of %s.%s is W | x, W & !x or (W & !M) | x: no bit outside the named mask can change" % (owner.split("::")[-1], fld), tr, f.bloc(bi))
                ctx.inst("C12.R2", construct, rmw, "store to %s.%s is a read-modify-write of the same word (bit-or / bit-and with a mask)" % (owner.split("::")[-1], fld),
                         "whole-word overwrite; value derives from %s" % A._pvs(pv) if not rmw else "ok", f.bloc(bi))
    ctx.floor("C12.R2", 4)
    # masks handed to Bank::update_flag are within GROUP_FLAGS; to override_emissions_flag within EMISSION_FLAGS (via its assert)
    gf = prog.const_by_name("GROUP_FLAGS")
    ef = prog.const_by_name("EMISSION_FLAGS")
    if not gf or not ef or "int" not in (gf[0]["v"] or {}) or "int" not in (ef[0]["v"] or {}):
        ctx.missing("C12.R2", "constants GROUP_FLAGS / EMISSION_FLAGS")
    else:
        GF = int(gf[0]["v"]["int"])
        EF = int(ef[0]["v"]["int"])
        ctx.inst("C12.R2", "masks-disjoint", GF & EF == 0, "GROUP_FLAGS and EMISSION_FLAGS are disjoint", "GROUP=%#x EMISSION=%#x" % (GF, EF))
        upd = prog.find_fns({"name": "update_flag", "self_adt": "Bank", "crate": "marginfi"})
        for u in upd:
            for caller in prog.fns.values():
                for c in caller.calls():
                    if c.key == u.key:
                        pv = ctx.slicer.operand(caller, c.args[2], at=c.block)
                        vals = set()
                        for ck in pv.consts:
                            cv = prog.consts.get(ck)
                            if cv and cv["v"] and "int" in cv["v"]:
                                vals.add(int(cv["v"]["int"]))
                        ok = bool(vals) and all(v & GF == v for v in vals) and not pv.params
                        ctx.inst("C12.R2", "update_flag-mask@%s" % caller.key.split("::", 1)[1], ok,
                                 "flag argument is a constant within GROUP_FLAGS", "consts=%s params=%s" % (sorted(k.split("::")[-1] for k in pv.consts), sorted(pv.params)), c.loc)
            # the mask functions themselves
        for nm, cname in (("verify_group_flags", "GROUP_FLAGS"), ("verify_emissions_flags", "EMISSION_FLAGS")):
            for vf in prog.find_fns({"name": nm, "crate": "marginfi"}):
                pv = ctx.slicer.local(vf, 0)
                ctx.inst("C12.R2", nm, pv.has_const(cname) and 1 in pv.params and "BitAnd" in pv.ops and "Eq" in pv.ops,
                         "%s(flags) == (flags & %s == flags)" % (nm, cname), A._pvs(pv), vf.loc(vf.raw["span"]))
        for of in prog.find_fns({"name": "override_emissions_flag", "crate": "marginfi"}):
            calls_verify = any(c.callee and c.callee["name"] == "verify_emissions_flags" for c in of.calls())
            ctx.inst("C12.R2", "override_emissions_flag/verifies", calls_verify, "the emissions flag setter validates its argument against EMISSION_FLAGS", "", of.loc(of.raw["span"]))

    # ------------------------------------------------------------ R3 freeze
    ctx.floor("C12.R3", 5)
    for ixn in FREEZE_IXS:
        try:
            h = ctx.handler("C12.R3", ixn)
        except Exception:
            continue
        edges = flag_edges(ctx, h, "FREEZE_SETTINGS")
        clear = [(sw, tgt) for (sw, tgt, truth) in edges if truth is False]
        frozen = [(sw, tgt) for (sw, tgt, truth) in edges if truth is True]
        if len(clear) != 1 or len(frozen) != 1:
            ctx.inst("C12.R3", "freeze/" + ixn, False, "a single branch on bank.get_flag(FREEZE_SETTINGS)", "found edges %s" % edges, h.loc(h.raw["span"]))
            continue
        only_clear = blocks_only_via(h, clear[0])
        only_frozen = blocks_only_via(h, frozen[0])
        allb = set(range(len(h.blocks)))
        not_clear = allb - only_clear
        w_outside = {w for w in writes_in_blocks(prog, h, not_clear) if FROZEN_FIELDS(*w)}
        w_frozen = {w for w in writes_in_blocks(prog, h, only_frozen) if w[0] in (BANKCFG, IRC) or w == (BANK, "flags")}
        bad_frozen = w_frozen - FROZEN_EDGE_ALLOWED
        probs = []
        if w_outside:
            probs.append("frozen-protected fields written outside the freeze-clear edge: %s" % sorted((o.split("::")[-1], n) for o, n in w_outside))
        if bad_frozen:
            probs.append("frozen edge writes %s" % sorted((o.split("::")[-1], n) for o, n in bad_frozen))
        # Bank.flags may only be written on the clear edge
        w_flags_outside = (BANK, "flags") in writes_in_blocks(prog, h, not_clear)
        if w_flags_outside:
            probs.append("Bank.flags written outside the freeze-clear edge")
        ctx.inst("C12.R3", "freeze/" + ixn, not probs, "protected settings (and the flag word) are written only over the FREEZE_SETTINGS-clear edge; frozen edge writes at most deposit/borrow limits",
                 "; ".join(probs) or "ok", h.bloc(clear[0][0]))
    # everyone else who can write protected fields of an existing bank must be in the reasoned list
    PROTECTED_WRITERS_OK = {
        "lending_pool_add_bank": "creates the bank", "lending_pool_add_bank_with_seed": "creates the bank", "lending_pool_add_bank_permissionless": "creates the bank",
        "lending_pool_add_bank_kamino": "creates the bank", "lending_pool_add_bank_drift": "creates the bank", "lending_pool_add_bank_solend": "creates the bank",
        "lending_pool_clone_bank": "staging-only clone into a new bank", "propagate_staked_settings": "group-level staked settings pushed to staked banks (outside the property's per-bank anchor set)",
        "lending_pool_handle_bankruptcy": "operational_state := KilledByBankruptcy (C07)", "migrate_curve": "permissionless legacy-curve migration to the equivalent seven-point form",
    }
    for ixn, ent in sorted(ctx.am.instructions.items()):
        if ixn in FREEZE_IXS or not ent["handlers"]:
            continue
        h = ent["handlers"][0]
        pw = {w for w in prog.writes(h.key) if FROZEN_FIELDS(*w)}
        if pw:
            ctx.inst("C12.R3", "protected-writer/" + ixn, ixn in PROTECTED_WRITERS_OK,
                     "only the freeze-aware configuration instructions (or the reasoned list) write freeze-protected settings",
                     PROTECTED_WRITERS_OK.get(ixn, "unexpected writer of %s" % sorted((o.split("::")[-1], n) for o, n in pw)[:6]), h.loc(h.raw["span"]))

    # ------------------------------------------------------------ R4 deleverage
    try:
        sd = ctx.ix("C12.R4", "start_deleverage")
        st = sd["struct"]
        ra = [c for f, c in st.all_constraints() if c.kind == "keyeq" and c.f == "risk_admin" and c.b == "risk_admin" and not getattr(c, "neg", False)]
        sf = st.field("risk_admin")
        ctx.inst("C12.R4", "start_deleverage/risk-admin", bool(ra) and sf is not None and sf.ctor == "Signer",
                 "start_deleverage binds group.risk_admin to a Signer field", "constraint=%s signer=%s" % (bool(ra), sf.ctor if sf else None), "%s:%d" % (st.file, st.line))
        h = sd["handlers"][0]
        setf = set()
        for g in prog.reach(h.key):
            gf_ = prog.fns.get(g)
            if gf_ is None:
                continue
            for c in gf_.calls():
                if c.callee and c.callee["name"] == "set_flag" and c.callee.get("self_adt", "").endswith("MarginfiAccount"):
                    pv = ctx.slicer.operand(gf_, c.args[1], at=c.block)
                    setf |= {k.split("::")[-1] for k in pv.consts}
        ctx.inst("C12.R4", "start_deleverage/flags", {"ACCOUNT_IN_RECEIVERSHIP", "ACCOUNT_IN_DELEVERAGE"} <= setf,
                 "start_deleverage sets ACCOUNT_IN_RECEIVERSHIP and ACCOUNT_IN_DELEVERAGE", "sets %s" % sorted(setf), h.loc(h.raw["span"]))
    except Exception as e:
        if e.__class__.__name__ != "AnchorMissing":
            raise
    ctx.floor("C12.R4", 8)
    uwe = prog.find_fns({"name": "update_withdrawn_equity", "crate": "marginfi", "self_adt": "MarginfiGroup"})
    if len(uwe) != 1:
        ctx.missing("C12.R4", "update_withdrawn_equity")
        return
    uwe = uwe[0]
    for ixn in ["lending_account_withdraw", "kamino_withdraw", "drift_withdraw", "solend_withdraw"]:
        try:
            h = ctx.handler("C12.R4", ixn)
        except Exception:
            continue
        edges = [(sw, tgt) for (sw, tgt, truth) in flag_edges(ctx, h, "ACCOUNT_IN_DELEVERAGE") if truth is True]
        calls = [c for c in h.calls() if c.key == uwe.key]
        probs = []
        if len(edges) != 1:
            probs.append("no single ACCOUNT_IN_DELEVERAGE branch (%d)" % len(edges))
        if not calls:
            probs.append("window update not called")
        if not probs:
            sw, tgt = edges[0]
            # every successful path that takes the deleverage edge passes the update
            ok, w = A.can_succeed_avoiding(h, [c.block for c in calls], start=tgt)
            if ok:
                probs.append("success path over the deleverage edge skipping the window update")
            for c in calls:
                if not A.consumed(h, c.block)[0]:
                    probs.append("window update result dropped")
                pv = ctx.slicer.operand(h, c.args[1], at=c.block)
                if not pv.has_call(prog, {"name": "fetch_asset_price_for_bank_low_bias"}):
                    probs.append("withdrawn equity is not priced with the low-bias price")
                if not pv.has_call(prog, {"name": "calc_value"}):
                    probs.append("withdrawn equity not computed by calc_value")
                tv = ctx.slicer.operand(h, c.args[2], at=c.block)
                if not any(n == "unix_timestamp" for (_, n) in tv.fields):
                    probs.append("timestamp argument not from the clock")
            # the update precedes the token transfer
            trb = [c.block for c in h.calls() if c.key in transfer_reach]
        ctx.inst("C12.R4", "deleverage-window/" + ixn, not probs, "ACCOUNT_IN_DELEVERAGE edge must pass the checked daily-window update fed by the low-bias price",
                 "; ".join(probs) or "ok", calls[0].loc if calls else h.loc(h.raw["span"]))
    # window routine shape
    ev = A.error_variant_blocks(uwe, "DailyWithdrawalLimitExceeded")
    if not ev:
        ctx.inst("C12.R4", "window/limit-atom", False, "DailyWithdrawalLimitExceeded constructed in the window routine", "absent", uwe.loc(uwe.raw["span"]))
    else:
        atoms = A.guard_atoms(prog, uwe, ev, ctx.slicer)
        conds = A.edge_conditions_to(prog, uwe, ev[0], ctx.slicer)
        allat = atoms + conds
        lim = [a for a in allat if a.kind == "cmp" and a.rel == "lt" and a.lhs.has_field(WWC, "daily_limit") and a.rhs.has_field(WWC, "withdrawn_today")]
        nz = [a for a in allat if a.kind == "cmp" and a.rel == "ne" and ((a.lhs.has_field(WWC, "daily_limit") and 0 in a.rhs.ints) or (a.rhs.has_field(WWC, "daily_limit") and 0 in a.lhs.ints))]
        ctx.inst("C12.R4", "window/limit-atom", bool(lim), "error_if(withdrawn_today > daily_limit)", [a.describe() for a in allat][:6] if not lim else "ok", uwe.bloc(ev[0]))
        ctx.inst("C12.R4", "window/limit-nonzero", bool(nz), "limit enforced whenever daily_limit != 0", [a.describe() for a in allat][:6] if not nz else "ok", uwe.bloc(ev[0]))
    # reset wiring: on the reset edge withdrawn_today := 0 and last_daily_reset_timestamp := now
    rs = field_stores(ctx, uwe, WWC, "last_daily_reset_timestamp")
    if not rs:
        ctx.missing("C12.R4", "reset store to last_daily_reset_timestamp")
    for bi, s, pv in rs:
        wiring(ctx, "C12.R4", "window/reset-timestamp", pv, must=[("param", 3)], must_not=[("field", WWC, "last_daily_reset_timestamp"), ("const", "DAILY_RESET_INTERVAL")], loc=uwe.bloc(bi), what="last_daily_reset_timestamp")
        conds = A.edge_conditions_to(prog, uwe, bi, ctx.slicer)
        g = [a for a in conds if a.kind == "cmp" and a.rel == "le" and a.lhs.has_const("DAILY_RESET_INTERVAL") and 3 in a.rhs.params and a.rhs.has_field(WWC, "last_daily_reset_timestamp")]
        ctx.inst("C12.R4", "window/reset-atom", bool(g), "reset only when now - last_daily_reset_timestamp >= DAILY_RESET_INTERVAL", [a.describe() for a in conds][:4] if not g else "ok", uwe.bloc(bi))
    wt = field_stores(ctx, uwe, WWC, "withdrawn_today")
    zero = [x for x in wt if 0 in x[2].ints and not x[2].params and not x[2].fields]
    acc = [x for x in wt if x[2].has_field(WWC, "withdrawn_today") and 2 in x[2].params]
    ctx.inst("C12.R4", "window/reset-zero", bool(zero), "withdrawn_today := 0 on reset", "stores: %s" % [A._pvs(x[2]) for x in wt] if not zero else "ok", uwe.loc(uwe.raw["span"]))
    ctx.inst("C12.R4", "window/accumulate", bool(acc) and all(x[2].has_call(prog, {"name": "saturating_add"}) or x[2].has_call(prog, {"name": "checked_add"}) for x in acc),
             "withdrawn_today := withdrawn_today (+) withdrawn_equity", "stores: %s" % [A._pvs(x[2]) for x in wt] if not acc else "ok", uwe.loc(uwe.raw["span"]))
    # accumulate happens on every successful path (the update cannot be skipped)
    if acc:
        ok, w = A.must_pass(uwe, [x[0] for x in acc])
        ctx.inst("C12.R4", "window/accumulate-always", ok, "every successful window update accumulates the withdrawn equity", "path %s" % w if not ok else "ok", uwe.loc(uwe.raw["span"]))


_run_pre_leaves = run


def run(ctx):
    from .kernels import check_leaves
    try:
        _run_pre_leaves(ctx)
    finally:
        # leaf helpers this property's rules treat by name, pinned as complete path tables
        check_leaves(ctx, "C12.K", ['bank.get_flag', 'bank.update_flag'])


_run_pre_sunset = run


def run(ctx):
    try:
        _run_pre_sunset(ctx)
    finally:
        _sunset_flags(ctx)


def _sunset_flags(ctx):
    """C12.R5: the risk admin's sunset powers exist only on banks the group admin opted in.  Every `update_flag(true,
    TOKENLESS_REPAYMENTS_COMPLETE)` in the program is reachable only over the true edge of `get_flag(TOKENLESS_REPAYMENTS_ALLOWED)` of
    the same bank; TOKENLESS_REPAYMENTS_ALLOWED itself is set only by Bank::configure (group admin, not on frozen banks: R3); the purge
    instruction requires the COMPLETE flag."""
    prog = ctx.prog
    uf = prog.find_fns({"name": "update_flag", "key_re": r"state::bank::\{impl#\d+\}::update_flag$"})
    if len(uf) != 1:
        ctx.missing("C12.R5", "Bank::update_flag")
        return
    uf = uf[0]
    n = 0
    setters_allowed = []
    for k, f in sorted(prog.fns.items()):
        if f.info["crate"] != "marginfi":
            continue
        for c in f.calls():
            if c.key != uf.key or len(c.args) < 3:
                continue
            fl = ctx.slicer.operand(f, c.args[2], at=c.block)
            if fl.has_const("TOKENLESS_REPAYMENTS_ALLOWED"):
                setters_allowed.append(f.key)
            if not fl.has_const("TOKENLESS_REPAYMENTS_COMPLETE"):
                continue
            n += 1
            edges = [(sw, tgt) for (sw, tgt, truth) in flag_edges(ctx, f, "TOKENLESS_REPAYMENTS_ALLOWED") if truth is True]
            ok = False
            why = "no get_flag(TOKENLESS_REPAYMENTS_ALLOWED) branch"
            for e in edges:
                if c.block in blocks_only_via(f, e):
                    ok = True
            if edges and not ok:
                why = "the flag update is reachable without passing the ALLOWED edge"
            val = ctx.slicer.operand(f, c.args[1], at=c.block)
            ctx.inst("C12.R5", "complete-only-when-allowed/" + f.name, ok, "%s: TOKENLESS_REPAYMENTS_COMPLETE is set only on a bank whose TOKENLESS_REPAYMENTS_ALLOWED flag is set (the group admin's opt-in)" % f.name,
                     "ok" if ok else why, c.loc)
    ctx.floor("C12.R5", 2)
    ok = bool(setters_allowed) and all(re.search(r"state::bank::\{impl#\d+\}::configure$", k) for k in setters_allowed)
    ctx.inst("C12.R5", "allowed-set-only-by-configure", ok, "TOKENLESS_REPAYMENTS_ALLOWED is passed to update_flag only by Bank::configure (group admin, unfrozen banks)", sorted(set(setters_allowed)), None)
    ix = ctx.am.ix("purge_deleverage_balance")
    if ix is None or ix["struct"] is None:
        ctx.missing("C12.R5", "purge_deleverage_balance")
        return
    bf = ix["struct"].field("bank")
    preds = [c.expr.replace(" ", "") for c in (bf.cons if bf else []) if c.kind == "pred"]
    ctx.inst("C12.R5", "purge-requires-complete", "bank.load()?.get_flag(TOKENLESS_REPAYMENTS_COMPLETE)" in preds, "purging a deposit requires the bank's TOKENLESS_REPAYMENTS_COMPLETE flag", preds, "%s:%s" % (ix["struct"].file, bf.line if bf else "?"))
