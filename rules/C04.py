"""C04 Risk gate (structural clauses only)."""
import re
from engine import analysis as A, fde
from engine.model import op_place
from .common import *

INFO = {
    "explanation": "Decided statically: (R1) borrow, withdraw and the three venue withdraws run the initial-health gate after "
                   "their last share mutation on every successful path (withdraw family: except over the in-receivership edge) "
                   "and check its result; (R2) the gate evaluates the Initial requirement; exhaustive tables of the requirement -> "
                   "weight-type, requirement -> oracle-price-type and (requirement, side) -> config-weight-field maps; (R3) collateral "
                   "is priced with PriceBias::Low and debt with PriceBias::High at the bank's max confidence, and the Low arm subtracts / "
                   "High arm adds the confidence in every price adapter; (R4) the rejection guard is error_if(assets < liabilities) over the "
                   "asset / liability components of one health computation, followed by the checked isolated-tier test; (R5) the e-mode "
                   "configuration is reconciled over exactly the balances with non-empty liabilities, and the collateral weight table "
                   "(requirement x e-mode entry present) is max(bank weight, e-mode weight) with Equity = 1; (R6) the collateral-cap discount "
                   "is consulted only for the Initial requirement. Not decided: the numeric health recomputation and the accept/reject converse.",
    "assumptions": ["oracle adapters' numeric correctness (C09/C20)", "flash-loan skip inside the gate is covered by C11"],
}
RISK = "marginfi::state::marginfi_account::RiskEngine"


def _run(ctx):
    prog = ctx.prog
    gate = prog.find_fns({"name": "check_account_init_health", "crate": "marginfi"})
    if len(gate) != 1:
        ctx.missing("C04.R1", "initial-health gate check_account_init_health")
        return
    gate = gate[0]
    # ---------------------------------------------------------------- R1
    ctx.floor("C04.R1", 5)
    for ixn, recv_exempt in [("lending_account_borrow", False), ("lending_account_withdraw", True), ("kamino_withdraw", True),
                             ("drift_withdraw", True), ("solend_withdraw", True)]:
        try:
            h = ctx.handler("C04.R1", ixn)
        except Exception:
            continue
        gcalls = [c for c in h.calls() if c.key == gate.key]
        muts = A.write_blocks(prog, h, is_share_write)
        probs = []
        if not gcalls:
            probs.append("gate not called")
        if not muts:
            probs.append("no share mutation found (anchor)")
        if not probs:
            gb = [c.block for c in gcalls]
            rem_edges = set()
            if recv_exempt:
                for (sw, tgt, truth) in flag_edges(ctx, h, "ACCOUNT_IN_RECEIVERSHIP"):
                    if truth is True:
                        rem_edges.add((sw, tgt))
            errb = A.error_blocks(h)
            for m in muts:
                # from the mutation, can a Return be reached on the success CFG avoiding the gate (and the receivership edge)?
                bad = False
                for s in h.succ()[m]:
                    r = A.reach_without(h, removed_blocks=set(gb) | errb, removed_edges=rem_edges, start=s)
                    if any(h.blocks[b]["t"]["k"] == "return" for b in r):
                        bad = True
                if bad:
                    probs.append("a successful path from the share mutation at %s reaches the end without the gate" % h.bloc(m))
                    break
            for c in gcalls:
                ok, why = A.consumed(h, c.block, path=(0,))
                if not ok:
                    probs.append("gate result (first tuple component) not checked")
                # result component .0 must reach `?`
                pv = ctx.slicer.operand(h, c.args[0], at=c.block)
                if not pv.has_field(ctx.ix("C04.R1", ixn)["struct"].key, "marginfi_account"):
                    probs.append("gate evaluated on something other than the instruction's marginfi_account")
        ctx.inst("C04.R1", "gate/" + ixn, not probs, "init-health gate follows the last share mutation on every successful path%s and its result is checked" %
                 (" not taken over the in-receivership edge" if recv_exempt else ""), "; ".join(probs) or "ok", gcalls[0].loc if gcalls else h.loc(h.raw["span"]))
    # the gate's MarginfiResult component is really `?`-ed: the tuple field 0 flows to Try::branch
    # (consumed() above follows tuple fields)

    # ---------------------------------------------------------------- R2
    cah = [c for c in gate.calls() if c.callee and c.callee["name"] == "check_account_health"]
    if not cah:
        ctx.missing("C04.R2", "call to check_account_health in the gate")
    for c in cah:
        vs, _ = variant_arg(ctx, gate, c, 1, "RiskRequirementType")
        ctx.inst("C04.R2", "gate-requirement", vs == {"Initial"}, "the gate evaluates RiskRequirementType::Initial", "variants %s" % sorted(vs), c.loc)
    it = fde.Interp(prog)
    # to_weight_type
    tw = prog.find_fns({"name": "to_weight_type", "crate": "marginfi"})
    gopt = prog.find_fns({"name": "get_oracle_price_type", "crate": "marginfi"})
    gw = prog.find_fns({"name": "get_weight", "crate": "marginfi", "self_adt": "BankConfig"})
    if len(tw) != 1 or len(gopt) != 1 or len(gw) != 1:
        ctx.missing("C04.R2", "to_weight_type / get_oracle_price_type / BankConfig::get_weight")
    else:
        RRT = "state::marginfi_account::RiskRequirementType"
        RT = "state::marginfi_account::RequirementType"
        tbl = {}
        for v in it.variants(RRT):
            outs = it.run(tw[0], [fde.Ref(fde.Cell(it.enum_value(RRT, v)))])
            ks = sorted({fde.result_kind(it, o) for o in outs})
            tbl[v] = [list(k) for k in ks]
            ctx.inst("C04.R2", "to_weight_type[%s]" % v, ks == [("variant", v)], "RiskRequirementType::%s -> RequirementType::%s" % (v, v), str(ks), tw[0].loc(tw[0].raw["span"]))
        ctx.tables["to_weight_type"] = tbl
        tbl = {}
        expo = {"Initial": "TimeWeighted", "Equity": "TimeWeighted", "Maintenance": "RealTime"}
        for v in it.variants(RT):
            outs = it.run(gopt[0], [fde.Ref(fde.Cell(it.enum_value(RT, v)))])
            ks = sorted({fde.result_kind(it, o) for o in outs})
            tbl[v] = [list(k) for k in ks]
            ctx.inst("C04.R2", "oracle_price_type[%s]" % v, ks == [("variant", expo[v])], "%s requirement is priced %s" % (v, expo[v]), str(ks), gopt[0].loc(gopt[0].raw["span"]))
        ctx.tables["oracle_price_type"] = tbl
        # get_weight: sentinel ints in the four weight fields
        cfg_adt = prog.adts[BANKCFG]
        fidx = {fd["name"]: i for i, fd in enumerate(cfg_adt["variants"][0]["fields"])}
        sent = {"asset_weight_init": 11, "asset_weight_maint": 12, "liability_weight_init": 21, "liability_weight_maint": 22}
        one = prog.consts.get("fixed::{impl#112}::ONE")
        tbl = {}
        ctx.floor("C04.R2", 13)
        for rq in it.variants(RT):
            for side in ("Assets", "Liabilities"):
                cfg = fde.Adt(BANKCFG, 0, {fidx[k]: fde.Cell(fde.Int(v)) for k, v in sent.items()})
                outs = it.run(gw[0], [fde.Ref(fde.Cell(cfg)), it.enum_value(RT, rq), it.enum_value("BalanceSide", side)])
                ks = sorted({fde.result_kind(it, o) for o in outs})
                if rq == "Equity":
                    exp_ok = len(ks) == 1 and ks[0][0] == "val" and ks[0][1] not in sent.values()
                    expd = "constant ONE"
                else:
                    want = sent[("asset" if side == "Assets" else "liability") + "_weight_" + ("init" if rq == "Initial" else "maint")]
                    exp_ok = ks == [("val", want)]
                    expd = ("asset" if side == "Assets" else "liability") + "_weight_" + ("init" if rq == "Initial" else "maint")
                tbl["%s/%s" % (rq, side)] = [list(k) for k in ks]
                ctx.inst("C04.R2", "get_weight[%s,%s]" % (rq, side), exp_ok, "get_weight(%s,%s) reads %s" % (rq, side, expd), str(ks), gw[0].loc(gw[0].raw["span"]))
        ctx.tables["get_weight(sentinels ai=11 am=12 li=21 lm=22)"] = tbl

    # ---------------------------------------------------------------- R3 bias wiring
    for fname, bias in (("calc_weighted_asset_value", "Low"), ("calc_weighted_liab_value", "High")):
        try:
            f = ctx.fn("C04.R3", {"name": fname, "crate": "marginfi"})
        except Exception:
            continue
        pc = [c for c in f.calls() if c.callee and c.callee["name"] == "get_price_of_type"]
        if not pc:
            ctx.inst("C04.R3", "bias/" + fname, False, "valuation prices through get_price_of_type", "no call", f.loc(f.raw["span"]))
        for c in pc:
            vs, pv = variant_arg(ctx, f, c, 2, "PriceBias")
            conf = ctx.slicer.operand(f, c.args[3], at=c.block)
            pt = ctx.slicer.operand(f, c.args[1], at=c.block)
            ok = vs == {bias} and ("core::option::Option", "Some") in pv.variants and ("core::option::Option", "None") not in pv.variants
            ok2 = conf.has_field(BANKCFG, "oracle_max_confidence")
            dc = defining_call(f, c.args[1])
            ok3 = False
            if dc is not None:
                dci = f.dinfo(dc[1]["res"] if dc[1].get("res") is not None else dc[1]["raw"])
                ok3 = dci["name"] == "get_oracle_price_type" and 2 in ctx.slicer.operand(f, dc[1]["args"][0], at=dc[0]).params
            ctx.inst("C04.R3", "bias/" + fname, ok and ok2 and ok3, "%s prices with Some(PriceBias::%s), the bank's oracle_max_confidence and the requirement's price type" % (fname, bias),
                     "bias=%s conf-from-config=%s type-from-requirement=%s" % (sorted(vs), ok2, ok3), c.loc)
        # the amount valued is the matching side's shares through the matching converter
        cv = [c for c in f.calls() if c.callee and c.callee["name"] == "calc_value"]
        for c in cv:
            pv = ctx.slicer.operand(f, c.args[0], at=c.block)
            side = "asset" if bias == "Low" else "liability"
            other = "liability" if bias == "Low" else "asset"
            ok = pv.has_field(BALANCE, side + "_shares") and not pv.has_field(BALANCE, other + "_shares") and pv.has_call(prog, {"name": "get_%s_amount" % side})
            pr = ctx.slicer.operand(f, c.args[1], at=c.block)
            okp = pr.has_call(prog, {"name": "get_price_of_type"})
            wv = ctx.slicer.operand(f, c.args[3], at=c.block)
            okw = wv.has_call(prog, {"name": "get_weight"}) and ("core::option::Option", "Some") in wv.variants
            ctx.inst("C04.R3", "valued-amount/" + fname, ok and okp and okw, "value = calc_value(get_%s_amount(balance.%s_shares), biased price, decimals, Some(weight))" % (side, side),
                     "amount=%s price-ok=%s weight-ok=%s" % (A._pvs(pv), okp, okw), c.loc)
    # bias arms in every adapter
    adapters = [f for f in prog.find_fns({"name": "get_price_of_type", "crate": "marginfi"}) if f.info.get("trait", "").endswith("PriceAdapter")]
    ctx.floor("C04.R3", 4 + 2 * 2)
    for f in adapters:
        who = f.info.get("self_adt", "?").split("::")[-1]
        if who == "OraclePriceFeedAdapter":
            continue     # enum_dispatch forwarder
        for bias, must, mustnot in (("Low", "checked_sub", "checked_add"), ("High", "checked_add", "checked_sub")):
            it2 = fde.Interp(prog, max_depth=0, max_forks=200)
            b = fde.Adt("core::option::Option", 1, {0: fde.Cell(it2.enum_value("state::price::PriceBias", bias))})
            outs = it2.run(f, [fde.TOP, fde.TOP, b, fde.TOP][:f.argc])
            okret = [o for o in outs if o.kind == "return" and o.value[0] == "adt" and o.value[2] == 0]
            if who == "FixedPriceFeed":
                ok = all(must not in o.calls and mustnot not in o.calls for o in okret) and bool(okret)
                ctx.inst("C04.R3", "bias-arm/%s/%s" % (who, bias), ok, "fixed price has no confidence: no adjustment", "paths=%d" % len(okret), f.loc(f.raw["span"]))
                continue
            ok = bool(okret) and all((must in o.calls) and (mustnot not in o.calls) and ("get_confidence_interval" in o.calls) for o in okret)
            ctx.inst("C04.R3", "bias-arm/%s/%s" % (who, bias), ok, "PriceBias::%s: price.%s(confidence interval)" % (bias, must),
                     "ok-paths=%d calls=%s" % (len(okret), sorted(set().union(*[set(o.calls) for o in okret]) if okret else [])), f.loc(f.raw["span"]))

    # ---------------------------------------------------------------- R4 decision guard
    try:
        ch = ctx.fn("C04.R4", {"name": "check_account_health", "crate": "marginfi"})
    except Exception:
        ch = None
    if ch is not None:
        ev = A.error_variant_blocks(ch, "RiskEngineInitRejected")
        if not ev:
            ctx.inst("C04.R4", "reject-atom", False, "RiskEngineInitRejected constructed in check_account_health", "absent", ch.loc(ch.raw["span"]))
        else:
            atoms = A.guard_atoms(prog, ch, ev, ctx.slicer)
            aspec = {"name": "calc_weighted_asset_value"}
            lspec = {"name": "calc_weighted_liab_value"}
            good = [a for a in atoms if a.kind == "cmp" and a.rel == "lt" and a.lhs.has_call(prog, aspec) and not a.lhs.has_call(prog, lspec)
                    and a.rhs.has_call(prog, lspec) and not a.rhs.has_call(prog, aspec)]
            ctx.inst("C04.R4", "reject-atom", len(atoms) == 1 and len(good) == 1, "error_if(total weighted assets < total weighted liabilities) is the only guard of RiskEngineInitRejected",
                     [a.describe() for a in atoms], ch.bloc(ev[0]))
            # both components from one call with the function's requirement parameter
            ghc = [c for c in ch.calls() if c.callee and c.callee["name"] == "get_account_health_components"]
            ctx.inst("C04.R4", "components-call", len(ghc) == 1 and 2 in ctx.slicer.operand(ch, ghc[0].args[1], at=ghc[0].block).params if ghc else False,
                     "one health-components computation with the requested requirement type", "%d calls" % len(ghc), ghc[0].loc if ghc else None)
        rt = [c for c in ch.calls() if c.callee and c.callee["name"] == "check_account_risk_tiers"]
        if rt:
            ok, w = A.must_pass(ch, [c.block for c in rt])
            ok = ok and all(A.consumed(ch, c.block)[0] for c in rt)
        else:
            # the tier test written in place: every healthy outcome passes the guard that can raise IsolatedAccountIllegalState
            ev_ = A.error_variant_blocks(ch, "IsolatedAccountIllegalState")
            at_ = A.guard_atoms(prog, ch, ev_, ctx.slicer) if ev_ else []
            gsw = {a.switch[0] for a in at_}
            # `check!(a || b)`: the earlier operands of a short-circuit chain are part of the same test.  A switch whose one edge runs
            # straight into a test switch and whose own condition, like the test's, depends on nothing but the counters of the tier scan
            # (no parameter, field or call in its provenance) belongs to it.
            grew = bool(gsw)
            while grew:
                grew = False
                for bi, bb in enumerate(ch.blocks):
                    t = bb["t"]
                    if t["k"] != "switch" or bi in gsw:
                        continue
                    for tgt in [b for _, b in t["arms"]] + [t["else"]]:
                        x, hops = tgt, 0
                        while x not in gsw and hops < 6 and ch.blocks[x]["t"]["k"] == "goto":
                            x, hops = ch.blocks[x]["t"]["to"], hops + 1
                        if x in gsw:
                            arm0 = int(t["arms"][0][0]) if t["arms"] else "else"
                            at = A.atom_of_edge(prog, ch, bi, arm0, ctx.slicer)
                            pure = at.kind == "cmp" and all(not pv.params and not pv.fields and not pv.calls for pv in (at.lhs, at.rhs))
                            if pure:
                                gsw.add(bi)
                                grew = True
                            break
            ok, w = A.must_pass(ch, sorted(gsw)) if gsw else (False, None)
            if not ok:
                # the function as a whole is the reviewed check_account_health with the tier test spliced in (equal modulo helper boundaries)
                from .kernels import same_modulo_helper_boundaries
                if same_modulo_helper_boundaries(prog, ch, "S|marginfi|RiskEngine|check_account_health|marginfi::state::marginfi_account"):
                    ok = True
        ctx.inst("C04.R4", "risk-tier-check", ok, "every healthy outcome passes the checked isolated-tier test",
                 "path avoiding it: %s" % w if not ok else "ok", rt[0].loc if rt else ch.loc(ch.raw["span"]))
    try:
        crts = prog.find_fns({"name": "check_account_risk_tiers", "crate": "marginfi"})
        if len(crts) == 1:
            crt = crts[0]
        else:
            chs = [g for g in prog.find_fns({"name": "check_account_health", "crate": "marginfi"}) if A.error_variant_blocks(g, "IsolatedAccountIllegalState")]
            crt = chs[0] if len(chs) == 1 else ctx.fn("C04.R4", {"name": "check_account_risk_tiers", "crate": "marginfi"})
        ev = A.error_variant_blocks(crt, "IsolatedAccountIllegalState")
        atoms = A.guard_atoms(prog, crt, ev, ctx.slicer) if ev else []
        conds = A.edge_conditions_to(prog, crt, ev[0], ctx.slicer) if ev else []
        al = atoms + conds
        a1 = [a for a in al if a.kind == "cmp" and a.rel in ("ne", "eq") and (0 in a.lhs.ints or 0 in a.rhs.ints)]
        a2 = [a for a in al if a.kind == "cmp" and a.rel in ("ne", "eq") and (1 in a.lhs.ints or 1 in a.rhs.ints)]
        ctx.inst("C04.R4", "isolated-atom", bool(a1) and bool(a2), "IsolatedAccountIllegalState = error_if(isolated_count != 0 && liability_balances != 1)",
                 [a.describe() for a in al][:6], crt.bloc(ev[0]) if ev else None)
        # counters only count balances with non-empty liabilities
        iso = [c for c in crt.calls() if c.callee and c.callee["name"] == "is_empty"]
        okside = False
        for c in iso:
            vs, _ = variant_arg(ctx, crt, c, 1, "BalanceSide")
            okside = okside or vs == {"Liabilities"}
        ctx.inst("C04.R4", "isolated-counts-liabilities", okside, "the tier test skips balances whose *liability* side is empty", "", crt.loc(crt.raw["span"]))
    except Exception as e:
        if e.__class__.__name__ != "AnchorMissing":
            raise

    # ---------------------------------------------------------------- R5 e-mode
    try:
        ctor = ctx.fn("C04.R5", {"name": "new_no_flashloan_check", "crate": "marginfi"})
    except Exception:
        ctor = None
    if ctor is not None:
        rc = [c for c in ctor.calls() if c.callee and c.callee["name"] == "reconcile_emode_configs"]
        if not rc:
            ctx.inst("C04.R5", "reconcile/input", False, "engine construction reconciles e-mode configs", "no call", ctor.loc(ctor.raw["span"]))
        for c in rc:
            pv = ctx.slicer.operand(ctor, c.args[0], at=c.block)
            closures = [prog.fns[k] for k in pv.calls if k in prog.fns and prog.fns[k].info["kind"] == "Closure" and prog.fns[k].info.get("closure_of") == ctor.key]
            # classify adaptor closures by what they return
            filt, maps, other = [], [], []
            for cl in closures:
                rty = cl.local_ty(0)["s"]
                if rty == "bool":
                    filt.append(cl)
                elif "EmodeConfig" in rty:
                    maps.append(cl)
                else:
                    other.append(cl)
            probs = []
            if len(filt) != 1:
                probs.append("%d filter predicates over the balances (expected exactly the non-empty-liabilities one)" % len(filt))
            for cl in filt:
                cpv = ctx.slicer.local(cl, 0)
                ise = [cc for cc in cl.calls() if cc.callee and cc.callee["name"] == "is_empty"]
                sides = set()
                for cc in ise:
                    vs, _ = variant_arg(ctx, cl, cc, 1, "BalanceSide")
                    sides |= vs
                if sides != {"Liabilities"} or "Not" not in cpv.ops:
                    probs.append("filter is not `!balance.is_empty(Liabilities)` (sides=%s ops=%s)" % (sorted(sides), sorted(cpv.ops)))
                extra = [k for k in cpv.calls if k.split("::")[-1] not in ("is_empty", "deref") and "is_empty" not in k]
                if any(k.split("::")[-1] in ("is_enabled", "get_flag", "load") for k in extra):
                    probs.append("filter also depends on %s" % sorted(k.split("::")[-1] for k in extra))
            if len(maps) != 1:
                probs.append("%d mapping closures producing EmodeConfig (expected 1)" % len(maps))
            for cl in maps:
                cpv = ctx.slicer.local(cl, 0)
                if not cpv.has_field("EmodeSettings", "emode_config") or not cpv.has_field(BANK, "emode"):
                    probs.append("mapped value is not bank.emode.emode_config")
            if not pv.has_field(RISK, "bank_accounts_with_price") and not pv.has_call(prog, {"name": "load", "self_adt": "BankAccountWithPriceFeed"}):
                probs.append("input does not derive from the loaded balances")
            ctx.inst("C04.R5", "reconcile/input", not probs, "reconcile_emode_configs receives bank.emode.emode_config of exactly the balances with non-empty liabilities",
                     "; ".join(probs) or "ok", c.loc)
        # stored into the engine
        for bi, pv in agg_fields(ctx, ctor, "RiskEngine", "emode_config"):
            wiring(ctx, "C04.R5", "reconcile/stored", pv, must=[("call", {"name": "reconcile_emode_configs"})], loc=ctor.bloc(bi), what="RiskEngine.emode_config")
    # reconcile keeps the least favourable weights and only tags present in every config
    try:
        rec = ctx.fn("C04.R5", lambda d: d["name"] == "reconcile_emode_configs" and d["crate"] == "marginfi_type_crate")
    except Exception:
        rec = None
    if rec is not None:
        cls = [f for f in prog.fns.values() if f.info.get("closure_of") == rec.key]
        EE = "marginfi_type_crate::types::emode::EmodeEntry"
        n = 0
        for cl in cls:
            for fld in ("asset_weight_init", "asset_weight_maint"):
                for bi, s, pv in field_stores(ctx, cl, EE, fld):
                    n += 1
                    conds = A.edge_conditions_to(prog, cl, bi, ctx.slicer)
                    g = [a for a in conds if a.kind == "cmp" and a.rel == "lt" and a.lhs.has_field(EE, fld) and a.rhs.has_field(EE, fld)]
                    ctx.inst("C04.R5", "reconcile/min-%s" % fld, bool(g) and pv.has_field(EE, fld), "merged %s is lowered only when the new entry's is strictly smaller" % fld,
                             [a.describe() for a in conds][:4] if not g else "ok", cl.bloc(bi))
        if n < 2:
            ctx.missing("C04.R5", "merge stores of asset_weight_init/maint in reconcile_emode_configs")
        # intersection: entry kept iff cnt == num_configs
        okint = False
        for bi, bb in enumerate(rec.blocks):
            t = bb["t"]
            if t["k"] == "switch":
                for arm in [int(a) for a, _ in t["arms"]] + ["else"]:
                    at = A.atom_of_edge(prog, rec, bi, arm, ctx.slicer)
                    if at.kind == "cmp" and at.rel in ("eq", "ne") and any(o.startswith("Add") for o in (at.lhs.ops | at.rhs.ops)):
                        okint = True
        ctx.inst("C04.R5", "reconcile/intersection", okint, "an entry survives only when its count equals the number of configs", "", rec.loc(rec.raw["span"]))

    # weight table via constant propagation with stubs (requirement x e-mode entry present)
    try:
        cw = ctx.fn("C04.R5", {"name": "calc_weighted_asset_value", "crate": "marginfi"})
    except Exception:
        cw = None
    if cw is not None:
        _weight_table(ctx, cw)


def _weight_table(ctx, cw):
    prog = ctx.prog
    bank_adt = prog.adts[BANK]
    cfg_idx = field_idx(prog, BANK, "config")
    cfg_adt = prog.adts[BANKCFG]
    fidx = {fd["name"]: i for i, fd in enumerate(cfg_adt["variants"][0]["fields"])}
    EE = "marginfi_type_crate::types::emode::EmodeEntry"
    eidx = {fd["name"]: i for i, fd in enumerate(prog.adts[EE]["variants"][0]["fields"])}
    RT = "state::marginfi_account::RequirementType"
    table = {}
    ctx.floor("C04.R5", 6 + 3)
    ctx.floor("C04.R6", 3)
    for rq in ("Initial", "Maintenance", "Equity"):
        for emode in (True, False):
            seen = {"max": [], "weight": [], "discount": 0, "min": 0}

            def st_price_feed(i, a):
                return ("tuple", [fde.Cell(fde.Adt("core::result::Result", 0, {0: fde.Cell(fde.Ref(fde.Cell()))})), fde.Cell(fde.Int(0))])

            def st_find(i, a, emode=emode):
                if not emode:
                    return fde.Adt("core::option::Option", 0, {})
                e = fde.Adt(EE, 0, {eidx["asset_weight_init"]: fde.Cell(fde.Int(101)), eidx["asset_weight_maint"]: fde.Cell(fde.Int(102))})
                return fde.Adt("core::option::Option", 1, {0: fde.Cell(fde.Ref(fde.Cell(e)))})

            def st_max(i, a):
                seen["max"].append(tuple(x[1] if fde.is_int(x) else None for x in a))
                if all(fde.is_int(x) for x in a):
                    return fde.Int(max(x[1] for x in a))
                return fde.TOP

            def st_min(i, a):
                seen["min"] += 1
                if all(fde.is_int(x) for x in a):
                    return fde.Int(min(x[1] for x in a))
                return fde.TOP

            def st_discount(i, a):
                seen["discount"] += 1
                return fde.Adt("core::result::Result", 0, {0: fde.Cell(fde.Adt("core::option::Option", 0, {}))})

            def st_calc_value(i, a):
                w = a[3] if len(a) > 3 else fde.TOP
                if w[0] == "adt" and w[2] == 1 and 0 in w[3] and fde.is_int(w[3][0].v):
                    seen["weight"].append(w[3][0].v[1])
                else:
                    seen["weight"].append(None)
                return fde.Adt("core::result::Result", 0, {0: fde.Cell(fde.Int(0))})

            def st_ok_top(i, a):
                return fde.Adt("core::result::Result", 0, {0: fde.Cell(fde.TOP)})

            stubs = {"try_get_price_feed": st_price_feed, "find_with_tag": st_find, "max": st_max, "min": st_min,
                     "maybe_get_asset_weight_init_discount": st_discount, "calc_value": st_calc_value,
                     "get_price_of_type": st_ok_top, "get_asset_amount": st_ok_top, "get_balance_decimals": lambda i, a: fde.Int(6)}
            it = fde.Interp(prog, stubs=stubs, max_depth=2)
            cfg = fde.Adt(BANKCFG, 0, {fidx["operational_state"]: fde.Cell(it.enum_value("BankOperationalState", "Operational")),
                                       fidx["risk_tier"]: fde.Cell(it.enum_value("RiskTier", "Collateral")),
                                       fidx["asset_weight_init"]: fde.Cell(fde.Int(11)), fidx["asset_weight_maint"]: fde.Cell(fde.Int(12)),
                                       fidx["liability_weight_init"]: fde.Cell(fde.Int(21)), fidx["liability_weight_maint"]: fde.Cell(fde.Int(22))})
            bank = fde.Adt(BANK, 0, {cfg_idx: fde.Cell(cfg)})
            selfv = fde.Adt(None, None, {})
            outs = it.run(cw, [fde.Ref(fde.Cell(selfv)), it.enum_value(RT, rq), fde.Ref(fde.Cell(bank)), fde.Ref(fde.Cell(fde.Adt(None, None, {})))][:cw.argc])
            ws = sorted(set(seen["weight"]), key=lambda x: (x is None, x))
            key = "%s/%s" % (rq, "emode-entry" if emode else "no-entry")
            table[key] = {"weights": ws, "max_calls": seen["max"], "discount_consulted": seen["discount"], "paths": len(outs)}
            if rq == "Equity":
                exp_ok = len(ws) == 1 and ws[0] is not None and ws[0] not in (11, 12, 21, 22, 101, 102)
                expd = "ONE"
            else:
                b = 11 if rq == "Initial" else 12
                e = 101 if rq == "Initial" else 102
                want = max(b, e) if emode else b
                exp_ok = ws == [want]
                expd = "max(bank %d, emode %d)" % (b, e) if emode else "bank %d" % b
            ctx.inst("C04.R5", "asset-weight[%s]" % key, exp_ok and seen["min"] == 0, "collateral weight for %s = %s" % (key, expd), "weights handed to calc_value: %s, min-calls=%d" % (ws, seen["min"]), cw.loc(cw.raw["span"]))
            if emode:
                ctx.inst("C04.R6", "cap-discount[%s]" % rq, (seen["discount"] > 0) == (rq == "Initial"), "collateral-cap discount consulted only for Initial", "consulted %d times" % seen["discount"], cw.loc(cw.raw["span"]))
    ctx.tables["asset_weight_table(sentinels bank ai=11 am=12, emode ai=101 am=102)"] = table


def run(ctx):
    from .kernels import check_kernels
    try:
        _run(ctx)
    finally:
        # numeric kernels this property's formulas rest on, pinned as canonical expression trees
        check_kernels(ctx, "C04.K", ['calc_value', 'health-components', 'calc_weighted_value'])
        from .kernels import check_leaves
        check_leaves(ctx, "C04.K", ['emode.entry_is_empty', 'emode.has_entries', 'emode.find_with_tag'])


def _reconcile_content(ctx):
    """C04.R5 content of reconcile_emode_configs: every config handed in takes part in the intersection."""
    prog = ctx.prog
    fs = prog.find_fns({"name": "reconcile_emode_configs", "crate": "marginfi_type_crate"})
    if len(fs) != 1:
        ctx.missing("C04.R5", "reconcile_emode_configs")
        return
    f = fs[0]
    nexts = [expr_tree(prog, f, c.args[0]) for c in f.calls() if c.callee and c.callee["name"] == "next"]
    over_in = [t for t in nexts if re.search(r"(?<![\w.])p1(?![\w.])", t)]
    ctx.inst("C04.R5", "reconcile/iterates-every-config", bool(over_in) and all(t in ("into_iter(p1)", "into_iter(into_iter(p1))", "p1") for t in over_in),
             "the configs are consumed straight from the caller's iterator: no filter / skip / take adaptor drops a borrowed bank's (possibly empty) config", over_in, f.loc(f.raw["span"]))
    merges = [c for c in f.calls() if c.closure and prog.fns.get(c.closure) is not None and prog.fns[c.closure].info.get("closure_of") == f.key]
    margs = sorted(expr_tree(prog, f, c.args[1]) for c in merges if len(c.args) > 1)
    ctx.inst("C04.R5", "reconcile/merges-every-config", margs == ["tuple{next(into_iter(into_iter(p1)))}", "tuple{next(into_iter(p1))}"],
             "the merge step runs on the first and on every following config", margs, f.loc(f.raw["span"]))
    # the keep test: count of appearances == number of configs, the latter starting at 1 and incremented once per further config
    keep = []
    for bi, bb in enumerate(f.blocks):
        if bb["t"]["k"] == "switch":
            c = switch_cond(prog, f, bi, "else")
            m = re.fullmatch(r"eq\((.+),(.+)\)", c)
            if m:
                keep.append(sorted(split_call(c)[1]))
    okk = any(a == sorted([a[0], a[1]]) and "phi(1|add(1,loop))" in a and any(x.endswith(".1.1") or x.endswith(".1") for x in a) for a in keep)
    ctx.inst("C04.R5", "reconcile/keep-only-tags-in-every-config", okk, "an entry survives iff its appearance count equals the number of configs (1 + one per further config)", keep, f.loc(f.raw["span"]))
    # the increment happens once per loop iteration, in the loop over the remaining configs
    loop_next = [c.block for c in f.calls() if c.callee and c.callee["name"] == "next" and expr_tree(prog, f, c.args[0]) == "into_iter(into_iter(p1))"]
    incs = []
    for bi, bb in enumerate(f.blocks):
        for s in bb["s"]:
            v = s.get("v")
            if v and v["r"] == "bin" and v["op"] in ("AddWithOverflow", "Add") and rvalue_tree(prog, f, v) == "add(1,phi(1|add(1,loop)))":
                incs.append(bi)
    oki = len(incs) == 1 and len(loop_next) == 1 and any(c.startswith("discr(next(into_iter(into_iter(p1))))") for c in dominating_conds(prog, f, incs[0]))
    ctx.inst("C04.R5", "reconcile/config-count", oki, "num_configs is incremented exactly once for each config after the first", "increments at %s" % [f.bloc(b) for b in incs], f.loc(f.raw["span"]))
    # merge closure: only empty entries are skipped; merged weights are the minimum
    cl = [prog.fns[k] for k in sorted({c.closure for c in merges})]
    okm = False
    if len(cl) == 1:
        g = cl[0]
        sw = [switch_cond(prog, g, bi, "else") for bi, bb in enumerate(g.blocks) if bb["t"]["k"] == "switch"]
        skip = [c for c in sw if not c.startswith("discr(") and "notin" not in c]
        okm = skip == ["is_empty(next(into_iter(iter(p2.entries))))"]
        ins = [c for c in g.calls() if c.callee and c.callee["name"] == "or_insert"]
        okm = okm and len(ins) == 1 and expr_tree(prog, g, ins[0].args[1]) == "tuple{next(into_iter(iter(p2.entries))),1}"
        inner = [h for h in prog.fns.values() if re.fullmatch(re.escape(g.key) + r"::\{closure#\d+\}", h.key)]
        if len(inner) == 1:
            h = inner[0]
            conds = sorted(switch_cond(prog, h, bi, "else") for bi, bb in enumerate(h.blocks) if bb["t"]["k"] == "switch")
            okm = okm and len(conds) == 2 and all(re.fullmatch(r"lt\(p1\.0\.asset_weight_(init|maint),phi\(.*p2\.0\.asset_weight_\1\)\)", c) for c in conds)
        else:
            okm = False
    ctx.inst("C04.R5", "reconcile/merge-takes-minimum", okm, "only empty entries are skipped; a tag seen again keeps the smaller init and maint weight and its count grows by one", "", f.loc(f.raw["span"]))


_run_c04 = run


def run(ctx):
    try:
        _run_c04(ctx)
    finally:
        _reconcile_content(ctx)


_run_pre_scan = run


def run(ctx):
    try:
        _run_pre_scan(ctx)
    finally:
        for f in ctx.prog.find_fns({"name": "get_account_health_components", "crate": "marginfi", "self_adt": "RiskEngine"}):
            check_full_scan(ctx, "C04.R4", "full-scan/get_account_health_components", f, r"p1\.bank_accounts_with_price", "the health computation sums over every active balance of the account")


def _asset_weight_paths(ctx):
    """C04.R5/R6: the complete, path-sensitive table of the collateral weight handed to calc_value (requirement x e-mode entry x cap discount)."""
    prog = ctx.prog
    fs = prog.find_fns({"name": "calc_weighted_asset_value", "crate": "marginfi"})
    if len(fs) != 1:
        ctx.missing("C04.R5", "calc_weighted_asset_value")
        return
    f = fs[0]
    cvs = [c for c in f.calls() if c.callee and c.callee["name"] == "calc_value"]
    if len(cvs) != 1:
        ctx.missing("C04.R5", "single calc_value call in calc_weighted_asset_value")
        return
    cv = cvs[0]

    def short(c):
        c = c.replace("find_with_tag(p4,p3.emode.emode_tag)", "EM").replace("get_weight(p3.config,p2,BalanceSide::Assets{})", "BW")
        return re.sub(r"maybe_get_asset_weight_init_discount\(p3,get_price_of_type\(try_get_price_feed\(p1\)\.0,get_oracle_price_type\(p2\),(?:Option::Some\{)?PriceBias::Low\{\}\}?,p3\.config\.oracle_max_confidence\)\)", "DISC", c)
    table = set()
    for cs, r, st in effect_paths(prog, f, limit=4000, probes={"w": (cv.block, cv.args[3])}):
        if "?w" not in st:
            continue
        key = frozenset(short(c) for c in cs if re.match(r"discr\((EM|DISC|p2)\)@", short(c)))
        table.add((tuple(sorted(key)), short(st["?w"])))
    REQ = "discr(p2)@RequirementType"
    want = {
        (("discr(EM)@Option == 1", REQ + " == 1", REQ + " notin [0]"), "Option::Some{max(EM.asset_weight_maint,BW)}"),
        (("discr(EM)@Option == 1", REQ + " == 2", REQ + " notin [0]"), "Option::Some{max(%d,BW)}" % (1 << 48)),
        (("discr(EM)@Option notin [1]", REQ + " notin [0]"), "Option::Some{BW}"),
        (("discr(DISC)@Option == 1", "discr(EM)@Option == 1", REQ + " == 0"), "Option::Some{checked_mul(max(EM.asset_weight_init,BW),DISC)}"),
        (("discr(DISC)@Option notin [1]", "discr(EM)@Option == 1", REQ + " == 0"), "Option::Some{max(EM.asset_weight_init,BW)}"),
        (("discr(DISC)@Option == 1", "discr(EM)@Option notin [1]", REQ + " == 0"), "Option::Some{checked_mul(BW,DISC)}"),
        (("discr(DISC)@Option notin [1]", "discr(EM)@Option notin [1]", REQ + " == 0"), "Option::Some{BW}"),
    }
    want = {(tuple(sorted(k)), v) for k, v in want}
    # semantic comparison: by (requirement, entry present, discount present) -> weight
    def sem(tb):
        out = {}
        for k, v in tb:
            ks = set(k)
            req = "init" if REQ + " == 0" in ks else ("maint" if REQ + " == 1" in ks else ("equity" if REQ + " == 2" in ks else "non-init"))
            em = "discr(EM)@Option == 1" in ks
            di = "discr(DISC)@Option == 1" in ks
            out.setdefault((req, em, di), set()).add(v)
        return out
    ctx.inst("C04.R5", "asset-weight-paths", sem(table) == sem(want),
             "weight handed to calc_value on every path: max(bank weight, e-mode weight of the requirement) when an entry exists, bank weight otherwise; for Initial only, the result is then multiplied by the collateral-cap discount",
             sorted("%s -> %s" % kv for kv in sem(table).items() if sem(want).get(kv[0]) != kv[1])[:4] or "7 cases", cv.loc)


_run_pre_awp = run


def run(ctx):
    try:
        _run_pre_awp(ctx)
    finally:
        _asset_weight_paths(ctx)


# ---------------------------------------------------------------- R7 the engine sees every active position
def _loader_scans_everything(ctx):
    """The risk engine's view of the account is built by one loader.  Its iterator chain must deliver *every* active balance: the only
    element-dropping adaptor is `filter(is_active)` (or an explicit loop that skips inactive slots and is never left early).  A chain
    that can stop before the end (take_while / take / skip / step_by / find / position ...) lets an inactive slot in front of a debt
    hide that debt - a layout that arises after a position was closed and before the account is re-sorted."""
    prog = ctx.prog
    fs = prog.find_fns({"name": "load", "self_adt": "BankAccountWithPriceFeed"})
    if len(fs) != 1:
        ctx.missing("C04.R7", "BankAccountWithPriceFeed::load")
        return
    f = fs[0]
    from .common import _local_tree
    tr = _local_tree(prog, f, 0, [], 0, frozenset(), 1)
    TRUNC = ("take_while", "take", "skip", "skip_while", "step_by", "find", "position", "rposition", "nth", "last", "next", "peekable", "chain", "zip", "rev", "map_while", "scan", "fuse")
    names = set(re.findall(r"([A-Za-z_]\w*)\(", tr.split("closure{")[0]))
    chain_ok = "collect" in names and "iter(p1.balances)" in tr and not (names & set(TRUNC))
    filt = re.findall(r"filter\(iter\(p1\.balances\),closure\{([^{}]*)\}\)", tr)
    ok = chain_ok and len(filt) == 1 and filt[0] == "is_active(a2)"
    found = "ok (iter -> filter(is_active) -> map -> collect)"
    if not ok:
        # explicit loop form: a `next` loop over the balances that is left only when exhausted / on error, with an is_active skip
        loops = [c for c in f.calls() if c.callee and c.callee["name"] == "next" and re.search(r"iter\(p1\.balances\)", expr_tree(prog, f, c.args[0]))
                 and not re.search(r"\b(%s)\(" % "|".join(TRUNC), expr_tree(prog, f, c.args[0]))]
        loops = [c for c in loops if any(c.block in f.reachable(start=b) for b in f.succ()[c.block])]
        bad = [x for c in loops for x in loop_early_exits(prog, f, c.block)]
        if len(loops) == 1 and not bad:
            ok, found = True, "ok (explicit loop over every slot)"
        else:
            found = "iterator chain: %s" % tr[:200]
    ctx.inst("C04.R7", "loader/every-active-balance", ok, "the risk engine's loader delivers every active balance of the account: the only dropped slots are the inactive ones, and the scan cannot stop early",
             found, f.loc(f.raw["span"]))


_run_pre_loader = run


def run(ctx):
    try:
        _run_pre_loader(ctx)
    finally:
        _loader_scans_everything(ctx)
