"""C02 Ledger consistency (structural clauses only)."""
import json
import re
from engine import analysis as A
from engine.model import op_place
from .common import *

INFO = {
    "explanation": "Decided statically: (R1) who-may-write: Balance share fields, whole-Balance resets, balance slots, whole lending accounts and "
                   "the two bank totals are written only by the frozen set of functions, and those are called only from the frozen set of "
                   "callers; a created slot starts with zero shares; (R2) same-delta pairing: wherever a bank total is changed, the same "
                   "value object with the same sign is applied to a position of that side (or the position is reset and the delta is the "
                   "negated pre-reset read of that side), and vice versa; (R3) dust-only abandonment: every whole-balance reset is dominated "
                   "by a zero-with-tolerance (ZERO_AMOUNT_THRESHOLD) guard on each side it does not settle; (R4) account transfer copies the "
                   "whole lending account from the old to a freshly initialised account, zeroes the old one afterwards and is one-shot; "
                   "(R5) close_bank is guarded by both totals ~ 0 and both position counters == 0. Not decided: the global sum inequality over "
                   "histories and the size of the dust budget.",
    "assumptions": ["Anchor `init` creates a zeroed account", "type-level field identity (Rust borrow rules separate the two accounts of a transfer)"],
}

SIDE = {"change_asset_shares": "asset", "change_liability_shares": "liability"}


def _ci(f, t):
    return f.dinfo(t["res"]) if t.get("res") is not None else (f.dinfo(t["raw"]) if "raw" in t else None)


def root_parity(f, o, hops=0):
    """canonical root of a value through copies / into / neg, with sign parity"""
    if hops > 14:
        return (("deep",), 1)
    p = op_place(o)
    if p is None:
        k = o.get("k", {})
        return (("const", json.dumps(k.get("v"), sort_keys=True)), 1)
    fs = [(e["o"], e["n"]) for e in p.get("p", []) if isinstance(e, dict) and "f" in e]
    if fs:
        return (("field",) + fs[-1], 1)
    d = A.single_def(f, p["l"])
    if d is None:
        return (("local", p["l"]), 1)
    bi, si = d
    if si == "T":
        t = f.blocks[bi]["t"]
        ci = _ci(f, t)
        nm = ci["name"] if ci else ""
        if nm == "neg" and len(t["args"]) == 1:
            r, par = root_parity(f, t["args"][0], hops + 1)
            return (r, -par)
        if nm in ("into", "from", "clone") and len(t["args"]) == 1:
            return root_parity(f, t["args"][0], hops + 1)
        return (("call", bi), 1)
    v = f.blocks[bi]["s"][si]["v"]
    if v["r"] == "use":
        return root_parity(f, v["a"][0], hops + 1)
    if v["r"] == "un" and v["op"] == "Neg":
        r, par = root_parity(f, v["a"][0], hops + 1)
        return (r, -par)
    return (("local", p["l"]), 1)


def _run(ctx):
    prog = ctx.prog
    # ------------------------------------------------------------ anchors by semantic signature
    def sole_writer(owner, fld, rule):
        ws = [k for k, kinds in writers_of(prog, owner, fld) if "assign" in kinds]
        return ws
    bal_changers = {}
    bank_changers = {}
    for side in ("asset", "liability"):
        w = sole_writer(BALANCE, side + "_shares", "C02.R1")
        ctx.inst("C02.R1", "writer/Balance.%s_shares" % side, len(w) == 1, "exactly one function assigns Balance.%s_shares" % side, w, None)
        if len(w) == 1:
            bal_changers[w[0]] = side
        w = sole_writer(BANK, "total_%s_shares" % side, "C02.R1")
        ctx.inst("C02.R1", "writer/Bank.total_%s_shares" % side, len(w) == 1, "exactly one function assigns Bank.total_%s_shares" % side, w, None)
        if len(w) == 1:
            bank_changers[w[0]] = side
    resetters = balance_resetters(prog, BALANCE)[0]
    ctx.inst("C02.R1", "writer/Balance.*", len(resetters) == 1, "exactly one function overwrites a whole Balance (the reset)", resetters, None)
    if len(bal_changers) != 2 or len(bank_changers) != 2 or len(resetters) != 1:
        return
    reset = resetters[0]
    # each changer adds its argument to the field (value wiring)
    for k, side in list(bal_changers.items()) + list(bank_changers.items()):
        f = prog.fns[k]
        owner = BALANCE if k in bal_changers else BANK
        fld = (side + "_shares") if k in bal_changers else ("total_%s_shares" % side)
        for bi, s, pv in field_stores(ctx, f, owner, fld):
            wiring(ctx, "C02.R1", "changer-wiring/%s.%s" % (owner.split("::")[-1], fld), pv, must=[("field", owner, fld), ("param", 2), ("call", {"name": "checked_add"})],
                   must_not=[("field", owner, ("liability_shares" if side == "asset" else "asset_shares") if k in bal_changers else ("total_liability_shares" if side == "asset" else "total_asset_shares"))],
                   loc=f.bloc(bi), what="%s.%s" % (owner.split("::")[-1], fld))
    # slots: LendingAccount.balances element assignment only in find_or_create-like function, with zero shares
    slot_writers = sorted(set([k for k, kinds in writers_of(prog, LENDACC, "balances") if "assign" in kinds]) | set(balance_resetters(prog, BALANCE)[1]))
    ctx.inst("C02.R1", "writer/LendingAccount.balances", len(slot_writers) == 1, "exactly one function assigns a balance slot", slot_writers, None)
    for k in slot_writers:
        f = prog.fns[k]
        for fld in ("asset_shares", "liability_shares"):
            for bi, pv in agg_fields(ctx, f, "user_account::Balance", fld):
                ctx.inst("C02.R1", "new-slot/" + fld, pv.has_const("ZERO") and not pv.params and not pv.fields, "a created slot starts with zero %s" % fld, A._pvs(pv), f.bloc(bi))
    la_writers = sorted(k for k, kinds in writers_of(prog, MACCOUNT, "lending_account") if "assign" in kinds)
    th = [ctx.am.ix(n)["handlers"][0].key for n in ("transfer_to_new_account", "transfer_to_new_account_pda") if ctx.am.ix(n)]
    ctx.inst("C02.R1", "writer/MarginfiAccount.lending_account", la_writers == sorted(th), "whole lending accounts are assigned only by the two transfer handlers", la_writers, None)
    # callers
    def callers_of(key):
        return sorted({k for k, f in prog.fns.items() if any(c.key == key for c in f.calls())})
    incdec = set()
    for k in bal_changers:
        cs = callers_of(k)
        incdec |= set(cs)
    ctx.inst("C02.R1", "callers/balance-changers", len(incdec) == 2 and all(prog.fns[k].info.get("self_adt", "").endswith("BankAccountWrapper") for k in incdec),
             "position share changers are called only from the two wrapper primitives (increase / decrease)", sorted(incdec), None)
    bank_callers = set()
    for k in bank_changers:
        bank_callers |= set(callers_of(k))
    purge = ctx.am.ix("purge_deleverage_balance")
    allowed_bank_callers = set(incdec)
    full = [f.key for f in prog.fns.values() if f.info.get("self_adt", "").endswith("BankAccountWrapper") and any(c.key == reset for c in f.calls())
            and any(c.key in bank_changers for c in f.calls())]
    allowed_bank_callers |= set(full)
    if purge:
        allowed_bank_callers.add(purge["handlers"][0].key)
    ctx.inst("C02.R1", "callers/bank-changers", bank_callers <= allowed_bank_callers and len(full) == 2,
             "bank total changers are called only from increase/decrease, full-withdraw, full-repay and the purge handler", sorted(bank_callers - allowed_bank_callers) or sorted(bank_callers), None)
    reset_callers = set(callers_of(reset))
    ctx.floor("C02.R1", 12)

    # ------------------------------------------------------------ R2 pairing
    ctx.floor("C02.R2", 7)
    involved = sorted(bank_callers | incdec | reset_callers)
    ords = Ordinals()
    for fk in involved:
        f = prog.fns[fk]
        short = fk.split("::", 1)[1]
        bcalls = [(c, bank_changers[c.key]) for c in f.calls() if c.key in bank_changers]
        pcalls = [(c, bal_changers[c.key]) for c in f.calls() if c.key in bal_changers]
        rcalls = [c for c in f.calls() if c.key == reset]
        for c, side in bcalls:
            r, par = root_parity(f, c.args[1])
            match = [pc for pc, ps in pcalls if ps == side and root_parity(f, pc.args[1]) == (r, par)]
            if match:
                ctx.inst("C02.R2", ords.key("pair/%s/bank-%s" % (short, side)), True, "bank total change is paired with a position change of the same value and sign", "paired with %s" % match[0].loc, c.loc)
                continue
            # reset pairing: delta = -(pre-reset read of that side)
            okreset = False
            why = "no position change of the same value object"
            if rcalls and r == ("field", BALANCE, side + "_shares") and par == -1:
                # the read happens before the reset
                rb = rcalls[0].block
                pv = ctx.slicer.operand(f, c.args[1], at=c.block)
                # locate the block of the field read
                readb = None
                for bi, bb in enumerate(f.blocks):
                    for s in bb["s"]:
                        v = s.get("v")
                        if v and v["r"] == "use" and op_place(v["a"][0]) and any(isinstance(e, dict) and e.get("n") == side + "_shares" and e.get("o") == BALANCE for e in op_place(v["a"][0]).get("p", [])):
                            readb = bi if readb is None else readb
                    t = bb["t"]
                    if t["k"] == "call":
                        for o in t["args"]:
                            pl = op_place(o)
                            if pl and any(isinstance(e, dict) and e.get("n") == side + "_shares" and e.get("o") == BALANCE for e in pl.get("p", [])):
                                readb = bi if readb is None else readb
                if readb is not None and (readb == rb or f.dominates(readb, rb)) and rb not in f.reach_from(rb):
                    okreset = True
                else:
                    why = "the position is reset but its pre-reset shares are not read before the reset"
            ctx.inst("C02.R2", ords.key("pair/%s/bank-%s" % (short, side)), okreset,
                     "bank total change is paired with a position change of the same value and sign (or the negated pre-reset read of a reset position)",
                     "ok (reset pairing)" if okreset else "%s; root=%s parity=%d" % (why, r, par), c.loc)
        for c, side in pcalls:
            r, par = root_parity(f, c.args[1])
            match = [bc for bc, bs in bcalls if bs == side and root_parity(f, bc.args[1]) == (r, par)]
            ctx.inst("C02.R2", ords.key("pair/%s/position-%s" % (short, side)), bool(match), "position change is paired with a bank total change of the same value and sign",
                     "paired with %s" % match[0].loc if match else "unpaired; root=%s parity=%d" % (r, par), c.loc)
        # every paired call is on every successful path once its partner is (no conditional half)
        for c, side in bcalls + pcalls:
            pass

    # ------------------------------------------------------------ R3 dust-only abandonment
    ctx.floor("C02.R3", 4)
    for fk in sorted(reset_callers):
        f = prog.fns[fk]
        short = fk.split("::", 1)[1]
        bsides = {bank_changers[c.key] for c in f.calls() if c.key in bank_changers}
        for rc in [c for c in f.calls() if c.key == reset]:
            for side in ("asset", "liability"):
                if side in bsides:
                    continue
                conds = A.edge_conditions_to(prog, f, rc.block, ctx.slicer, limit=40)
                g1 = [a for a in conds if a.kind == "call" and a.callee.endswith("::is_zero_with_tolerance") and a.truth is True and a.args and a.args[0].has_field(BALANCE, side + "_shares")
                      and len(a.args) > 1 and a.args[1].has_const("ZERO_AMOUNT_THRESHOLD")]
                g2 = [a for a in conds if a.kind == "cmp" and a.rel == "le" and a.lhs.has_field(BALANCE, side + "_shares") and a.lhs.has_call(prog, {"name": "abs"}) and a.rhs.has_const("ZERO_AMOUNT_THRESHOLD")]
                ctx.inst("C02.R3", "dust-guard/%s/%s" % (short, side), bool(g1 or g2), "the reset of a position is reached only when its unsettled %s side is zero within ZERO_AMOUNT_THRESHOLD" % side,
                         [a.describe() for a in conds if a.kind in ("call", "cmp")][:5] if not (g1 or g2) else "ok", rc.loc)
    allowed_reset_callers = set(full)
    cb = [f.key for f in prog.fns.values() if f.info.get("self_adt", "").endswith("BankAccountWrapper") and f.key in reset_callers and f.key not in full]
    allowed_reset_callers |= set(cb)
    if purge:
        allowed_reset_callers.add(purge["handlers"][0].key)
    ctx.inst("C02.R3", "reset-callers", reset_callers <= allowed_reset_callers and len(cb) == 1, "positions are reset only by full-withdraw, full-repay, close-balance and the purge handler", sorted(reset_callers), None)

    # ------------------------------------------------------------ R4 transfer conserves
    for ixn in ("transfer_to_new_account", "transfer_to_new_account_pda"):
        try:
            ix = ctx.ix("C02.R4", ixn)
        except Exception:
            continue
        h = ix["handlers"][0]
        st = ix["struct"]
        skey = st.key
        stores = field_stores(ctx, h, MACCOUNT, "lending_account")
        new_st, old_st = [], []
        for bi, s, pv in stores:
            tgt = ctx.slicer.operand(h, {"c": {"l": s["d"]["l"]}}, at=bi) if "d" in s else A.Prov()
            tf = acct_fields(tgt, skey)
            (new_st if "new_marginfi_account" in tf else old_st).append((bi, s, pv, tf))
        probs = []
        if len(new_st) != 1 or len(old_st) != 1:
            probs.append("expected one store into the new and one into the old account (found %d/%d)" % (len(new_st), len(old_st)))
        else:
            nb, _, npv, _ = new_st[0]
            ob, _, opv, _ = old_st[0]
            if not (npv.has_field(MACCOUNT, "lending_account") and "old_marginfi_account" in acct_fields(npv, skey)):
                probs.append("new account's positions are not copied from the old account")
            if opv.has_field(MACCOUNT, "lending_account") or opv.params - {1}:
                probs.append("old account's positions are not replaced by an empty value (%s)" % A._pvs(opv))
            if not (nb == ob or ob in h.reach_from(nb)) or (nb in h.reach_from(ob) and nb != ob):
                probs.append("old account is cleared before the copy")
            ok1, _ = A.must_pass(h, [nb])
            ok2, _ = A.must_pass(h, [ob])
            if not (ok1 and ok2):
                probs.append("a successful transfer can skip the copy or the clearing")
        nf = st.field("new_marginfi_account")
        if nf is None or not nf.has("init"):
            probs.append("new account is not created by an `init` constraint")
        ev = A.error_variant_blocks(h, "AccountAlreadyMigrated")
        atoms = A.guard_atoms(prog, h, ev, ctx.slicer) if ev else []
        g = [a for a in atoms if a.kind == "cmp" and a.rel == "ne" and (a.lhs.has_field(MACCOUNT, "migrated_to") or a.rhs.has_field(MACCOUNT, "migrated_to"))]
        okm = bool(g) and A.must_pass(h, [a.switch[0] for a in g])[0]
        if not okm:
            probs.append("no error_if(old.migrated_to != default) guard on every successful path (%s)" % [a.describe() for a in atoms][:2])
        mt = field_stores(ctx, h, MACCOUNT, "migrated_to")
        if not mt or not all("new_marginfi_account" in acct_fields(pv, skey) for _, _, pv in mt):
            probs.append("old.migrated_to is not set to the new account")
        dis = [c for c in h.calls() if c.callee and c.callee["name"] == "set_flag" and ctx.slicer.operand(h, c.args[1], at=c.block).has_const("ACCOUNT_DISABLED")]
        if not dis or not A.must_pass(h, [c.block for c in dis])[0]:
            probs.append("old account is not disabled on every successful path")
        ctx.inst("C02.R4", "transfer/" + ixn, not probs, "transfer copies all positions old -> freshly initialised new, then empties, disables and marks the old account migrated; one-shot", "; ".join(probs) or "ok", h.loc(h.raw["span"]))

    # ------------------------------------------------------------ R5 bank close guard
    try:
        h = ctx.handler("C02.R5", "lending_pool_close_bank")
    except Exception:
        return
    ev = A.error_variant_blocks(h, "BankCannotClose")
    atoms = A.guard_atoms(prog, h, ev, ctx.slicer) if ev else []
    def cnt(field):
        return [a for a in atoms if a.kind == "cmp" and a.rel == "ne" and ((a.lhs.has_field(BANK, field) and 0 in a.rhs.ints) or (a.rhs.has_field(BANK, field) and 0 in a.lhs.ints))]
    def tol(field):
        return [a for a in atoms if a.kind == "call" and a.callee.endswith("::is_zero_with_tolerance") and a.truth is False and a.args and a.args[0].has_field(BANK, field) and len(a.args) > 1 and a.args[1].has_const("ZERO_AMOUNT_THRESHOLD")]
    for nm, g in (("lending_position_count==0", cnt("lending_position_count")), ("borrowing_position_count==0", cnt("borrowing_position_count")),
                  ("total_asset_shares~0", tol("total_asset_shares")), ("total_liability_shares~0", tol("total_liability_shares"))):
        ok = bool(g) and A.must_pass(h, [a.switch[0] for a in g])[0]
        ctx.inst("C02.R5", "close-guard/" + nm, ok, "close_bank fails unless %s (checked on every successful path)" % nm, [a.describe() for a in atoms][:6] if not g else "ok", h.bloc(ev[0]) if ev else None)
    ctx.floor("C02.R5", 4)


def run(ctx):
    from .kernels import check_kernels
    try:
        _run(ctx)
    finally:
        # numeric kernels this property's formulas rest on, pinned as canonical expression trees
        check_kernels(ctx, "C02.K", ['is_zero_with_tolerance'])
        from .kernels import check_leaves
        check_leaves(ctx, "C02.K", ['balance.is_empty', 'balance.get_side'])


def _split_wiring(ctx):
    """C02.R2: the two balance primitives always settle both sides: on every successful path of decrease_balance_internal the
    position and the bank lose get_asset_shares(min(asset amount, x)) and gain get_liability_shares(max(0, x - asset amount)); mirror image for increase."""
    prog = ctx.prog
    A_AMT = "get_asset_amount(p1.bank,p1.balance.asset_shares)"
    L_AMT = "get_liability_amount(p1.bank,p1.balance.liability_shares)"
    want = {
        "decrease_balance_internal": {"asset": "neg(get_asset_shares(p1.bank,min(%s,p2)))" % A_AMT, "liability": "get_liability_shares(p1.bank,max(0,checked_sub(p2,%s)))" % A_AMT},
        "increase_balance_internal": {"asset": "get_asset_shares(p1.bank,max(0,checked_sub(p2,%s)))" % L_AMT, "liability": "neg(get_liability_shares(p1.bank,min(%s,p2)))" % L_AMT},
    }
    for nm, w in want.items():
        fs = prog.find_fns({"name": nm, "crate": "marginfi"})
        if len(fs) != 1:
            ctx.missing("C02.R2", nm)
            continue
        f = fs[0]
        calls = [c for c in f.calls() if c.callee and c.callee["name"] in ("change_asset_shares", "change_liability_shares")]
        probes = {}
        for i, c in enumerate(calls):
            who = "bank" if "Bank" in (c.callee.get("self_adt") or "") else "balance"
            side = "asset" if "asset" in c.callee["name"] else "liability"
            probes["%s/%s#%d" % (who, side, i)] = (c.block, c.args[1])
        bad = []
        nok = 0
        for cs, r, st in effect_paths(prog, f, limit=20000, probes=probes):
            if not r or not r.startswith("Result::Ok"):
                continue
            nok += 1
            got = {}
            for k, v in st.items():
                if k.startswith("?"):
                    got.setdefault(k[1:].split("#")[0], []).append(v)
            for who in ("bank", "balance"):
                for side in ("asset", "liability"):
                    vals = got.get("%s/%s" % (who, side), [])
                    if vals == [w[side]]:
                        continue
                    if not vals:
                        # an update may be skipped only where its amount is exactly zero on that path
                        amt = re.sub(r"^neg\(", "", w[side])
                        m_ = re.fullmatch(r"get_(?:asset|liability)_shares\(p1\.bank,(.*)\)\)?", amt)
                        amt = m_.group(1) if m_ else amt
                        if amt.endswith(")") and amt.count("(") < amt.count(")"):
                            amt = amt[:-1]
                        zero = {"le(%s,0)" % amt, "eq(0,%s)" % amt, "is_zero(%s)" % amt}
                        if zero & set(cs):
                            continue
                    bad.append("%s %s-side update on a successful path is %s" % (who, side, vals or "missing"))
        ctx.inst("C02.R2", "split-wiring/" + nm, nok > 0 and not bad,
                 "%s: on every successful path both the position and the bank get asset delta %s and liability delta %s" % (nm, w["asset"][:70], w["liability"][:70]),
                 sorted(set(bad))[:3] or "%d successful paths" % nok, f.loc(f.raw["span"]))


_run_pre_split = run


def run(ctx):
    try:
        _run_pre_split(ctx)
    finally:
        _split_wiring(ctx)
