"""C08 Authorization and account binding (declarative constraints + their compiled form)."""
import json
import os
import re
from engine import analysis as A, fde
from engine.model import op_place
from .common import *

INFO = {
    "explanation": "Decided statically over all instructions: (R1) role table: every instruction is in exactly one class - group role (a Signer field "
                   "bound by key equality to the named role of a MarginfiGroup the instruction's banks/accounts belong to), global fee admin (bound on the "
                   "fee-state PDA), account authority rule, authority key equality, in-handler role comparison, or permissionless-by-design with a stated "
                   "reason; (R2) account-authority rule: the frozen-authority and signer predicates are present with the admin of the same group and "
                   "allow_receivership = true exactly for withdraw/repay (all venues), live in the compiled try_accounts; the signer predicate's complete "
                   "24-cell truth table; (R3) binding: every non-init Bank / MarginfiAccount loader in a struct with a group is bound to that group; the "
                   "complete binding signature (key equalities, PDA seeds + bump + program, address, token constraints, init/close) of every account field of "
                   "every instruction equals the reviewed table in rules/C08_bindings.json; every constraint's custom error is constructible in the compiled "
                   "try_accounts; (R4) seed tables: vault / authority seeds used in constraints agree with those used to sign. "
                   "Not decided: nothing dynamic; Anchor's generated checks and the SPL token program are trusted.",
    "assumptions": ["Anchor 0.31.1 account-constraint semantics", "venue (Kamino/Drift/Solend) accounts are validated by the venue program during CPI"],
}
HERE = os.path.dirname(os.path.abspath(__file__))

GROUP_ROLE = {
    "configure_deleverage_withdrawal_limit": "admin", "edit_staked_settings": "admin", "init_staked_settings": "admin",
    "lending_pool_add_bank": "admin", "lending_pool_add_bank_drift": "admin", "lending_pool_add_bank_kamino": "admin", "lending_pool_add_bank_solend": "admin",
    "lending_pool_add_bank_with_seed": "admin", "lending_pool_clone_bank": "admin", "lending_pool_close_bank": "admin", "lending_pool_configure_bank": "admin",
    "lending_pool_configure_bank_oracle": "admin", "lending_pool_set_fixed_oracle_price": "admin", "lending_pool_update_fees_destination_account": "admin",
    "lending_pool_withdraw_fees": "admin", "lending_pool_withdraw_insurance": "admin", "marginfi_account_set_freeze": "admin", "marginfi_group_configure": "admin",
    "lending_pool_configure_bank_emode": "emode_admin", "lending_pool_configure_bank_interest_only": "delegate_curve_admin",
    "lending_pool_configure_bank_limits_only": "delegate_limit_admin", "lending_pool_setup_emissions": "delegate_emissions_admin",
    "lending_pool_update_emissions_parameters": "delegate_emissions_admin", "write_bank_metadata": "metadata_admin",
    "lending_pool_force_tokenless_repay_complete": "risk_admin", "purge_deleverage_balance": "risk_admin", "start_deleverage": "risk_admin", "end_deleverage": "risk_admin",
}
FEE_ADMIN = {"config_group_fee", "edit_global_fee_state", "panic_pause", "panic_unpause"}
# instruction -> (account field, allow_receivership)
ACCOUNT_AUTHORITY = {
    "lending_account_deposit": ("marginfi_account", False), "lending_account_borrow": ("marginfi_account", False), "lending_account_close_balance": ("marginfi_account", False),
    "lending_account_withdraw": ("marginfi_account", True), "lending_account_repay": ("marginfi_account", True),
    "kamino_deposit": ("marginfi_account", False), "kamino_withdraw": ("marginfi_account", True), "drift_deposit": ("marginfi_account", False), "drift_withdraw": ("marginfi_account", True),
    "solend_deposit": ("marginfi_account", False), "solend_withdraw": ("marginfi_account", True),
    "lending_account_liquidate": ("liquidator_marginfi_account", False), "lending_account_withdraw_emissions": ("marginfi_account", False),
    "transfer_to_new_account": ("old_marginfi_account", False), "transfer_to_new_account_pda": ("old_marginfi_account", False),
}
AUTHORITY_KEYEQ = {"lending_account_start_flashloan": "marginfi_account", "lending_account_end_flashloan": "marginfi_account", "marginfi_account_close": "marginfi_account",
                   "marginfi_account_update_emissions_destination_account": "marginfi_account"}
IN_HANDLER = {"lending_pool_clone_emode": ("Unauthorized", {"admin", "emode_admin"}), "lending_pool_handle_bankruptcy": ("Unauthorized", {"admin", "risk_admin"})}
RECORD_RECEIVER = {"end_liquidation"}
PERMISSIONLESS = {
    "marginfi_group_initialize": "creates a new group whose admin is the signer", "marginfi_account_initialize": "creates a new account for the signing authority",
    "marginfi_account_initialize_pda": "creates a new account for the signing authority", "marginfi_account_init_liq_record": "creates the account's record PDA (rent only)",
    "init_bank_metadata": "creates a metadata PDA (rent only)", "init_global_fee_state": "one-time creation of the global fee-state PDA",
    "lending_pool_accrue_bank_interest": "accrual is permissionless by design", "lending_pool_collect_bank_fees": "moves accrued fees to the bank's own vaults / global fee wallet",
    "lending_account_settle_emissions": "books emissions owed to a position", "lending_account_pulse_health": "refreshes a health cache",
    "lending_pool_pulse_bank_price_cache": "refreshes a price cache", "propagate_fee_state": "copies the global fee state into a group cache",
    "propagate_staked_settings": "copies group staked settings into a staked bank", "migrate_curve": "converts a legacy curve to the equivalent seven-point curve",
    "lending_pool_add_bank_permissionless": "creates a staked-collateral bank from the group's staked settings", "kamino_init_obligation": "venue account bootstrap",
    "drift_init_user": "venue account bootstrap", "solend_init_obligation": "venue account bootstrap", "panic_unpause_permissionless": "clears an expired pause (C15)",
    "start_liquidation": "permissionless receivership start, gated by the maintenance-health check (C10)",
    "lending_account_withdraw_emissions_permissionless": "pays emissions to the authority's registered destination only (C19)",
    "lending_pool_withdraw_fees_permissionless": "pays fees to the admin-fixed destination only (C19)",
    "kamino_harvest_reward": "venue rewards to the global fee wallet's ATA (C19)", "drift_harvest_reward": "venue rewards to the global fee wallet's ATA (C19)",
}
# structs with a group field where a Bank / MarginfiAccount loader is intentionally not has_one-bound
GROUP_BIND_EXEMPT = {
    ("lending_account_settle_emissions", "bank"): "no group account in the struct; bank.group == account.group instead",
}


STATE_PRED = re.compile(r"is_protocol_paused\(\)|\.get_flag\(|\.is_stale\(\)|\.validate_\w+\(|\.has_admin_deposit\(|\.deposits\.iter\(\)")


def nrm(s):
    return re.sub(r"\s+", "", s or "")


def binding_signature(st):
    """field name -> sorted list of binding facts (declarative, whitespace-insensitive)"""
    sig = {}
    for f in st.fields:
        items = []
        items.append("type:" + f.ctor + ("<" + (f.inner or "").split("::")[-1] + ">" if f.inner and f.ctor not in ("Signer",) else "") + ("?" if f.optional else ""))
        for c in f.cons:
            if c.kind == "keyeq":
                items.append("keyeq:%s.%s%s%s" % (c.a, c.f, "!=" if getattr(c, "neg", False) else "==", c.b))
            elif c.kind == "seeds":
                items.append("seeds:[" + ",".join(nrm(s) for s in c.seeds) + "]")
            elif c.kind == "bump":
                items.append("bump:" + nrm(c.expr))
            elif c.kind == "seeds_program":
                items.append("seeds_program:" + nrm(c.expr))
            elif c.kind == "address":
                items.append("address:" + nrm(c.expr))
            elif c.kind == "owner":
                items.append("owner:" + nrm(c.expr))
            elif c.kind == "spl":
                items.append("spl:%s=%s" % (c.key, nrm(c.expr)))
            elif c.kind == "init":
                items.append("init:" + c.how)
            elif c.kind == "close":
                items.append("close:" + nrm(c.target))
            elif c.kind == "pred":
                # state predicates (pause, account / bank flags, venue account state) say nothing about who may act or which account
                # may be substituted: they belong to C14.R3, C10.R3/R5, C11, C16.R7, C12.R5, C20.R3, not to the binding signature
                if not STATE_PRED.search(nrm(c.expr)):
                    items.append("pred:" + nrm(c.expr))
            elif c.kind == "signer":
                items.append("signer")
            elif c.kind == "opaque":
                items.append("opaque:" + nrm(c.raw))
        sig[f.name] = sorted(items)
    return sig


def run(ctx):
    prog = ctx.prog
    am = ctx.am
    # ------------------------------------------------------------ R1 role table (total)
    classes = [GROUP_ROLE, FEE_ADMIN, ACCOUNT_AUTHORITY, AUTHORITY_KEYEQ, IN_HANDLER, RECORD_RECEIVER, PERMISSIONLESS]
    for ixn in sorted(am.instructions):
        n = sum(1 for c in classes if ixn in c)
        ctx.inst("C08.R1", "classified/" + ixn, n == 1, "instruction appears in exactly one authorization class of the reviewed table", "%d classes" % n, None)
    for c in classes:
        for ixn in c:
            if ixn not in am.instructions:
                ctx.missing("C08.R1", "instruction " + ixn)
    ctx.floor("C08.R1", 78)

    def group_fields(st):
        return [f for f in st.fields if (f.inner or "").endswith("::MarginfiGroup") and f.ctor == "AccountLoader"]
    for ixn, role in sorted(GROUP_ROLE.items()):
        ent = am.ix(ixn)
        if not ent:
            continue
        st = ent["struct"]
        gf = group_fields(st)
        ks = [c for f, c in st.all_constraints() if c.kind == "keyeq" and c.f == role and not getattr(c, "neg", False) and gf and c.a == gf[0].name]
        sf = st.field(ks[0].b) if ks else None
        ok = len(gf) == 1 and len(ks) >= 1 and sf is not None and sf.ctor == "Signer"
        # the group is not being created here (a fresh group's roles mean nothing)
        ok = ok and not gf[0].has("init") if gf else False
        ctx.inst("C08.R1", "role/" + ixn, ok, "%s requires a Signer equal to group.%s" % (ixn, role), "group fields=%s binding=%s signer-ctor=%s" % ([g.name for g in gf], [(k.a, k.f, k.b) for k in ks], sf.ctor if sf else None), "%s:%d" % (st.file, st.line))
    for ixn in sorted(FEE_ADMIN):
        ent = am.ix(ixn)
        if not ent:
            continue
        st = ent["struct"]
        fs = [f for f in st.fields if (f.inner or "").endswith("::FeeState")]
        ks = [c for f, c in st.all_constraints() if c.kind == "keyeq" and c.f == "global_fee_admin" and fs and c.a == fs[0].name and not getattr(c, "neg", False)]
        sf = st.field(ks[0].b) if ks else None
        seeds = [c for c in (fs[0].cons if fs else []) if c.kind == "seeds"]
        okseed = bool(seeds) and [nrm(s) for s in seeds[0].seeds] == ["FEE_STATE_SEED.as_bytes()"]
        ctx.inst("C08.R1", "fee-admin/" + ixn, bool(ks) and sf is not None and sf.ctor == "Signer" and okseed, "%s requires a Signer equal to fee_state.global_fee_admin on the global fee-state PDA" % ixn, "", "%s:%d" % (st.file, st.line))
    for ixn, accf in sorted(AUTHORITY_KEYEQ.items()):
        ent = am.ix(ixn)
        if not ent:
            continue
        st = ent["struct"]
        ks = [c for f, c in st.all_constraints() if c.kind == "keyeq" and c.a == accf and c.f == "authority" and not getattr(c, "neg", False)]
        sf = st.field(ks[0].b) if ks else None
        ctx.inst("C08.R1", "authority-keyeq/" + ixn, bool(ks) and sf is not None and sf.ctor == "Signer", "%s requires the account authority's signature" % ixn, "", "%s:%d" % (st.file, st.line))
    for ixn, (err, roles) in sorted(IN_HANDLER.items()):
        ent = am.ix(ixn)
        if not ent:
            continue
        h = ent["handlers"][0]
        st = ent["struct"]
        ev = A.error_variant_blocks(h, err)
        atoms = []
        for e in ev:
            atoms += A.guard_atoms(prog, h, [e], ctx.slicer) + A.edge_conditions_to(prog, h, e, ctx.slicer, limit=30)
        got = set()
        signer_ok = False
        for a in atoms:
            if a.kind == "cmp" and a.rel in ("ne", "eq"):
                for p, q in ((a.lhs, a.rhs), (a.rhs, a.lhs)):
                    rs = {n for (o, n) in p.fields if o == GROUP and n.endswith("admin")}
                    if rs and any(st.field(x) is not None and st.field(x).ctor == "Signer" for x in acct_fields(q, st.key)):
                        got |= rs
                        signer_ok = True
        gfs = group_fields(st)
        ctx.inst("C08.R1", "in-handler/" + ixn, got == roles and signer_ok and bool(ev), "%s compares a Signer with exactly group.{%s} (else %s)" % (ixn, ",".join(sorted(roles)), err), sorted(got), h.loc(h.raw["span"]))
    for ixn in sorted(RECORD_RECEIVER):
        ent = am.ix(ixn)
        if ent:
            st = ent["struct"]
            ks = [c for f, c in st.all_constraints() if c.kind == "keyeq" and c.a == "liquidation_record" and c.f == "liquidation_receiver"]
            sf = st.field(ks[0].b) if ks else None
            ctx.inst("C08.R1", "receiver/" + ixn, bool(ks) and sf is not None and sf.ctor == "Signer", "only the recorded receiver can end the liquidation", "", "%s:%d" % (st.file, st.line))
    for ixn, why in sorted(PERMISSIONLESS.items()):
        ent = am.ix(ixn)
        if ent:
            ctx.inst("C08.R1", "permissionless/" + ixn, True, "permissionless by design: " + why, "table", "%s:%d" % (ent["struct"].file, ent["struct"].line))

    # ------------------------------------------------------------ R2 account authority
    isa = prog.find_fns({"name": "is_signer_authorized", "crate": "marginfi"})
    anf = prog.find_fns({"name": "account_not_frozen_for_authority", "crate": "marginfi"})
    for ixn, (accf, allow) in sorted(ACCOUNT_AUTHORITY.items()):
        ent = am.ix(ixn)
        if not ent:
            continue
        st = ent["struct"]
        f = st.field(accf)
        preds = {nrm(c.expr): c for c in (f.cons if f else []) if c.kind == "pred"}
        gfs = group_fields(st)
        gname = gfs[0].name if gfs else "group"
        p1 = "account_not_frozen_for_authority(&%s.load()?,authority.key())" % accf
        p2 = "is_signer_authorized(&%s.load()?,%s.load()?.admin,authority.key(),%s)" % (accf, gname, "true" if allow else "false")
        probs = []
        if p1 not in preds or preds[p1].err != "AccountFrozen":
            probs.append("frozen-authority predicate missing or wrong error")
        if p2 not in preds or preds[p2].err != "Unauthorized":
            probs.append("signer predicate with allow_receivership=%s missing (found %s)" % (allow, [k for k in preds if "is_signer_authorized" in k]))
        af = st.field("authority")
        if af is None or af.ctor != "Signer":
            probs.append("`authority` is not a Signer")
        gb = [c for c in (f.cons if f else []) if c.kind == "keyeq" and c.f == "group" and c.b == gname and not getattr(c, "neg", False)]
        if not gb:
            probs.append("the account is not bound to the group whose admin is consulted")
        # live in compiled try_accounts
        ta = st.try_accounts
        ic = [c for c in ta.calls() if isa and c.key == isa[0].key]
        if not ic:
            probs.append("signer predicate not called in compiled try_accounts")
        for c in ic:
            av = ctx.slicer.operand(ta, c.args[3], at=c.block)
            if av.ints != {1 if allow else 0}:
                probs.append("compiled allow_receivership constant is %s" % sorted(av.ints))
            if not A.must_pass(ta, [c.block])[0]:
                probs.append("signer predicate can be skipped in try_accounts")
        fc = [c for c in ta.calls() if anf and c.key == anf[0].key]
        if not fc or not A.must_pass(ta, [c.block for c in fc])[0]:
            probs.append("frozen predicate not on every successful path of try_accounts")
        for v in ("Unauthorized", "AccountFrozen"):
            if not A.error_variant_blocks(ta, v):
                probs.append("%s not constructible in try_accounts" % v)
        ctx.inst("C08.R2", "authority-rule/" + ixn, not probs, "%s: frozen-authority + signer predicates (allow_receivership=%s) on `%s` with the bound group's admin" % (ixn, allow, accf), "; ".join(probs) or "ok", "%s:%d" % (st.file, st.line))
    ctx.floor("C08.R2", 15 + 24)
    # who else calls the signer predicate with allow=true?
    if len(isa) == 1:
        for k, f in prog.fns.items():
            for c in f.calls():
                if c.key == isa[0].key:
                    av = ctx.slicer.operand(f, c.args[3], at=c.block)
                    owner = f.info.get("self_adt", "")
                    ixs = [n for n, e in am.instructions.items() if e["struct"].key == owner]
                    if av.ints == {1} and not (ixs and ACCOUNT_AUTHORITY.get(ixs[0], (None, False))[1]):
                        ctx.inst("C08.R2", "allow-receivership-only-withdraw-repay@" + k.split("::", 1)[1], False, "allow_receivership = true only for withdraw / repay instructions", "true in %s" % k, c.loc)
        # truth table
        f = isa[0]
        fl = field_idx(prog, MACCOUNT, "authority")
        tbl = {}
        RCV = int(prog.const_by_name("ACCOUNT_IN_RECEIVERSHIP")[0]["v"]["int"])
        FRZ = int(prog.const_by_name("ACCOUNT_FROZEN")[0]["v"]["int"])
        for recv in (0, 1):
            for frozen in (0, 1):
                for who in ("authority", "admin", "other"):
                    for allow in (0, 1):
                        def gf(i, a, recv=recv, frozen=frozen):
                            fl_ = a[1][1] if fde.is_int(a[1]) else None
                            if fl_ == RCV:
                                return fde.Int(recv)
                            if fl_ == FRZ:
                                return fde.Int(frozen)
                            return fde.TOP
                        it = fde.Interp(prog, stubs={"get_flag": gf})
                        acc = fde.Adt(MACCOUNT, 0, {fl: fde.Cell(fde.Int(1))})
                        signer = {"authority": 1, "admin": 2, "other": 3}[who]
                        outs = it.run(f, [fde.Ref(fde.Cell(acc)), fde.Int(2), fde.Int(signer), fde.Int(allow)])
                        ks = sorted({fde.result_kind(it, o) for o in outs})
                        want = 1 if (allow and recv) else ((1 if who == "admin" else 0) if frozen else (1 if who == "authority" else 0))
                        key = "recv=%d,frozen=%d,signer=%s,allow=%d" % (recv, frozen, who, allow)
                        tbl[key] = [list(k) for k in ks]
                        ctx.inst("C08.R2", "signer-table[%s]" % key, ks == [("val", want)], "is_signer_authorized -> %s" % bool(want), str(ks), f.loc(f.raw["span"]))
        ctx.tables["is_signer_authorized"] = tbl
    if len(anf) == 1:
        f = anf[0]
        fl = field_idx(prog, MACCOUNT, "authority")
        FRZ = int(prog.const_by_name("ACCOUNT_FROZEN")[0]["v"]["int"])
        for frozen in (0, 1):
            for who in ("authority", "other"):
                it = fde.Interp(prog, stubs={"get_flag": lambda i, a, frozen=frozen: fde.Int(frozen) if fde.is_int(a[1]) and a[1][1] == FRZ else fde.TOP})
                acc = fde.Adt(MACCOUNT, 0, {fl: fde.Cell(fde.Int(1))})
                outs = it.run(f, [fde.Ref(fde.Cell(acc)), fde.Int(1 if who == "authority" else 3)])
                ks = sorted({fde.result_kind(it, o) for o in outs})
                want = 0 if (frozen and who == "authority") else 1
                ctx.inst("C08.R2", "frozen-table[frozen=%d,signer=%s]" % (frozen, who), ks == [("val", want)], "account_not_frozen_for_authority -> %s" % bool(want), str(ks), f.loc(f.raw["span"]))

    # ------------------------------------------------------------ R3 bindings
    n_bound = 0
    for ixn, ent in sorted(am.instructions.items()):
        st = ent["struct"]
        gfs = group_fields(st)
        if not gfs:
            continue
        gname = gfs[0].name
        for f in st.fields_of("Bank", "AccountLoader") + st.fields_of("MarginfiAccount", "AccountLoader"):
            if f.has("init"):
                continue
            kb = [c for c in f.cons if c.kind == "keyeq" and c.a == f.name and c.f == "group" and c.b == gname and not getattr(c, "neg", False)]
            if not kb:
                # conjunct of a compound constraint:  <f>.load()?.group == <group>.key() && ...
                for c in f.cons:
                    if c.kind == "pred" and "||" not in c.expr:
                        if ("%s.load()?.group==%s.key()" % (f.name, gname)) in nrm(c.expr).split("&&"):
                            kb = [c]
            if (ixn, f.name) in GROUP_BIND_EXEMPT:
                continue
            n_bound += 1
            ctx.inst("C08.R3", "group-bound/%s/%s" % (ixn, f.name), bool(kb), "%s.%s must belong to the instruction's group `%s`" % (ixn, f.name, gname), "", "%s:%s" % (st.file, f.line))
    ctx.floor("C08.R3", 60)
    # frozen binding signatures
    tpath = os.path.join(HERE, "C08_bindings.json")
    cur = {ixn: binding_signature(ent["struct"]) for ixn, ent in am.instructions.items()}
    if os.environ.get("VERIF_C08_SNAPSHOT") == "1":
        json.dump(cur, open(tpath, "w"), indent=1, sort_keys=True)
    if not os.path.exists(tpath):
        ctx.missing("C08.R3", "rules/C08_bindings.json")
    else:
        ref = json.load(open(tpath))
        for ixn in sorted(ref):
            if ixn not in cur:
                ctx.missing("C08.R3", "instruction %s (in the binding table)" % ixn)
                continue
            for fld, want in sorted(ref[ixn].items()):
                got = cur[ixn].get(fld)
                st = am.ix(ixn)["struct"]
                if got is None:
                    ctx.inst("C08.R3", "binding/%s/%s" % (ixn, fld), False, "account field present with bindings %s" % want, "field removed", "%s:%d" % (st.file, st.line))
                    continue
                lost = [w for w in want if w not in got]
                added = [g for g in got if g not in want]
                # added constraints only tighten; lost ones (or changed ones) loosen / rebind
                ctx.inst("C08.R3", "binding/%s/%s" % (ixn, fld), not lost, "bindings of %s.%s include the reviewed set" % (ixn, fld), ("lost: %s; new: %s" % (lost, added)) if lost else "ok", "%s:%d" % (st.file, st.line))
        for ixn in sorted(cur):
            if ixn not in ref:
                ctx.inst("C08.R3", "binding/%s" % ixn, None, "new instruction: not in the reviewed binding table", "unreviewed", None)
    # custom errors of constraints are live in compiled try_accounts
    dead = []
    nerr = 0
    for ixn, ent in sorted(am.instructions.items()):
        st = ent["struct"]
        evs = set(A.error_variants(prog, st.try_accounts).keys())
        for f, c in st.all_constraints():
            e = getattr(c, "err", None)
            if e:
                nerr += 1
                if e not in evs:
                    dead.append("%s.%s @%s" % (ixn, f.name, e))
    ctx.inst("C08.R3", "constraint-errors-live", not dead and nerr > 150, "every custom error named by a constraint is constructible in the compiled try_accounts (constraint is live)", "dead: %s (of %d)" % (dead[:5], nerr), None)
    # number of key comparisons compiled in try_accounts >= declared key equalities
    for ixn, ent in sorted(am.instructions.items()):
        st = ent["struct"]
        declared = len([1 for f, c in st.all_constraints() if c.kind == "keyeq"])
        if not declared:
            continue
        ta = st.try_accounts
        ncmp = len([c for c in ta.calls() if c.callee and c.callee["name"] in ("ne", "eq") and "Pubkey" in (c.sub or "") + (c.callee.get("self_ty") or "")])
        ctx.inst("C08.R3", "compiled-keyeq/%s" % ixn, ncmp >= declared, "try_accounts of %s compiles at least one Pubkey comparison per declared key equality" % ixn, "declared=%d compiled=%d" % (declared, ncmp), "%s:%d" % (st.file, st.line))

    # ------------------------------------------------------------ R4 seed tables agree
    bvt = [f for f in prog.fns.values() if (f.info.get("self_adt") or "").endswith("BankVaultType") and f.name in ("get_seed", "get_authority_seed")]
    it = fde.Interp(prog)
    expect = {"get_seed": {"Liquidity": "LIQUIDITY_VAULT_SEED", "Insurance": "INSURANCE_VAULT_SEED", "Fee": "FEE_VAULT_SEED"},
              "get_authority_seed": {"Liquidity": "LIQUIDITY_VAULT_AUTHORITY_SEED", "Insurance": "INSURANCE_VAULT_AUTHORITY_SEED", "Fee": "FEE_VAULT_AUTHORITY_SEED"}}
    if len(bvt) != 2:
        ctx.missing("C08.R4", "BankVaultType::get_seed / get_authority_seed")
    for f in bvt:
        # per-variant: which constant is returned (path-sensitive slice per switch arm)
        for bi, bb in enumerate(f.blocks):
            t = bb["t"]
            if t["k"] != "switch":
                continue
            adt = prog.adts[[k for k in prog.adts if k.endswith("::BankVaultType")][0]]
            d2n = {int(v["discr"]): v["name"] for v in adt["variants"]}
            for a, b in t["arms"]:
                region = f.reachable(b)
                consts = set()
                for rb in region:
                    for s in f.blocks[rb]["s"]:
                        v = s.get("v")
                        if v:
                            for o in v.get("a", []):
                                k = o.get("k")
                                if k and "item" in k and "promoted" not in k:
                                    consts.add(f.dinfo(k["item"])["name"])
                                if k and "promoted" in k:
                                    pf = prog.promoted.get((f.dinfo(k["item"])["key"], k["promoted"]))
                                    if pf:
                                        consts |= {kk.split("::")[-1] for kk in ctx.slicer.local(pf, 0).consts}
                    tt = f.blocks[rb]["t"]
                    if tt["k"] == "call":
                        for o in tt["args"]:
                            pv = ctx.slicer.operand(f, o, at=rb)
                            consts |= {kk.split("::")[-1] for kk in pv.consts}
                vn = d2n.get(int(a))
                want = expect[f.name].get(vn)
                seeds = {c for c in consts if c.endswith("_SEED")}
                # arms share the tail; only the arm's own first block matters
                own = set()
                for s in f.blocks[b]["s"]:
                    v = s.get("v")
                    if v:
                        for o in v.get("a", []):
                            pv = ctx.slicer.operand(f, o, at=b)
                            own |= {kk.split("::")[-1] for kk in pv.consts if kk.endswith("_SEED")}
                tt = f.blocks[b]["t"]
                if tt["k"] == "call":
                    for o in tt["args"]:
                        own |= {kk.split("::")[-1] for kk in ctx.slicer.operand(f, o, at=b).consts if kk.endswith("_SEED")}
                ctx.inst("C08.R4", "%s[%s]" % (f.name, vn), own == {want}, "BankVaultType::%s.%s() == %s" % (vn, f.name, want), sorted(own), f.bloc(b))
    # the three SEED constants are pairwise distinct strings
    vals = {}
    for nm in ["LIQUIDITY_VAULT_SEED", "INSURANCE_VAULT_SEED", "FEE_VAULT_SEED", "LIQUIDITY_VAULT_AUTHORITY_SEED", "INSURANCE_VAULT_AUTHORITY_SEED", "FEE_VAULT_AUTHORITY_SEED", "FEE_STATE_SEED"]:
        cs = prog.const_by_name(nm)
        v = cs[0]["v"] if cs else None
        vals[nm] = (v.get("slice") or {}).get("hex") if v else None
    ctx.inst("C08.R4", "seed-constants-distinct", len(set(vals.values())) == len(vals) and None not in vals.values(), "vault / authority / fee-state seed constants are pairwise distinct", vals, None)
