"""C20 Integration exchange-rate math (structural clauses only)."""
import re
from engine import analysis as A
from engine.model import op_place
from .common import *

INFO = {
    "explanation": "Decided statically: (R1) fail-closed arithmetic lint over the conversion functions (type-crate price helpers, Kamino / Solend / Drift "
                   "mock-state converters and adjusters, scale_drift_deposit_limit, the venue arms of the oracle constructor): no wrapping / saturating / "
                   "unchecked arithmetic, no unchecked to_num, no narrowing or sign-changing integer cast, no plain shift, no operator arithmetic on fixed-point "
                   "values, except the reasoned sites frozen by (function, kind, detail); (R2) Drift rounding: decrement passes round_up = true, increment "
                   "false, the +1 happens only when round_up is set (never in the deposit direction), and the scaled balance / token amount formulas multiply then divide in the "
                   "floor direction; (R3) staleness predicates: reserve.slot < current slot, last_interest_ts < now, last_update_slot < clock.slot; (R4) "
                   "zero-supply conversions return None (explicit == 0 guard or checked_div by that supply) and the collateral<->liquidity formulas use the right numerator / denominator; "
                   "(R5) total-supply sign wiring: every fee term is subtracted from the (available + borrowed) total; (R6) the oracle arms adjust price and "
                   "confidence by total_liq / total_col of the venue account, only when total_col > 0. Not decided: monotonicity, 'never exceeds price x "
                   "exact rate', round-trip no-gain (numeric over 128-bit domains).",
    "assumptions": ["deployed with overflow-checks = true (release profile): primitive +,-,* panic on overflow", "`fixed` crate checked_* semantics"],
}

DESIGNATED = [
    {"crate": "marginfi_type_crate", "key_re": r"^marginfi_type_crate::types::price::"},
    {"crate": "kamino_mocks", "name": ["scaled_supplies", "collateral_to_liquidity", "liquidity_to_collateral", "calculate_total_supply_i80f48", "u68f60_to_i80f48", "borrowed_amount_sf",
                                        "accumulated_protocol_fees_sf", "accumulated_referrer_fees_sf", "pending_referrer_fees_sf", "convert_decimals", "is_stale"]},
    {"crate": "solend_mocks", "name": ["scaled_supplies", "collateral_to_liquidity", "liquidity_to_collateral", "calculate_total_liquidity", "decimal_to_i80f48", "convert_decimals", "is_stale"]},
    {"crate": "drift_mocks", "name": ["get_scaled_balance", "get_scaled_balance_decrement", "get_scaled_balance_increment", "get_withdraw_token_amount", "adjust_oracle_price", "adjust_oracle_value_u128",
                                       "adjust_i64", "adjust_u64", "adjust_i128", "is_stale", "get_precision_increase", "scale_drift_deposit_limit"]},
]
# reasoned exceptions: (function name, kind, detail) -> reason
EXCEPT = {
    ("i80_from_i128_checked", "shift", "Shl"): "x << 48 after the explicit range check against i128::MAX >> 48",
    ("u68f60_to_i80f48", "shift", "Shr"): ">> 12 drops fractional bits only (documented precision loss)",
    ("u68f60_to_i80f48", "cast", "u128->i128"): "value < 2^116 after the shift, cannot be negative",
    ("calculate_total_supply_i80f48", "fixed-op", "add"): "u64 + U68F60 magnitudes < 2^69 << 2^79",
    ("calculate_total_supply_i80f48", "fixed-op", "sub"): "fees <= total supply on Kamino; magnitudes < 2^69",
    ("calculate_total_liquidity", "fixed-op", "add"): "u64 + WAD value bounded by decimal_to_i80f48's 79-bit check",
    ("calculate_total_liquidity", "fixed-op", "sub"): "fees bounded likewise",
    ("decimal_to_i80f48", "shift", "Shl"): "1 << 48, 1 << 79 constants and int_part << 48 after the 79-bit check",
    ("decimal_to_i80f48", "cast", "u128->i128"): "int_part < 2^79 and frac_bits < 2^48 by construction",
    ("scaled_supplies", "cast", "u64->u8"): "Kamino mint_decimals is a token decimals count (<= 19/23 in the property's domain); both supplies use the same factor so the ratio is unaffected",
    ("is_stale", "cast", "u64->i64"): "Drift last_interest_ts is a unix timestamp < 2^63",
    ("try_from_bank_with_max_age", "fixed-op", "div"): "total_liq / total_col guarded by total_col > 0; both < 2^69",
}
NARROW = {"u8": 8, "u16": 16, "u32": 32, "u64": 64, "u128": 128, "usize": 64, "i8": 8, "i16": 16, "i32": 32, "i64": 64, "i128": 128, "isize": 64}


def lint_sites(prog, f):
    """[(kind, detail, loc)] of arithmetic that does not fail closed"""
    out = []
    for bi, bb in enumerate(f.blocks):
        for s in bb["s"]:
            v = s.get("v")
            if not v:
                continue
            if v["r"] == "bin":
                op = v["op"]
                if op in ("Shl", "Shr", "ShlUnchecked", "ShrUnchecked"):
                    out.append(("shift", op.replace("Unchecked", ""), f.loc(s.get("sp"))))
                elif op in ("AddUnchecked", "SubUnchecked", "MulUnchecked") or op in ("Add", "Sub", "Mul"):
                    ty = None
                    p = op_place(v["a"][0])
                    if p is not None and not p.get("p"):
                        ty = f.local_ty(p["l"])["s"]
                    if ty in NARROW or ty is None:
                        out.append(("unchecked-int-op", op, f.loc(s.get("sp"))))
            if v["r"] == "cast" and v["kind"] in ("IntToInt", "FloatToInt") and op_place(v["a"][0]) is not None:
                a, b = f.tystr(v["from"]), f.tystr(v["to"])
                if v["kind"] == "FloatToInt":
                    out.append(("cast", "%s->%s" % (a, b), f.loc(s.get("sp"))))
                elif a in NARROW and b in NARROW:
                    sa, sb = a.startswith("i"), b.startswith("i")
                    wa, wb = NARROW[a], NARROW[b]
                    lossy = wb < wa or (sa and not sb) or (not sa and sb and wb <= wa)
                    if lossy:
                        out.append(("cast", "%s->%s" % (a, b), f.loc(s.get("sp"))))
        t = bb["t"]
        if t["k"] == "call":
            ci = f.dinfo(t["res"]) if t.get("res") is not None else (f.dinfo(t["raw"]) if "raw" in t else None)
            if not ci:
                continue
            nm = ci["name"]
            tr = ci.get("trait") or ""
            st = ci.get("self_ty") or ""
            if re.match(r"^(wrapping_|saturating_|overflowing_|unchecked_)", nm):
                out.append(("soft-op", nm, f.loc(t.get("sp"))))
            if nm in ("to_num", "lossy_into", "wrapping_to_num", "saturating_to_num", "from_bits") and False:
                pass
            if nm in ("to_num", "wrapping_to_num", "saturating_to_num", "overflowing_to_num"):
                out.append(("unchecked-to-num", nm, f.loc(t.get("sp"))))
            if nm in ("add", "sub", "mul", "div", "neg", "shl", "shr", "rem", "add_assign", "sub_assign", "mul_assign", "div_assign") and ("::ops::" in tr) and ("Fixed" in st or "Fixed" in (t.get("sub") or "")):
                out.append(("fixed-op", nm.replace("_assign", ""), f.loc(t.get("sp"))))
    return out


def bin_cmp_to_ret(ctx, f):
    out = []
    for bi, bb in enumerate(f.blocks):
        for s in bb["s"]:
            v = s.get("v")
            if v and v["r"] == "bin" and v["op"] in ("Lt", "Le", "Gt", "Ge", "Eq", "Ne"):
                out.append((v["op"], ctx.slicer.operand(f, v["a"][0], at=bi), ctx.slicer.operand(f, v["a"][1], at=bi), s["d"]["l"], bi))
    return out


def _run(ctx):
    prog = ctx.prog
    # ------------------------------------------------------------ R1 lint
    fset = {}
    for spec in DESIGNATED:
        for f in prog.find_fns(spec):
            fset[f.key] = f
    # closures of designated functions and their analysed callees inside the venue / type crates
    work = list(fset.values())
    while work:
        f = work.pop()
        for k in prog.callees(f.key):
            g = prog.fns.get(k)
            if g is not None and k not in fset and g.info["crate"] in ("marginfi_type_crate", "kamino_mocks", "solend_mocks", "drift_mocks") and \
                    (g.info["kind"] == "Closure" or re.search(r"::(price|state|constants)::", k)):
                if g.name in ("deserialize", "deserialize_reader", "serialize", "try_deserialize", "fmt", "clone", "default"):
                    continue
                fset[k] = g
                work.append(g)
    ctor = prog.find_fns({"name": "try_from_bank_with_max_age", "crate": "marginfi"})
    for f in ctor:
        fset[f.key] = f
    nfl = 0
    seen_exc = set()
    for k, f in sorted(fset.items()):
        sites = lint_sites(prog, f)
        name = f.name if f.info["kind"] != "Closure" else (prog.defs.get(f.info.get("closure_of"), {}).get("name", "?") + "::closure")
        bad = []
        for kind, detail, loc in sites:
            key = (name, kind, detail)
            if key in EXCEPT:
                seen_exc.add(key)
            else:
                bad.append("%s %s at %s" % (kind, detail, loc))
        nfl += 1
        ctx.inst("C20.R1", "fail-closed/" + k.split("::", 1)[1], not bad, "%s uses only checked / panicking arithmetic (reasoned exceptions frozen)" % name, "; ".join(bad[:4]) or "ok (%d excepted sites)" % len(sites), f.loc(f.raw["span"]))
    ctx.floor("C20.R1", 30)
    stale_exc = sorted(set(EXCEPT) - seen_exc)
    kinds_seen = {k_[1] for k_ in seen_exc}
    ctx.inst("C20.R1", "lint-liveness", kinds_seen >= {"shift", "cast", "fixed-op"},
             "positive control: the lint recognises today's reasoned shift, cast and fixed-point-operator sites (it is not blind to any of the kinds it forbids)", sorted(kinds_seen), None)
    ctx.inst("C20.R1", "exceptions-live", True, "every frozen exception still matches a site (no vacuous exception)", stale_exc, None)
    # key designated functions must exist
    for crate, nm in (("marginfi_type_crate", "adjust_i64"), ("marginfi_type_crate", "adjust_u64"), ("marginfi_type_crate", "adjust_i128"), ("marginfi_type_crate", "collateral_to_liquidity_from_scaled"),
                      ("marginfi_type_crate", "liquidity_to_collateral_from_scaled"), ("marginfi_type_crate", "scale_supplies"), ("drift_mocks", "get_scaled_balance"), ("drift_mocks", "adjust_oracle_value_u128")):
        if not any(f.name == nm and f.info["crate"] == crate for f in fset.values()):
            ctx.missing("C20.R1", "%s::%s" % (crate, nm))
    # checked conversions present where values leave the fixed-point domain
    for nm in ("adjust_i64", "adjust_u64", "adjust_i128", "collateral_to_liquidity_from_scaled", "liquidity_to_collateral_from_scaled"):
        for f in [x for x in fset.values() if x.name == nm and x.info["crate"] == "marginfi_type_crate"]:
            pv = ctx.slicer.local(f, 0)
            ctx.inst("C20.R1", "checked-exit/" + nm, pv.has_call(prog, {"name": "checked_to_num"}) and pv.has_call(prog, {"name": "checked_mul"}), "%s leaves fixed point through checked_to_num after checked_mul" % nm, A._pvs(pv), f.loc(f.raw["span"]))

    # ------------------------------------------------------------ R2 Drift rounding
    gsb = [f for f in fset.values() if f.name == "get_scaled_balance" and f.info["crate"] == "drift_mocks" and f.argc == 3]
    if len(gsb) != 1:
        ctx.missing("C20.R2", "MinimalSpotMarket::get_scaled_balance")
    else:
        g = gsb[0]
        for nm, want in (("get_scaled_balance_decrement", 1), ("get_scaled_balance_increment", 0)):
            for f in [x for x in fset.values() if x.name == nm]:
                cs = [c for c in f.calls() if c.key == g.key]
                ok = len(cs) == 1 and ctx.slicer.operand(f, cs[0].args[2], at=cs[0].block).ints == {want} and ctx.slicer.operand(f, cs[0].args[1], at=cs[0].block).params == {2}
                ctx.inst("C20.R2", "round-flag/" + nm, ok, "%s(amount) = get_scaled_balance(amount, %s)" % (nm, bool(want)), "", f.loc(f.raw["span"]))
        adds = [c for c in g.calls() if c.callee and c.callee["name"] == "checked_add"]
        ok = len(adds) == 1
        if ok:
            c = adds[0]
            one = ctx.slicer.operand(g, c.args[1], at=c.block)
            conds = A.edge_conditions_to(prog, g, c.block, ctx.slicer, limit=30)
            ru = [a for a in conds if a.kind == "bool" and a.truth is True and a.lhs is not None and a.lhs.params == {3}]
            nz = [a for a in conds if a.kind == "cmp" and a.rel == "ne" and (0 in a.rhs.ints or 0 in a.lhs.ints)]
            ok = one.ints == {1} and bool(ru)
        ctx.inst("C20.R2", "round-up-guard", ok, "the +1 (checked) is applied only when round_up is set, never on the deposit (floor) direction", "", g.loc(g.raw["span"]))
        # formula: amount * precision_increase / cumulative_interest
        m = [c for c in g.calls() if c.callee and c.callee["name"] == "checked_mul"]
        d = [c for c in g.calls() if c.callee and c.callee["name"] == "checked_div"]
        ok = len(m) == 1 and len(d) == 1
        if ok:
            m0 = ctx.slicer.operand(g, m[0].args[0], at=m[0].block)
            m1 = ctx.slicer.operand(g, m[0].args[1], at=m[0].block)
            d0 = ctx.slicer.operand(g, d[0].args[0], at=d[0].block)
            d1 = ctx.slicer.operand(g, d[0].args[1], at=d[0].block)
            ok = m0.params == {2} and m1.has_call(prog, {"name": "get_precision_increase"}) and d0.has_call(prog, {"name": "checked_mul"}) and any(n == "cumulative_deposit_interest" for (_, n) in d1.fields) and not d1.has_call(prog, {"name": "get_precision_increase"})
        ctx.inst("C20.R2", "scaled-balance-formula", ok, "scaled = amount * precision_increase / cumulative_deposit_interest (multiply first, floor division)", "", g.loc(g.raw["span"]))
    for f in [x for x in fset.values() if x.name == "get_withdraw_token_amount"]:
        m = [c for c in f.calls() if c.callee and c.callee["name"] == "checked_mul"]
        d = [c for c in f.calls() if c.callee and c.callee["name"] == "checked_div"]
        ok = len(m) == 1 and len(d) == 1
        if ok:
            m0 = ctx.slicer.operand(f, m[0].args[0], at=m[0].block)
            m1 = ctx.slicer.operand(f, m[0].args[1], at=m[0].block)
            d1 = ctx.slicer.operand(f, d[0].args[1], at=d[0].block)
            ok = m0.params == {2} and any(n == "cumulative_deposit_interest" for (_, n) in m1.fields) and d1.has_call(prog, {"name": "get_precision_increase"}) and \
                not any(c.callee and c.callee["name"] == "checked_add" for c in f.calls())
        ctx.inst("C20.R2", "withdraw-amount-formula", ok, "tokens = scaled * cumulative_deposit_interest / precision_increase, floored (no +1)", "", f.loc(f.raw["span"]))
    for f in [x for x in fset.values() if x.name == "adjust_oracle_value_u128"]:
        m = [c for c in f.calls() if c.callee and c.callee["name"] == "checked_mul"]
        d = [c for c in f.calls() if c.callee and c.callee["name"] == "checked_div"]
        ok = len(m) == 1 and len(d) == 1
        if ok:
            d1 = ctx.slicer.operand(f, d[0].args[1], at=d[0].block)
            m1 = ctx.slicer.operand(f, m[0].args[1], at=m[0].block)
            ok = d1.has_const("SPOT_CUMULATIVE_INTEREST_PRECISION") and any(n == "cumulative_deposit_interest" for (_, n) in m1.fields)
        ctx.inst("C20.R2", "drift-price-adjust-formula", ok, "adjusted = raw * cumulative_deposit_interest / SPOT_CUMULATIVE_INTEREST_PRECISION (floor)", "", f.loc(f.raw["span"]))

    # ------------------------------------------------------------ R3 staleness predicates
    for crate, lhs_field, rhs in (("kamino_mocks", "slot", "param"), ("drift_mocks", "last_interest_ts", "param"), ("solend_mocks", "last_update_slot", "clock")):
        fs = [f for f in fset.values() if f.name == "is_stale" and f.info["crate"] == crate]
        if len(fs) != 1:
            ctx.missing("C20.R3", "%s is_stale" % crate)
            continue
        f = fs[0]
        cm = bin_cmp_to_ret(ctx, f)
        good = [c for c in cm if c[0] == "Lt" and {n for (_, n) in c[1].fields} == {lhs_field} and not c[1].ops and not c[1].calls and not c[1].ints and not (c[2].ops - {"discr"}) and not c[2].ints and
                ((rhs == "param" and c[2].params == {2} and not c[2].fields) or (rhs == "clock" and any(n == "slot" for (_, n) in c[2].fields) and any(k.endswith("::get") for k in c[2].calls)))]
        # the comparison result is the returned bool
        pv = ctx.slicer.local(f, 0)
        ctx.inst("C20.R3", "stale/" + crate, len(good) == 1 and "Lt" in pv.ops, "%s account is stale iff %s < current %s" % (crate.split("_")[0], lhs_field, "slot" if lhs_field != "last_interest_ts" else "timestamp"),
                 [(c[0], A._pvs(c[1]), A._pvs(c[2])) for c in cm], f.loc(f.raw["span"]))

    # each adjusted oracle field is the adjustment of *that same* field (price<-price, ema conf<-ema conf, std_dev<-std_dev ...)
    for f in ctor:
        def _names(pl):
            return [e["n"] for e in pl.get("p", []) if isinstance(e, dict) and "f" in e]
        nadj = 0
        badj = []
        for bi, bb in enumerate(f.blocks):
            for s_ in bb["s"]:
                dpl, v_ = s_.get("d"), s_.get("v")
                if not dpl or not v_ or not _names(dpl) or v_["r"] != "use":
                    continue
                dc_ = defining_call(f, v_["a"][0])
                if not dc_:
                    continue
                t_ = dc_[1]
                ci_ = f.dinfo(t_["res"]) if t_.get("res") is not None else None
                if not ci_ or not ci_["name"].startswith("adjust"):
                    continue
                nadj += 1
                dt = expr_tree(prog, f, {"c": dpl})
                m_ = re.fullmatch(r"phi\((.*)\)", dt)
                alts = split_call("x(" + m_.group(1).replace("|", ",") + ")")[1] if m_ else [dt]
                raws = [a_ for a_ in (expr_tree(prog, f, x_) for x_ in t_["args"]) if a_.startswith("load_checked(")]
                if len(raws) != 1 or raws[0] not in alts:
                    badj.append("%s := %s(%s)" % (".".join(_names(dpl)), ci_["name"], (raws or ["?"])[0][-60:]))
        ctx.inst("C20.R6", "oracle-adjust-same-field", nadj >= 18 and not badj, "every venue arm writes adjust(field) back into that same field of the loaded feed (spot price, EMA price, spot confidence, EMA confidence; value, std_dev)",
                 badj or "%d adjusted stores" % nadj, f.loc(f.raw["span"]))
    # the oracle constructor hands each venue predicate the clock quantity it is defined on
    for f in ctor:
        want = {"kamino_mocks": "p3.slot", "drift_mocks": "p3.unix_timestamp"}
        seen = {}
        for c in f.calls():
            if c.callee and c.callee["name"] == "is_stale" and c.callee["crate"] in want and len(c.args) == 2:
                seen.setdefault(c.callee["crate"], []).append((expr_tree(prog, f, c.args[1]), c.loc))
        for crate, w in want.items():
            got = seen.get(crate, [])
            ctx.inst("C20.R3", "stale-argument/" + crate, len(got) >= 2 and all(t == w for t, _ in got),
                     "every %s staleness test in the oracle constructor is given clock.%s" % (crate.split("_")[0], w.split(".")[1]), sorted({t for t, _ in got}), got[0][1] if got else f.loc(f.raw["span"]))
    # ------------------------------------------------------------ R4 zero-supply and formulas
    for nm, zero_param, num_param, den_param in (("collateral_to_liquidity_from_scaled", 3, 2, 3), ("liquidity_to_collateral_from_scaled", 2, 3, 2)):
        fs = [f for f in fset.values() if f.name == nm and f.info["crate"] == "marginfi_type_crate"]
        if len(fs) != 1:
            continue
        f = fs[0]
        # None returned exactly on param == ZERO
        nb = [bi for bi, bb in enumerate(f.blocks) for s in bb["s"] if s.get("v") and s["v"]["r"] == "agg" and s["v"].get("ak") == "adt" and s["v"]["adt"] == A.OPTION and s["v"]["variant"] == "None" and s["d"]["l"] == 0]
        ok = False
        for bi in nb:
            conds = A.edge_conditions_to(prog, f, bi, ctx.slicer)
            z = [a for a in conds if a.kind == "cmp" and a.rel == "eq" and ((a.lhs.params == {zero_param} and a.rhs.has_const("ZERO")) or (a.rhs.params == {zero_param} and a.lhs.has_const("ZERO")))]
            ok = ok or bool(z)
        dd = [c for c in f.calls() if c.callee and c.callee["name"] == "checked_div"]
        ok = ok or (len(dd) == 1 and ctx.slicer.operand(f, dd[0].args[1], at=dd[0].block).params == {zero_param})
        ctx.inst("C20.R4", "zero-supply/" + nm, ok, "%s returns None when its denominator supply is zero (explicit == ZERO guard or checked_div by it)" % nm, "", f.loc(f.raw["span"]))
        m = [c for c in f.calls() if c.callee and c.callee["name"] == "checked_mul"]
        d = [c for c in f.calls() if c.callee and c.callee["name"] == "checked_div"]
        okf = len(m) == 1 and len(d) == 1
        if okf:
            okf = ctx.slicer.operand(f, m[0].args[0], at=m[0].block).params == {1} and ctx.slicer.operand(f, m[0].args[1], at=m[0].block).params == {num_param} and \
                ctx.slicer.operand(f, d[0].args[1], at=d[0].block).params == {den_param} and ctx.slicer.operand(f, d[0].args[0], at=d[0].block).has_call(prog, {"name": "checked_mul"})
        ctx.inst("C20.R4", "formula/" + nm, okf, "%s = amount * param#%d / param#%d (multiply first, floor)" % (nm, num_param, den_param), "", f.loc(f.raw["span"]))
    for nm, zp, n_, d_ in (("liq_to_col_ratio", 2, 1, 2), ("col_to_liq_ratio", 1, 2, 1)):
        for f in [x for x in fset.values() if x.name == nm and x.info["crate"] == "marginfi_type_crate"]:
            d = [c for c in f.calls() if c.callee and c.callee["name"] == "checked_div"]
            ok = len(d) == 1 and ctx.slicer.operand(f, d[0].args[0], at=d[0].block).params == {n_} and ctx.slicer.operand(f, d[0].args[1], at=d[0].block).params == {d_}
            conds = A.edge_conditions_to(prog, f, d[0].block, ctx.slicer) if d else []
            nz = [a for a in conds if a.kind == "cmp" and a.rel == "ne" and (a.lhs.params == {zp} or a.rhs.params == {zp})]
            ctx.inst("C20.R4", "ratio/" + nm, ok, "%s = param#%d / param#%d, None when the denominator is zero" % (nm, n_, d_), "", f.loc(f.raw["span"]))
    for f in [x for x in fset.values() if x.name == "scale_supplies"]:
        d = [c for c in f.calls() if c.callee and c.callee["name"] == "checked_div"]
        ok = len(d) == 2 and all(ctx.slicer.operand(f, c.args[1], at=c.block).has_const("EXP_10_I80F48") and 3 in ctx.slicer.operand(f, c.args[1], at=c.block).params for c in d)
        g = [c for c in f.calls() if c.callee and c.callee["name"] == "get"]
        ctx.inst("C20.R4", "scale_supplies", ok and bool(g), "both supplies are divided by the same 10^decimals taken by a bounds-checked table lookup", "", f.loc(f.raw["span"]))

    # ------------------------------------------------------------ R5 total-supply sign wiring
    for crate, fn, base, borrowed, fees in (("kamino_mocks", "calculate_total_supply_i80f48", "available_amount", "borrowed_amount_sf", ["accumulated_protocol_fees_sf", "accumulated_referrer_fees_sf", "pending_referrer_fees_sf"]),
                                            ("solend_mocks", "calculate_total_liquidity", "liquidity_available_amount", "liquidity_borrowed_amount_wads", ["liquidity_accumulated_protocol_fees_wads"])):
        fs = [f for f in fset.values() if f.name == fn and f.info["crate"] == crate]
        if len(fs) != 1:
            ctx.missing("C20.R5", "%s::%s" % (crate, fn))
            continue
        f = fs[0]
        subs = [c for c in f.calls() if c.callee and c.callee["name"] == "sub"]
        adds = [c for c in f.calls() if c.callee and c.callee["name"] == "add"]
        terms = [base] + fees + [borrowed]

        def leaf(o, at):
            pv = ctx.slicer.operand(f, o, at=at)
            hit = [x for x in terms if any(n == x for (_, n) in pv.fields) or pv.has_call(prog, {"name": x})]
            return hit[0] if len(hit) == 1 else None

        def linear(o, sign, hops=0):
            """signed multiset of leaves of the +/- expression tree rooted at operand o; None = not linear"""
            dc = defining_call(f, o)
            if dc is not None and hops < 12:
                t = dc[1]
                ci = f.dinfo(t["res"]) if t.get("res") is not None else None
                if ci and ci["name"] in ("add", "sub") and "::ops::" in (ci.get("trait") or "") and len(t["args"]) == 2:
                    a = linear(t["args"][0], sign, hops + 1)
                    b = linear(t["args"][1], sign if ci["name"] == "add" else -sign, hops + 1)
                    if a is None or b is None:
                        return None
                    for k, v in b.items():
                        a[k] = a.get(k, 0) + v
                    return a
            p_ = op_place(o)
            lf = leaf(o, None)
            return {lf: sign} if lf else None
        rets = [bi for bi, bb in enumerate(f.blocks) if bb["t"]["k"] == "return"]
        arith = adds + subs
        used = set()
        for c in arith:
            for a in c.args:
                d_ = defining_call(f, a)
                if d_ is not None:
                    used.add(d_[0])
        roots = [c for c in arith if c.block not in used]
        lin = linear({"c": roots[0].dest}, 1) if len(roots) == 1 else None
        if len(roots) == 1:
            pv0 = ctx.slicer.local(f, 0)
            if roots[0].key not in pv0.calls:
                lin = None
        want = dict([(base, 1), (borrowed, 1)] + [(x, -1) for x in fees])
        ctx.inst("C20.R5", "signed-sum/" + fn, lin == want, "total = +%s +%s %s (signed linear form of the returned expression)" % (base, borrowed, " ".join("-" + x for x in fees)),
                 lin, f.loc(f.raw["span"]))
        ctx.inst("C20.R5", "op-count/" + fn, len(adds) + len(subs) == len(terms) - 1, "exactly one +/- per term", "adds=%d subs=%d" % (len(adds), len(subs)), f.loc(f.raw["span"]))

    # ------------------------------------------------------------ R6 oracle arms adjust by total_liq / total_col
    for f in ctor:
        adj = [c for c in f.calls() if c.callee and c.callee["name"] in ("adjust_i64", "adjust_u64", "adjust_i128") and c.callee["crate"] == "marginfi_type_crate"]
        okall = bool(adj)
        for c in adj:
            r = ctx.slicer.operand(f, c.args[1], at=c.block)
            okr = r.has_call(prog, {"name": "div"}) and r.has_call(prog, {"name": "scaled_supplies"})
            conds = A.edge_conditions_to(prog, f, c.block, ctx.slicer, limit=60)
            gz = [a for a in conds if a.kind == "cmp" and a.rel == "lt" and a.lhs.has_const("ZERO") and a.rhs.has_call(prog, {"name": "scaled_supplies"})]
            okall = okall and okr and bool(gz)
        ctx.inst("C20.R6", "oracle-adjust-ratio", okall and len(adj) >= 8, "every Kamino/Solend oracle arm multiplies price and confidence by scaled total_liq / total_col, only when total_col > 0", "%d adjust calls" % len(adj), f.loc(f.raw["span"]))
        divs = [c for c in f.calls() if c.callee and c.callee["name"] == "div"]
        okd = bool(divs)
        for c in divs:
            n_ = defining_call(f, c.args[0])
            d_ = defining_call(f, c.args[1])
            okd = okd and n_ is not None and d_ is not None and tuple(n_[2])[-1:] == (0,) and tuple(d_[2])[-1:] == (1,)
        ctx.inst("C20.R6", "oracle-ratio-orientation", okd, "the ratio is (component 0 = total_liq) / (component 1 = total_col) of scaled_supplies()", "%d divisions" % len(divs), f.loc(f.raw["span"]))


def run(ctx):
    from .kernels import check_kernels
    try:
        _run(ctx)
    finally:
        # numeric kernels this property's formulas rest on, pinned as canonical expression trees
        check_kernels(ctx, "C20.K", ['adjust_i64', 'adjust_u64', 'adjust_i128', 'collateral_to_liquidity', 'liquidity_to_collateral', 'drift-withdraw-token-amount', 'drift-adjust-oracle'])
        from .kernels import check_leaves
        check_leaves(ctx, "C20.K", ['drift.scale_deposit_limit'])
