"""A11 — units of measure (dimension) analysis over expression trees.

Every I80F48 / u64 quantity of the share ledger has a dimension over four base units: asset shares (Sa), liability shares
(Sl), native tokens (T) and dollars (U).  Share values are T/Sa and T/Sl, prices U/T.  The dimensions of the *leaves* are
fixed by the on-chain layout (state field names) and by the converter API (get_asset_amount: Sa -> T, ...); everything else
(parameters, locals, results of other calls) is inferred by unification: operands of + - min max < <= == must agree,
products and quotients add / subtract exponents.  A function in which no consistent assignment exists mixes units
(`bank.change_asset_shares(-amount)`, `loss_amount >= total_asset_shares`, `calc_value(total_asset_shares, ..)`): that is
wrong for every state in which the share value differs from 1, i.e. after any interest accrual or socialised loss - exactly
the histories unit tests on fresh state never reach.  Constants are dimension-polymorphic; anything whose dimension cannot be
inferred is left unconstrained, so the analysis reports only definite conflicts.
"""
import re
from engine import analysis as A
from .common import expr_tree, mk_call, call_tree, rvalue_tree, split_call

PROPS = ("C02", "C03", "C04", "C05", "C06", "C07", "C15", "C17", "C19", "C20")
SA, SL, T, U, SEC, SLOT = (1, 0, 0, 0, 0, 0), (0, 1, 0, 0, 0, 0), (0, 0, 1, 0, 0, 0), (0, 0, 0, 1, 0, 0), (0, 0, 0, 0, 1, 0), (0, 0, 0, 0, 0, 1)
ONE = (0, 0, 0, 0, 0, 0)
NDIM = 6
WILD = "wild"


def umul(a, b):
    return tuple(x + y for x, y in zip(a, b))


def udiv(a, b):
    return tuple(x - y for x, y in zip(a, b))


def ustr(u):
    if u is None:
        return "?"
    if u == WILD:
        return "const"
    if isinstance(u, tuple) and u and u[0] == "var":
        return "unit(%s)" % u[1]
    names = ("asset-shares", "liability-shares", "tokens", "usd", "seconds", "slots")
    num = [n if e == 1 else "%s^%d" % (n, e) for n, e in zip(names, u) if e > 0]
    den = [n if e == -1 else "%s^%d" % (n, -e) for n, e in zip(names, u) if e < 0]
    s = "*".join(num) or "1"
    return s + ("/" + "/".join(den) if den else "")


FIELD_UNITS = {
    "total_asset_shares": SA, "asset_shares": SA, "total_liability_shares": SL, "liability_shares": SL,
    "asset_share_value": udiv(T, SA), "liability_share_value": udiv(T, SL),
    "deposit_limit": T, "borrow_limit": T, "total_asset_value_init_limit": U,
    "collected_insurance_fees_outstanding": T, "collected_group_fees_outstanding": T, "collected_program_fees_outstanding": T,
    # time: unix seconds vs slots (venue staleness, pause windows)
    "unix_timestamp": SEC, "slot": SLOT, "pause_start_timestamp": SEC, "last_daily_reset_timestamp": SEC, "last_cache_update": SEC,
}
# name -> ([unit of each non-self argument or None], result unit or None); first argument is `self` where marked
SIGS = {
    "get_asset_amount": (True, [SA], T), "get_liability_amount": (True, [SL], T),
    "get_asset_shares": (True, [T], SA), "get_liability_shares": (True, [T], SL),
    "change_asset_shares": (True, [SA], None), "change_liability_shares": (True, [SL], None),
    "calc_value": (False, [T, udiv(U, T), None, None], U), "calc_amount": (False, [U, udiv(U, T), None], T),
}
SAME = {"abs", "neg", "checked_neg", "checked_floor", "checked_ceil", "checked_round", "floor", "ceil", "round", "int", "frac", "checked_to_num", "to_num", "from_num",
        "from", "into", "try_from", "try_into", "unwrap", "expect", "unwrap_or_default", "clone", "deref", "ok_or", "ok_or_else", "map_err", "wrapping_neg", "saturating_neg", "not_used"}
UNIFY = {"checked_add", "checked_sub", "add", "sub", "saturating_add", "saturating_sub", "wrapping_add", "wrapping_sub", "min", "max", "lt", "le", "gt", "ge", "eq", "ne",
         "addwithoverflow", "subwithoverflow", "add_assign", "sub_assign", "cmp", "partial_cmp"}
BOOL = {"lt", "le", "gt", "ge", "eq", "ne", "cmp", "partial_cmp"}
MUL = {"checked_mul", "mul", "saturating_mul", "mulwithoverflow", "wrapping_mul"}
DIV = {"checked_div", "div", "checked_rem", "rem"}


# ------------------------------------------------------------------------------------------------ tree parser

class Node:
    __slots__ = ("kind", "name", "args", "sfx", "text")

    def __init__(self, kind, name=None, args=(), sfx=(), text=""):
        self.kind, self.name, self.args, self.sfx, self.text = kind, name, list(args), list(sfx), text


def _split_top(s, sep):
    out, cur, d = [], "", 0
    for ch in s:
        if ch in "({[":
            d += 1
        elif ch in ")}]":
            d -= 1
        if ch == sep and d == 0:
            out.append(cur)
            cur = ""
        else:
            cur += ch
    out.append(cur)
    return out


_NAME = re.compile(r"[A-Za-z_?][\w:?]*|-?\d+|\.\.\.")


def parse(s):
    s = s.strip()
    try:
        n, i = _parse(s, 0)
        if i != len(s):
            return Node("opaque", text=s)
        return n
    except Exception:
        return Node("opaque", text=s)


def _match_close(s, i):
    """s[i] is an opening bracket; index of its partner"""
    d = 0
    for j in range(i, len(s)):
        if s[j] in "({[":
            d += 1
        elif s[j] in ")}]":
            d -= 1
            if d == 0:
                return j
    raise ValueError("unbalanced")


def _parse(s, i):
    m = _NAME.match(s, i)
    if not m:
        raise ValueError("no atom at %d" % i)
    name = m.group(0)
    j = m.end()
    node = None
    if j < len(s) and s[j] in "({":
        k = _match_close(s, j)
        inner = s[j + 1:k]
        if name == "phi" and s[j] == "(":
            node = Node("phi", "phi", [parse(x) for x in _split_top(inner, "|")])
        else:
            parts = [x for x in _split_top(inner, ",")] if inner != "" else []
            node = Node("call" if s[j] == "(" else "agg", name, [parse(x) for x in parts])
        j = k + 1
    else:
        node = Node("num" if re.fullmatch(r"-?\d+", name) else "leaf", name)
    # suffixes
    while j < len(s) and s[j] in ".[@":
        if s[j] == ".":
            m2 = re.compile(r"[\w]+").match(s, j + 1)
            if not m2:
                break
            node.sfx.append(m2.group(0))
            j = m2.end()
        elif s[j] == "[":
            k = _match_close(s, j)
            node.sfx.append("[]")
            j = k + 1
        else:
            m2 = re.compile(r"[\w:]+").match(s, j + 1)
            node.sfx.append("@")
            j = m2.end() if m2 else j + 1
    node.text = s[i:j]
    return node, j


# ------------------------------------------------------------------------------------------------ inference

class Env:
    def __init__(self):
        self.parent = {}
        self.bound = {}         # root var -> concrete unit
        self.why = {}           # root var -> text of the expression that bound it
        self.conflicts = []     # (site text, unit a, unit b, why a, why b)
        self.nleaves = 0

    def find(self, v):
        while self.parent.get(v, v) != v:
            v = self.parent[v]
        return v

    def resolve(self, u):
        if isinstance(u, tuple) and u and u[0] == "var":
            r = self.find(u[1])
            if r in self.bound:
                return self.bound[r]
            return ("var", r)
        return u

    def unify(self, a, b, site, wa="", wb=""):
        a, b = self.resolve(a), self.resolve(b)
        if a is None or b is None or a == WILD or b == WILD:
            return a if (b is None or b == WILD) and a not in (None,) else (b if a in (None, WILD) else a)
        va = isinstance(a, tuple) and a and a[0] == "var"
        vb = isinstance(b, tuple) and b and b[0] == "var"
        if va and vb:
            if a[1] != b[1]:
                self.parent[a[1]] = b[1]
            return b
        if va:
            self.bound[a[1]] = b
            self.why[a[1]] = site
            return b
        if vb:
            self.bound[b[1]] = a
            self.why[b[1]] = site
            return a
        if a != b:
            self.conflicts.append((site, a, b, wa, wb))
            return None
        return a


def _concrete(u):
    return isinstance(u, tuple) and len(u) == NDIM and not (u and u[0] == "var")


def unit_of(n, env, memo):
    key = n.text
    if key in memo:
        return env.resolve(memo[key])
    u = _unit_of(n, env, memo)
    memo[key] = u
    return u


def _why(env, n, u):
    if isinstance(u, tuple) and u and u[0] == "var":
        return ""
    return n.text[:120]


def _unit_of(n, env, memo):
    if n.kind in ("opaque",):
        return None
    if n.kind == "num":
        return WILD
    if n.sfx:
        last = [x for x in n.sfx if x not in ("[]", "@")]
        if "@" in n.sfx:
            # discr(..)@Tag: evaluate the inside for its constraints, result is a discriminant
            for a in n.args:
                unit_of(a, env, memo)
            return None
        if last and last[-1] in FIELD_UNITS and n.sfx[-1] == last[-1]:
            env.nleaves += 1
            for a in n.args:
                unit_of(a, env, memo)
            return FIELD_UNITS[last[-1]]
        if n.kind == "leaf" and re.fullmatch(r"[pa]\d+", n.name or ""):
            return ("var", n.text)
        for a in n.args:
            unit_of(a, env, memo)
        return None
    if n.kind == "leaf":
        if re.fullmatch(r"[pa]\d+", n.name):
            return ("var", n.name)
        if n.name in ("ZERO", "ONE", "const", "promoted", "MAX", "MIN") or n.name.isupper() or re.fullmatch(r"[A-Z0-9_]+", n.name):
            return WILD
        return None
    if n.kind == "phi":
        # a value selected among alternatives (match / if): the alternatives may legitimately differ in dimension when the result is only
        # compared with constants (Balance::is_empty picks the asset or the liability shares by side), so a phi never raises a conflict by
        # itself; it has a dimension only when all alternatives agree
        us = [env.resolve(unit_of(a, env, memo)) for a in n.args]
        conc = [u for u in us if u != WILD]
        if conc and all(_concrete(u) for u in conc) and len(set(conc)) == 1:
            return conc[0]
        if not conc:
            return WILD
        return None
    if n.kind == "agg":
        nm = n.name.split("::")[-1]
        if nm in ("Ok", "Some", "Continue") and len(n.args) == 1:
            return unit_of(n.args[0], env, memo)
        for a in n.args:
            unit_of(a, env, memo)
        return None
    # call
    nm = n.name
    args = n.args
    if nm in SIGS:
        has_self, au, ru = SIGS[nm]
        rest = args[1:] if has_self else args
        for a, want in zip(rest, au):
            ua = unit_of(a, env, memo)
            if want is not None:
                env.unify(ua, want, "argument of %s: %s" % (nm, a.text[:140]), _why(env, a, ua), "%s takes %s" % (nm, ustr(want)))
        if has_self and args:
            unit_of(args[0], env, memo)
        for a in rest[len(au):]:
            unit_of(a, env, memo)
        return ru
    if nm in SAME and args:
        u = unit_of(args[0], env, memo)
        for a in args[1:]:
            unit_of(a, env, memo)
        return u
    if nm in UNIFY and len(args) >= 2:
        u = unit_of(args[0], env, memo)
        for a in args[1:]:
            ua = unit_of(a, env, memo)
            u = env.unify(u, ua, "%s(%s)" % (nm, ",".join(x.text[:90] for x in args)), _why(env, args[0], u), _why(env, a, ua))
        return None if nm in BOOL else u
    if nm in MUL and len(args) >= 2:
        us = [env.resolve(unit_of(a, env, memo)) for a in args]
        conc = [u for u in us if _concrete(u)]
        if len(conc) + sum(1 for u in us if u == WILD) == len(us) and conc:
            r = ONE
            for u in conc:
                r = umul(r, u)
            return r
        if all(u == WILD for u in us):
            return WILD
        return None
    if nm in DIV and len(args) == 2:
        a, b = [env.resolve(unit_of(x, env, memo)) for x in args]
        if _concrete(a) and _concrete(b):
            return udiv(a, b)
        if _concrete(a) and b == WILD:
            return a
        if a == WILD and b == WILD:
            return WILD
        return None
    for a in args:
        unit_of(a, env, memo)
    return None


def _skip(k):
    return ("::tests::" in k or k.startswith("marginfi::__private") or k.startswith("marginfi::instruction::") or "__client_accounts" in k or "__cpi_client_accounts" in k
            or "::events::" in k)


PARAM_UNITS = {}       # id(prog) -> {fn key: {param index: concrete unit}} (inferred from each body in a first pass)


def param_units(prog):
    """first pass: the dimension each function's own body forces on its parameters (e.g. socialize_loss(loss_amount: tokens),
    is_stale(slot: slots)); used as that function's signature at its call sites in the second pass"""
    key = id(prog)
    if key in PARAM_UNITS:
        return PARAM_UNITS[key]
    PARAM_UNITS[key] = {}
    out = {}
    for f in scope(prog):
        try:
            env = analyse_fn(prog, f)
        except Exception:
            continue
        if env.conflicts:
            continue          # an inconsistent body defines no signature (its own conflict is reported)
        pu = {}
        for i in range(1, f.argc + 1):
            u = env.resolve(("var", "p%d" % i))
            if _concrete(u):
                pu[i] = u
        if pu:
            out[f.key] = pu
    PARAM_UNITS[key] = out
    return out


def analyse_fn(prog, f, sigs=None):
    """Env after collecting the constraints of every call / arithmetic / store site of f"""
    env = Env()
    memo = {}
    for bi, bb in enumerate(f.blocks):
        if bb.get("cleanup"):
            continue
        for s in bb["s"]:
            v = s.get("v")
            if not v or "d" not in s:
                continue
            if v["r"] == "bin":
                try:
                    unit_of(parse(rvalue_tree(prog, f, v)), env, memo)
                except RecursionError:
                    pass
            # store to a unit-carrying state field
            fl = [e for e in (s["d"].get("p") or []) if isinstance(e, dict) and "f" in e]
            if fl and fl[-1].get("n") in FIELD_UNITS and not [e for e in s["d"]["p"][s["d"]["p"].index(fl[-1]) + 1:] if isinstance(e, dict) and ("f" in e or "i" in e or "ci" in e)]:
                try:
                    tr = rvalue_tree(prog, f, v)
                    u = unit_of(parse(tr), env, memo)
                    env.nleaves += 1
                    env.unify(u, FIELD_UNITS[fl[-1]["n"]], "store to %s := %s" % (fl[-1]["n"], tr[:160]), tr[:120], "%s is %s" % (fl[-1]["n"], ustr(FIELD_UNITS[fl[-1]["n"]])))
                except RecursionError:
                    pass
        t = bb["t"]
        if t["k"] == "call":
            ci = f.dinfo(t["res"]) if t.get("res") is not None else (f.dinfo(t["raw"]) if "raw" in t else None)
            nm = ci["name"] if ci else None
            if sigs and ci and ci["key"] in sigs and ci["key"] != f.key and nm not in SIGS:
                for i, want in sigs[ci["key"]].items():
                    if i - 1 < len(t["args"]):
                        try:
                            tr = expr_tree(prog, f, t["args"][i - 1])
                            ua = unit_of(parse(tr), env, memo)
                            env.unify(ua, want, "argument %d of %s: %s" % (i, nm, tr[:140]), tr[:120], "%s uses its parameter %d as %s" % (nm, i, ustr(want)))
                        except RecursionError:
                            pass
            if nm is None or not (nm in SIGS or nm in UNIFY or nm in MUL or nm in DIV):
                continue
            try:
                args = [expr_tree(prog, f, a) for a in t["args"]]
                unit_of(parse(call_tree(f, t, nm, args)), env, memo)
            except RecursionError:
                pass
    return env


def scope(prog):
    for k in sorted(prog.fns):
        f = prog.fns[k]
        if f.info["crate"] not in ("marginfi", "marginfi_type_crate", "kamino_mocks", "drift_mocks", "solend_mocks") or _skip(k):
            continue
        if f.info["crate"].endswith("_mocks") and ("::cpi::" in k or "::internal::" in k or "::instruction::" in k or "::accounts::" in k or "::client::" in k):
            continue
        yield f


# which property a unit conflict in a function is charged to (first match); conflicts at a bank/balance share *changer* argument are C02's
ATTR = [
    (r"socialize_loss|handle_bankruptcy", "C07"),
    (r"maybe_get_asset_weight_init_discount|calc_weighted|RiskEngine|get_account_health|risk_engine|BankAccountWithPriceFeed", "C04"),
    (r"lending_account_liquidate", "C05"),
    (r"accrue_interest|calc_interest|interest_rate", "C06"),
    (r"get_remaining_deposit_capacity|check_utilization_ratio|\{impl#\d+\}::change_(asset|liability)_shares$", "C17"),
    (r"collect_bank_fees|emissions", "C19"),
    (r"_mocks::|::price::|is_stale|staleness", "C20"),
    (r"panic_state|PanicState|panic_pause|panic_unpause", "C15"),
]


def owner_of(f, conflict=None):
    if conflict is not None and re.match(r"argument of change_(asset|liability)_shares", conflict[0]):
        return "C02"
    for rx, p in ATTR:
        if re.search(rx, f.key):
            return p
    return "C03"


def check_units(ctx, pid):
    """rule <pid>.U: no function charged to this property mixes units"""
    prog = ctx.prog
    n = 0
    # liveness: the matcher must report a definite conflict on a tiny positive example, and stay silent on its consistent twin
    e1, e2 = Env(), Env()
    unit_of(parse("le(p1.total_asset_shares,checked_mul(p1.asset_share_value,p1.total_asset_shares))"), e1, {})
    unit_of(parse("le(p2,checked_mul(p1.asset_share_value,p1.total_asset_shares))"), e2, {})
    unit_of(parse("checked_sub(p1.total_asset_shares,p2)"), e2, {})
    e3 = Env()
    unit_of(parse("le(get_asset_amount(p1,p1.total_asset_shares),checked_mul(p1.asset_share_value,p1.total_asset_shares))"), e3, {})
    ctx.inst(pid + ".U", "units/self-test", len(e1.conflicts) == 1 and len(e2.conflicts) == 1 and not e3.conflicts,
             "the dimension checker reports shares compared with tokens (directly and through an inferred parameter) and accepts the converted form",
             "direct=%d inferred=%d consistent=%d" % (len(e1.conflicts), len(e2.conflicts), len(e3.conflicts)), None)
    ctx.floor(pid + ".U", 2)
    sigs = param_units(prog)
    for f in scope(prog):
        try:
            env = analyse_fn(prog, f, sigs)
        except Exception as e:      # a tree the parser / resolver cannot handle is no verdict
            continue
        if not env.nleaves and not env.conflicts:
            continue
        short = re.sub(r"\{impl#\d+\}::", "", f.key.split("::", 1)[1] if "::" in f.key else f.key)
        if f.info["crate"] != "marginfi":
            short = f.info["crate"] + "::" + short
        confl = env.conflicts
        mine = [c for c in confl if owner_of(f, c) == pid]
        base_owner = owner_of(f)
        if pid == "C02" and base_owner == "C03" and any(c.callee and c.callee["name"] in ("change_asset_shares", "change_liability_shares") for c in f.calls()):
            base_owner = "C02"      # the functions that move bank totals and positions together are C02's as well
        if not mine and base_owner != pid:
            continue
        if not mine and confl:
            continue          # its conflicts are all charged elsewhere
        n += 1
        ok = not mine
        found = "ok (%d unit-carrying leaves)" % env.nleaves
        if mine:
            c = mine[0]
            found = "%s mixes %s [%s] with %s [%s]" % (c[0], ustr(c[1]), c[3], ustr(c[2]), c[4])
        ctx.inst(pid + ".U", "units/" + short, ok, "%s is dimensionally consistent: asset shares, liability shares, tokens and dollars are only combined through the share-value converters" % f.name,
                 found, f.loc(f.raw["span"]))
    return n
