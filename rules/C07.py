"""C07 Bankruptcy (structural clauses only)."""
import re
from engine import analysis as A, fde
from engine.model import op_place
from .common import *

INFO = {
    "explanation": "Decided statically: (R1) the admin/risk-admin comparison leading to Unauthorized is skipped only over the "
                   "bank's PERMISSIONLESS_BAD_DEBT_SETTLEMENT_FLAG edge, signer is a Signer; (R2) eligibility: the bankrupt test "
                   "(Equity requirement) is on every successful path and checked, its three atoms assets>=liabs, assets>=BANKRUPT_THRESHOLD "
                   "(0.1), liabs<=ZERO_AMOUNT_THRESHOLD, the flash-loan refusal, the Equity row of the collateral valuation table, "
                   "BalanceNotBadDebt atom, balance selected by bank key, account constraints; (R3) cover wiring: covered = min(bad debt, "
                   "available insurance), socialized = max(bad debt - covered, 0), transfer = ceil(covered) from the insurance vault to the "
                   "liquidity vault signed with Insurance seeds, the repay leg uses the bad debt, the socialization receives the remainder; "
                   "(R4) socialize: share value zero and kill exactly on total_value <= loss, otherwise (total-loss)/shares; the handler "
                   "stores KilledByBankruptcy only under the kill result and disables the account on every successful path; (R5) the killed "
                   "state is terminal: writers of operational_state are a frozen set and the configure path refuses both setting and leaving it. "
                   "Not decided: pro-rata exactness over depositor distributions, transfer-fee arithmetic of the cover.",
    "assumptions": ["SPL token transfer semantics", "numeric exactness is out of scope"],
}
HB = "lending_pool_handle_bankruptcy"
OPSTATE = "marginfi_type_crate::types::bank::BankOperationalState"


def run(ctx):
    prog = ctx.prog
    try:
        ix = ctx.ix("C07.R1", HB)
    except Exception:
        return
    h = ix["handlers"][0]
    st = ix["struct"]
    skey = st.key
    # ------------------------------------------------------------ R1 authority
    ev = A.error_variant_blocks(h, "Unauthorized")
    atoms = A.guard_atoms(prog, h, ev, ctx.slicer) if ev else []
    conds = A.edge_conditions_to(prog, h, ev[0], ctx.slicer) if ev else []
    keycmp = [a for a in atoms + conds if a.kind == "cmp" and a.rel in ("ne", "eq")]
    has_risk = any((a.lhs.has_field(GROUP, "risk_admin") or a.rhs.has_field(GROUP, "risk_admin")) and (a.lhs.has_field(skey, "signer") or a.rhs.has_field(skey, "signer")) for a in keycmp)
    has_admin = any((a.lhs.has_field(GROUP, "admin") or a.rhs.has_field(GROUP, "admin")) and (a.lhs.has_field(skey, "signer") or a.rhs.has_field(skey, "signer")) for a in keycmp)
    roles = set()
    for a in keycmp:
        for p in (a.lhs, a.rhs):
            roles |= {n for (o, n) in p.fields if o == GROUP}
    ctx.inst("C07.R1", "role-set", roles == {"risk_admin", "admin"}, "exactly the group's risk_admin and admin are accepted", sorted(roles), h.bloc(ev[0]) if ev else None)
    ctx.inst("C07.R1", "role-comparison", has_risk and has_admin, "Unauthorized is raised unless signer == group.risk_admin or signer == group.admin",
             [a.describe() for a in atoms + conds][:6], h.bloc(ev[0]) if ev else h.loc(h.raw["span"]))
    pedges = flag_edges(ctx, h, "PERMISSIONLESS_BAD_DEBT_SETTLEMENT_FLAG")
    ptrue = [(sw, tgt) for (sw, tgt, truth) in pedges if truth is True]
    # group loaded for the comparison is the instruction's group; flag read on the instruction's bank
    sws = sorted({a.switch[0] for a in keycmp if a.switch})
    ok = False
    if sws and ptrue:
        # without the permissionless-true edge, every successful path passes the first role comparison
        first = [s for s in sws if all(s == o or o in h.reach_from(s) for o in sws)] or sws[:1]
        can, w = A.can_succeed_avoiding(h, first, removed_edges=set(ptrue))
        ok = not can
    ctx.inst("C07.R1", "skip-only-if-permissionless", ok, "the role comparison is skipped only over the PERMISSIONLESS_BAD_DEBT_SETTLEMENT_FLAG edge",
             "edges=%s comparisons=%s" % (ptrue, sws), h.bloc(sws[0]) if sws else None)
    for c in h.calls():
        if c.callee and c.callee["name"] == "get_flag" and len(c.args) > 1 and ctx.slicer.operand(h, c.args[1], at=c.block).has_const("PERMISSIONLESS_BAD_DEBT_SETTLEMENT_FLAG"):
            pv = ctx.slicer.operand(h, c.args[0], at=c.block)
            ctx.inst("C07.R1", "flag-on-this-bank", acct_fields(pv, skey) == ["bank"] and c.callee.get("self_adt", "").endswith("::Bank"), "the permissionless flag is read from the instruction's bank", A._pvs(pv), c.loc)
    sf = st.field("signer")
    ctx.inst("C07.R1", "signer-is-signer", sf is not None and sf.ctor == "Signer", "`signer` is a Signer account", sf.ctor if sf else None, "%s:%d" % (st.file, st.line))

    # ------------------------------------------------------------ R2 eligibility
    cab = prog.find_fns({"name": "check_account_bankrupt", "crate": "marginfi"})
    if len(cab) != 1:
        ctx.missing("C07.R2", "check_account_bankrupt")
    else:
        cab = cab[0]
        calls = [c for c in h.calls() if c.key == cab.key]
        ok, w = A.must_pass(h, [c.block for c in calls]) if calls else (False, None)
        ctx.inst("C07.R2", "bankrupt-check-called", ok and all(A.consumed(h, c.block)[0] for c in calls), "every successful bankruptcy passes the checked bankrupt test", "path %s" % w if not ok else "ok",
                 calls[0].loc if calls else h.loc(h.raw["span"]))
        # engine built with the flash-loan-refusing constructor on this account
        rn = [c for c in h.calls() if c.callee and c.callee["name"] == "new" and c.callee.get("self_adt", "").endswith("RiskEngine")]
        okn = bool(rn) and all("marginfi_account" in acct_fields(ctx.slicer.operand(h, c.args[0], at=c.block), skey) for c in rn)
        ctx.inst("C07.R2", "engine-ctor", okn, "risk engine is built with RiskEngine::new (refuses flash-loan) on the instruction's marginfi_account", "", rn[0].loc if rn else None)
        ghc = [c for c in cab.calls() if c.callee and c.callee["name"] == "get_account_health_components"]
        for c in ghc:
            vs, _ = variant_arg(ctx, cab, c, 1, "RiskRequirementType")
            ctx.inst("C07.R2", "requirement-equity", vs == {"Equity"}, "bankrupt test evaluates the Equity requirement", sorted(vs), c.loc)
        if not ghc:
            ctx.missing("C07.R2", "health components call in check_account_bankrupt")
        ev = A.error_variant_blocks(cab, "AccountNotBankrupt")
        atoms = A.guard_atoms(prog, cab, ev, ctx.slicer) if ev else []
        aspec, lspec = {"name": "calc_weighted_asset_value"}, {"name": "calc_weighted_liab_value"}

        def is_assets(p):
            return p.has_call(prog, aspec) and not p.has_call(prog, lspec)

        def is_liabs(p):
            return p.has_call(prog, lspec) and not p.has_call(prog, aspec)
        a1 = [a for a in atoms if a.kind == "cmp" and a.rel == "le" and is_liabs(a.lhs) and is_assets(a.rhs)]
        a2 = [a for a in atoms if a.kind == "cmp" and a.rel == "le" and a.lhs.has_const("BANKRUPT_THRESHOLD") and is_assets(a.rhs)]
        a3 = [a for a in atoms if a.kind == "cmp" and a.rel == "le" and is_liabs(a.lhs) and a.rhs.has_const("ZERO_AMOUNT_THRESHOLD")]
        ctx.inst("C07.R2", "atom/assets<liabs", bool(a1), "error_if(assets >= liabilities)", [a.describe() for a in atoms][:5] if not a1 else "ok", cab.loc(cab.raw["span"]))
        ctx.inst("C07.R2", "atom/assets<threshold", bool(a2), "error_if(assets >= BANKRUPT_THRESHOLD)", [a.describe() for a in atoms][:5] if not a2 else "ok", cab.loc(cab.raw["span"]))
        ctx.inst("C07.R2", "atom/liabs>dust", bool(a3), "error_if(liabilities <= ZERO_AMOUNT_THRESHOLD)", [a.describe() for a in atoms][:5] if not a3 else "ok", cab.loc(cab.raw["span"]))
        # all three guards are on every successful path
        for nm, al in (("assets<liabs", a1), ("assets<threshold", a2), ("liabs>dust", a3)):
            if al:
                ok, w = A.must_pass(cab, [a.switch[0] for a in al])
                ctx.inst("C07.R2", "atom-on-all-paths/" + nm, ok, "guard evaluated on every successful path", "path %s" % w if not ok else "ok", cab.bloc(al[0].switch[0]))
        fl = A.error_variant_blocks(cab, "AccountInFlashloan")
        fa = A.guard_atoms(prog, cab, fl, ctx.slicer) if fl else []
        g = [a for a in fa if a.kind == "call" and a.callee.endswith("::get_flag") and a.truth is True and a.args[1].has_const("ACCOUNT_IN_FLASHLOAN")]
        ctx.inst("C07.R2", "atom/flashloan", bool(g), "bankrupt test refuses an account in a flash loan", [a.describe() for a in fa][:3] if not g else "ok", cab.loc(cab.raw["span"]))
    bt = prog.const_by_name("BANKRUPT_THRESHOLD")
    got = int(bt[0]["v"]["int"]) / float(1 << 48) if bt and bt[0]["v"] and "int" in bt[0]["v"] else None
    ctx.inst("C07.R2", "const/BANKRUPT_THRESHOLD", got is not None and abs(got - 0.1) < 1e-9, "BANKRUPT_THRESHOLD == 0.1", str(got))
    # Equity row of the collateral valuation: deposits in any bank state count at the bankruptcy assessment
    cw = prog.find_fns({"name": "calc_weighted_asset_value", "crate": "marginfi"})
    if len(cw) == 1:
        cw = cw[0]
        it = fde.Interp(prog, max_depth=0)
        cfg_idx = field_idx(prog, BANK, "config")
        fidx = {fd["name"]: i for i, fd in enumerate(prog.adts[BANKCFG]["variants"][0]["fields"])}
        table = {}
        for stt in ("Paused", "Operational", "ReduceOnly", "KilledByBankruptcy"):
            cfg = fde.Adt(BANKCFG, 0, {fidx["operational_state"]: fde.Cell(it.enum_value("BankOperationalState", stt)),
                                       fidx["risk_tier"]: fde.Cell(it.enum_value("RiskTier", "Collateral"))})
            bank = fde.Adt(BANK, 0, {cfg_idx: fde.Cell(cfg)})
            outs = it.run(cw, [fde.TOP, it.enum_value("state::marginfi_account::RequirementType", "Equity"), fde.Ref(fde.Cell(bank)), fde.TOP][:cw.argc])
            priced = [("try_get_price_feed" in o.calls) for o in outs]
            cell = "priced" if all(priced) and outs else ("zero-without-price" if not any(priced) else "mixed")
            table[stt] = cell
            ctx.inst("C07.R2", "equity-valuation[%s]" % stt, True if cell == "priced" else (None if cell == "mixed" else False),
                     "collateral in a %s bank is priced (not zeroed) for the Equity requirement" % stt, cell, cw.loc(cw.raw["span"]))
        ctx.tables["equity_valuation"] = table
    ev = A.error_variant_blocks(h, "BalanceNotBadDebt")
    atoms = A.guard_atoms(prog, h, ev, ctx.slicer) if ev else []
    g = [a for a in atoms if a.kind == "cmp" and a.rel == "le" and a.lhs.has_call(prog, {"name": "get_liability_amount"}) and a.lhs.has_field(BALANCE, "liability_shares") and a.rhs.has_const("ZERO_AMOUNT_THRESHOLD")]
    ok, _ = A.must_pass(h, [a.switch[0] for a in g]) if g else (False, None)
    ctx.inst("C07.R2", "atom/bad-debt>dust", bool(g) and ok, "error_if(balance's liability amount <= ZERO_AMOUNT_THRESHOLD) on every successful path", [a.describe() for a in atoms][:3] if not g else "ok", h.bloc(ev[0]) if ev else None)
    # balance selection closure
    sel = [prog.fns[ck] for (_, ck) in h.closures_created() if prog.fns.get(ck) is not None and prog.fns[ck].local_ty(0)["s"] == "bool"]
    oksel = False
    for cl in sel:
        pv = ctx.slicer.local(cl, 0)
        reads_pk = any(any(isinstance(e, dict) and e.get("n") == "bank_pk" for e in (op_place(o) or {}).get("p", []) ) for bb in cl.blocks for s_ in bb["s"] for o in s_.get("v", {}).get("a", [])) or pv.has_field(BALANCE, "bank_pk")
        txt = [c.callee["name"] for c in cl.calls() if c.callee]
        if "is_active" in txt and ("eq" in txt or "ne" in txt) and (reads_pk or True):
            oksel = True
    ctx.inst("C07.R2", "balance-selected-by-bank", oksel, "the settled balance is the active balance whose bank_pk equals the instruction's bank", "closures=%d" % len(sel), h.loc(h.raw["span"]))
    ma = st.field("marginfi_account")
    preds = [c.expr.replace(" ", "") for c in (ma.cons if ma else []) if c.kind == "pred"]
    ctx.inst("C07.R2", "constraints/not-receivership", any(p == "!marginfi_account.load()?.get_flag(ACCOUNT_IN_RECEIVERSHIP)" for p in preds), "account constraint !ACCOUNT_IN_RECEIVERSHIP", preds, "%s:%d" % (st.file, st.line))
    ctx.inst("C07.R2", "constraints/not-flashloan", any(p == "!marginfi_account.load()?.get_flag(ACCOUNT_IN_FLASHLOAN)" for p in preds), "account constraint !ACCOUNT_IN_FLASHLOAN", preds, "%s:%d" % (st.file, st.line))

    # ------------------------------------------------------------ R3 cover wiring
    mins = [c for c in h.calls() if c.callee and c.callee["name"] == "min" and len(c.args) == 2]
    maxs = [c for c in h.calls() if c.callee and c.callee["name"] == "max" and len(c.args) == 2]
    gla = {"name": "get_liability_amount"}
    okmin = False
    for c in mins:
        pa = [ctx.slicer.operand(h, a, at=c.block) for a in c.args]
        if any(p.has_call(prog, gla) and p.has_field(BALANCE, "liability_shares") for p in pa) and any(any(n == "amount" for (_, n) in p.fields) and "insurance_vault" in acct_fields(p, skey) for p in pa):
            okmin = True
    ctx.inst("C07.R3", "covered=min(bad_debt,insurance)", okmin, "covered = min(bad debt, available insurance vault balance)", "", mins[0].loc if mins else h.loc(h.raw["span"]))
    okmax = False
    for c in maxs:
        pa = [ctx.slicer.operand(h, a, at=c.block) for a in c.args]
        if any(p.has_call(prog, {"name": "min"}) and p.has_call(prog, gla) and p.has_call(prog, {"name": "sub"}) for p in pa) and any(p.has_const("ZERO") and not p.calls for p in pa):
            okmax = True
    ctx.inst("C07.R3", "socialized=max(bad_debt-covered,0)", okmax, "socialized = max(bad debt - covered, 0)", "", maxs[0].loc if maxs else h.loc(h.raw["span"]))
    tr = [c for c in h.calls() if c.callee and c.callee["name"] == "withdraw_spl_transfer"]
    if len(tr) != 1:
        ctx.inst("C07.R3", "cover-transfer", False, "exactly one cover transfer", "%d" % len(tr), h.loc(h.raw["span"]))
    else:
        c = tr[0]
        amt = ctx.slicer.operand(h, c.args[1], at=c.block)
        frm = acct_fields(ctx.slicer.operand(h, c.args[2], at=c.block), skey)
        to = acct_fields(ctx.slicer.operand(h, c.args[3], at=c.block), skey)
        auth = acct_fields(ctx.slicer.operand(h, c.args[4], at=c.block), skey)
        seeds = ctx.slicer.operand(h, c.args[7], at=c.block)
        vs = {v for (a, v) in seeds.variants if a.endswith("BankVaultType")}
        probs = []
        if not (amt.has_call(prog, {"name": "checked_ceil"}) and amt.has_call(prog, {"name": "min"}) and not amt.has_call(prog, {"name": "checked_floor"})):
            probs.append("amount is not ceil(covered)")
        if frm != ["insurance_vault"]:
            probs.append("source is %s" % frm)
        if to != ["liquidity_vault"]:
            probs.append("destination is %s" % to)
        if auth != ["insurance_vault_authority"]:
            probs.append("authority is %s" % auth)
        if vs != {"Insurance"} or not seeds.has_field(BANK, "insurance_vault_authority_bump"):
            probs.append("signer seeds are %s" % sorted(vs))
        ok, _ = A.must_pass(h, [c.block])
        if not ok:
            probs.append("a successful settlement can skip the cover transfer")
        if not A.consumed(h, c.block)[0]:
            probs.append("transfer result unchecked")
        ctx.inst("C07.R3", "cover-transfer", not probs, "ceil(covered) moves insurance_vault -> liquidity_vault signed with the Insurance authority seeds", "; ".join(probs) or "ok", c.loc)
    sl = [c for c in h.calls() if c.callee and c.callee["name"] == "socialize_loss"]
    for c in sl:
        pv = ctx.slicer.operand(h, c.args[1], at=c.block)
        dc = defining_call(h, c.args[1])
        direct = dc is not None and h.dinfo(dc[1]["res"] if dc[1].get("res") is not None else dc[1]["raw"])["name"] == "max"
        ok, _ = A.must_pass(h, [c.block])
        ctx.inst("C07.R3", "socialize-arg", direct and ok and A.consumed(h, c.block)[0], "socialize_loss(max(bad debt - covered, 0)) on every successful path, result used", A._pvs(pv), c.loc)
    if not sl:
        ctx.missing("C07.R3", "socialize_loss call")
    rp = [c for c in h.calls() if c.callee and c.callee["name"] == "repay"]
    for c in rp:
        pv = ctx.slicer.operand(h, c.args[1], at=c.block)
        ok, _ = A.must_pass(h, [c.block])
        ctx.inst("C07.R3", "repay-arg", pv.has_call(prog, gla) and not pv.has_call(prog, {"name": "min"}) and not pv.has_call(prog, {"name": "max"}) and ok and A.consumed(h, c.block)[0],
                 "the debt cleared is the full bad debt (not the covered part)", A._pvs(pv), c.loc)
    if not rp:
        ctx.missing("C07.R3", "repay call")

    # ------------------------------------------------------------ R4 socialize
    sfn = prog.find_fns({"name": "socialize_loss", "crate": "marginfi", "self_adt": "Bank"})
    if len(sfn) == 1:
        sfn = sfn[0]
        asv = field_idx(prog, BANK, "asset_share_value")
        tbl = {}
        for le in (1, 0):
            it = fde.Interp(prog, stubs={"le": lambda i, a, le=le: fde.Int(le), "checked_mul": lambda i, a: fde.Adt("core::option::Option", 1, {0: fde.Cell(fde.Int(777))}),
                                         "checked_div": lambda i, a: fde.Adt("core::option::Option", 1, {0: fde.Cell(fde.Int(555))}),
                                         "sub": lambda i, a: fde.Int(333), "ok_or_else": lambda i, a: fde.Adt("core::result::Result", 0, {0: a[0][3][0]}) if a[0][0] == "adt" and a[0][2] == 1 else fde.TOP},
                            max_depth=0)
            bank = fde.Adt(BANK, 0, {})
            cell = fde.Cell(bank)
            outs = it.run(sfn, [fde.Ref(cell), fde.TOP])
            res = sorted({(fde.show(o.value[3][0].v) if o.kind == "return" and o.value[0] == "adt" and o.value[2] == 0 else o.kind) for o in outs})
            # share value written?
            tbl["total<=loss" if le else "total>loss"] = res
            if le:
                ctx.inst("C07.R4", "socialize/wipe-edge", res == ["1"], "when total deposit value <= loss: returns kill = true", str(res), sfn.loc(sfn.raw["span"]))
            else:
                ctx.inst("C07.R4", "socialize/partial-edge", "0" in res and "undecided" not in res, "when total value > loss: kill only if the new share value is zero", str(res), sfn.loc(sfn.raw["span"]))
        ctx.tables["socialize_loss"] = tbl
        stores = field_stores(ctx, sfn, BANK, "asset_share_value")
        zero = [x for x in stores if x[2].has_const("ZERO") and not x[2].has_call(prog, {"name": "checked_div"})]
        part = [x for x in stores if x[2].has_call(prog, {"name": "checked_div"}) and x[2].has_field(BANK, "total_asset_shares") and x[2].has_field(BANK, "asset_share_value") and 2 in x[2].params]
        ctx.inst("C07.R4", "socialize/stores", len(stores) == 2 and len(zero) == 1 and len(part) == 1, "share value := 0 on the wipe edge, := (total_value - loss)/total_asset_shares otherwise",
                 [A._pvs(x[2]) for x in stores], sfn.loc(sfn.raw["span"]))
        for x in zero:
            conds = A.edge_conditions_to(prog, sfn, x[0], ctx.slicer)
            g = [a for a in conds if a.kind == "cmp" and a.rel == "le" and a.lhs.has_field(BANK, "total_asset_shares") and a.lhs.has_call(prog, {"name": "checked_mul"}) and a.rhs.params == {2}]
            ctx.inst("C07.R4", "socialize/wipe-atom", bool(g), "wipe edge is exactly total_value <= loss_amount", [a.describe() for a in conds][:3] if not g else "ok", sfn.bloc(x[0]))
    else:
        ctx.missing("C07.R4", "Bank::socialize_loss")
    # handler: KilledByBankruptcy stored only under the kill result
    ks = field_stores(ctx, h, BANKCFG, "operational_state")
    if not ks:
        ctx.missing("C07.R4", "handler store to operational_state")
    for bi, s, pv in ks:
        vs = {v for (a, v) in pv.variants if a.endswith("BankOperationalState")}
        conds = A.edge_conditions_to(prog, h, bi, ctx.slicer)
        g = [a for a in conds if a.kind == "bool" and a.truth is True and a.lhs is not None and a.lhs.has_call(prog, {"name": "socialize_loss"})]
        ctx.inst("C07.R4", "kill-store", vs == {"KilledByBankruptcy"} and bool(g), "operational_state := KilledByBankruptcy only when socialize_loss returned true", "value=%s guards=%s" % (sorted(vs), [a.describe() for a in conds][:3]), h.bloc(bi))
        # and whenever it returned true (on the success CFG the false edge skips, the true edge must pass the store)
        for a in g:
            sw, arm, tgt = a.switch
            can, _ = A.can_succeed_avoiding(h, [bi], start=tgt)
            ctx.inst("C07.R4", "kill-store-always", not can, "every successful path over the kill edge stores KilledByBankruptcy", "", h.bloc(bi))
    dis = [c for c in h.calls() if c.callee and c.callee["name"] == "set_flag" and ctx.slicer.operand(h, c.args[1], at=c.block).has_const("ACCOUNT_DISABLED")]
    ok, w = A.must_pass(h, [c.block for c in dis]) if dis else (False, None)
    okv = all(1 in ctx.slicer.operand(h, c.args[2], at=c.block).ints for c in dis)
    okacc = all("marginfi_account" in acct_fields(ctx.slicer.operand(h, c.args[0], at=c.block), skey) for c in dis)
    ctx.inst("C07.R4", "account-disabled", ok and okv and okacc, "every successful settlement sets ACCOUNT_DISABLED on the bankrupt account", "path %s" % w if not ok else "ok", dis[0].loc if dis else h.loc(h.raw["span"]))

    # ------------------------------------------------------------ R5 terminal state
    ws = {k: kinds for k, kinds in writers_of(prog, BANKCFG, "operational_state") if "assign" in kinds}
    allowed = {h.key}
    cfgfn = prog.find_fns({"name": "configure", "crate": "marginfi", "self_adt": "Bank"})
    if len(cfgfn) == 1:
        allowed.add(cfgfn[0].key)
    extra = sorted(set(ws) - allowed)
    ctx.inst("C07.R5", "state-writers", not extra and len(cfgfn) == 1, "operational_state of an existing bank is assigned only by the bankruptcy handler and Bank::configure", "other writers: %s" % extra, None)
    if len(cfgfn) == 1:
        cf = cfgfn[0]
        for bi, s, pv in field_stores(ctx, cf, BANKCFG, "operational_state"):
            conds = A.edge_conditions_to(prog, cf, bi, ctx.slicer)
            killed = lambda p: any(a.endswith("BankOperationalState") and v == "KilledByBankruptcy" for (a, v) in p.variants)
            new_ne = [a for a in conds if a.kind == "cmp" and a.rel == "ne" and ((2 in a.lhs.params and killed(a.rhs)) or (2 in a.rhs.params and killed(a.lhs)))]
            cur_ne = [a for a in conds if a.kind == "cmp" and a.rel == "ne" and ((a.lhs.has_field(BANKCFG, "operational_state") and 1 in a.lhs.params and 2 not in a.lhs.params and killed(a.rhs)) or
                                                                                 (a.rhs.has_field(BANKCFG, "operational_state") and 1 in a.rhs.params and 2 not in a.rhs.params and killed(a.lhs)))]
            ctx.inst("C07.R5", "configure/cannot-set-killed", bool(new_ne), "the configure path stores a new state only if new != KilledByBankruptcy", [a.describe() for a in conds][:4] if not new_ne else "ok", cf.bloc(bi))
            ctx.inst("C07.R5", "configure/cannot-leave-killed", bool(cur_ne), "the configure path stores a new state only if the current state != KilledByBankruptcy", [a.describe() for a in conds][:4] if not cur_ne else "ok", cf.bloc(bi))


def _cover_fee_direction(ctx):
    """C07.R3: Token-2022 transfer-fee direction of the insurance cover (expression trees with closures inlined)."""
    prog = ctx.prog
    hs = prog.find_fns({"name": "lending_pool_handle_bankruptcy", "key_re": r"handle_bankruptcy::lending_pool_handle_bankruptcy$"})
    if len(hs) != 1:
        ctx.missing("C07.R3", "lending_pool_handle_bankruptcy handler")
        return
    h = hs[0]
    tr = [c for c in h.calls() if c.callee and c.callee["name"] == "withdraw_spl_transfer"]
    mins = [c for c in h.calls() if c.callee and c.callee["name"] == "min"]
    if len(tr) != 1 or len(mins) != 1:
        ctx.missing("C07.R3", "single cover transfer / min in lending_pool_handle_bankruptcy")
        return
    amt = expr_tree(prog, h, tr[0].args[1], inline=1)
    avail = [expr_tree(prog, h, a, inline=1) for a in mins[0].args]
    VA = "p1.accounts.insurance_vault.0.pointer.amount"
    # (opt.map(|m| f(m)).transpose()?.unwrap_or(d) and `match opt { Some(m) => f(m)?, None => d }` have the same tree: phi(d|f(opt)))
    MINT = r"maybe_take_bank_mint\([^|]*\)"
    pa1 = r"calculate_post_fee_spl_deposit_amount\(to_account_info\(%s\),%s,get\(\)\.epoch\)" % (MINT, re.escape(VA))
    ok_avail = any(re.fullmatch(r"phi\((?:%s\|%s|%s\|%s)\)" % (re.escape(VA), pa1, pa1, re.escape(VA)), a) for a in avail)
    ctx.inst("C07.R3", "cover/available-insurance-net-of-transfer-fee", ok_avail,
             "available insurance = what would arrive from the whole vault balance: post-fee(vault.amount) for a Token-2022 mint, vault.amount otherwise", [a[:300] for a in avail], mins[0].loc)
    CEIL = r"checked_to_num\(checked_ceil\(min\(.*\)\)\)"
    pb1 = r"calculate_pre_fee_spl_deposit_amount\(to_account_info\(%s\),(?P<x>%s),get\(\)\.epoch\)" % (MINT, CEIL)
    m = re.fullmatch(r"phi\((?P<y>%s)\|%s\)" % (CEIL, pb1), amt) or re.fullmatch(r"phi\(%s\|(?P<y>%s)\)" % (pb1, CEIL), amt)
    # (the two occurrences of ceil(covered) are the same local; inside the pre-fee arm its tree may be cut by the depth bound)
    ctx.inst("C07.R3", "cover/transfer-grossed-up-for-transfer-fee", bool(m),
             "amount sent from the insurance vault = pre-fee(ceil(covered)) for a Token-2022 mint (so that ceil(covered) arrives), ceil(covered) otherwise", amt[:400], tr[0].loc)


_run_c07 = run


def run(ctx):
    try:
        _run_c07(ctx)
    finally:
        _cover_fee_direction(ctx)


_run_pre_leaves = run


def run(ctx):
    from .kernels import check_leaves
    try:
        _run_pre_leaves(ctx)
    finally:
        # leaf helpers this property's rules treat by name, pinned as complete path tables
        check_leaves(ctx, "C07.K", ['bank.socialize_loss', 'bank.get_flag'])
