"""C14 Operational-state and global-pause gating (structural clauses only)."""
from engine import analysis as A, fde
from engine.model import match_def, op_place
from .common import *

INFO = {
    "explanation": "Decided statically: (R1) every financial handler calls the bank-state gate with the instruction kind its "
                   "role requires, on the bank it transacts in, before any share mutation or token movement, and checks the "
                   "result; (R2) the gate's complete (kind x state) truth table, by exhaustive constant propagation over its MIR; "
                   "(R3) every instruction whose effects include a token transfer or a share write carries the "
                   "!is_protocol_paused constraint on the group its banks/accounts are bound to, or is in the reasoned "
                   "exemption table; (R4) shape of the pause predicate (flag AND not expired, now from Clock, expiry atom "
                   "now-start >= PAUSE_DURATION_SECONDS); (R5) reduce-only collateral is zeroed only on the Initial edge. "
                   "Not decided: timing behaviour as such.",
    "assumptions": ["Anchor runs every constraint of try_accounts before the handler", "SPL token program semantics",
                    "timing around the exact expiry second is represented only by the comparison shape (>=) and the constant"],
}

GATE_TABLE = [
    # instruction, expected kind, Accounts field(s) holding the bank
    ("lending_account_deposit", "FailsIfPausedOrReduceState", ["bank"]),
    ("lending_account_borrow", "FailsIfPausedOrReduceState", ["bank"]),
    ("kamino_deposit", "FailsIfPausedOrReduceState", ["bank"]),
    ("drift_deposit", "FailsIfPausedOrReduceState", ["bank"]),
    ("solend_deposit", "FailsIfPausedOrReduceState", ["bank"]),
    ("lending_account_withdraw", "FailsInPausedState", ["bank"]),
    ("lending_account_repay", "FailsInPausedState", ["bank"]),
    ("kamino_withdraw", "FailsInPausedState", ["bank"]),
    ("drift_withdraw", "FailsInPausedState", ["bank"]),
    ("solend_withdraw", "FailsInPausedState", ["bank"]),
    ("lending_pool_handle_bankruptcy", "FailsInPausedState", ["bank"]),
    ("lending_account_liquidate", "FailsInPausedState", ["asset_bank", "liab_bank"]),
]

# (kind, state) -> expected outcome of the gate
STATES = ["Paused", "Operational", "ReduceOnly", "KilledByBankruptcy"]
KINDS = ["Unrestricted", "FailsInReduceState", "FailsInPausedState", "FailsIfPausedOrReduceState"]


def expected_gate(kind, state):
    if state == "KilledByBankruptcy":
        return ("Err", "BankKilledByBankruptcy")
    if state == "Paused" and kind in ("FailsInPausedState", "FailsIfPausedOrReduceState"):
        return ("Err", "BankPaused")
    if state == "ReduceOnly" and kind in ("FailsInReduceState", "FailsIfPausedOrReduceState"):
        return ("Err", "BankReduceOnly")
    return ("Ok",)


# instructions that move tokens or write shares but legitimately lack the pause constraint
PAUSE_EXEMPT = {
    "lending_account_close_balance": "closes dust-only positions (both sides below ZERO_AMOUNT_THRESHOLD); no funds move",
    "purge_deleverage_balance": "risk-admin purge on TOKENLESS_REPAYMENTS_COMPLETE banks only; no funds move",
    "start_liquidation": "bracket start: only snapshots health; inner withdraw/repay are gated",
    "end_liquidation": "bracket end: must remain executable so the bracket can close; pays the flat fee only",
    "start_deleverage": "bracket start (risk admin)",
    "end_deleverage": "bracket end",
    "lending_account_start_flashloan": "flag only; inner instructions gated",
    "lending_account_end_flashloan": "flag + health check only",
    "lending_account_settle_emissions": "books emissions only, no transfer",
    "lending_account_withdraw_emissions": "emissions vault (not bank liquidity), authority-signed",
    "lending_account_withdraw_emissions_permissionless": "emissions vault to the registered destination only",
    "lending_pool_setup_emissions": "admin funding of the emissions vault",
    "lending_pool_update_emissions_parameters": "admin funding of the emissions vault",
    "lending_pool_collect_bank_fees": "moves already-accrued fees between the bank's own vaults",
    "lending_pool_withdraw_fees": "group admin fee withdrawal",
    "lending_pool_withdraw_fees_permissionless": "fee withdrawal to the admin-fixed destination",
    "lending_pool_withdraw_insurance": "group admin insurance withdrawal",
    "lending_pool_accrue_bank_interest": "accrual only (share values, not shares)",
    "lending_pool_add_bank": "admin: creates a bank", "lending_pool_add_bank_with_seed": "admin: creates a bank",
    "lending_pool_add_bank_permissionless": "creates a staked bank", "lending_pool_add_bank_kamino": "admin: creates a bank",
    "lending_pool_add_bank_drift": "admin: creates a bank", "lending_pool_add_bank_solend": "admin: creates a bank",
    "lending_pool_clone_bank": "staging-only bank clone",
    "marginfi_account_initialize": "creates an empty account", "marginfi_account_initialize_pda": "creates an empty account",
    "transfer_to_new_account": "moves positions between two accounts of one authority, no funds move",
    "transfer_to_new_account_pda": "moves positions between two accounts of one authority, no funds move",
    "init_global_fee_state": "fee-state maintenance", "marginfi_group_initialize": "creates a group (fee transfer of lamports)",
    "kamino_init_obligation": "venue account bootstrap (dust deposit by the creator)",
    "drift_init_user": "venue account bootstrap (dust deposit by the creator)",
    "solend_init_obligation": "venue account bootstrap (dust deposit by the creator)",
    "kamino_harvest_reward": "venue rewards to the global fee wallet", "drift_harvest_reward": "venue rewards to the global fee wallet",
    "marginfi_account_init_liq_record": "creates a record account (rent only)",
    "init_bank_metadata": "creates a metadata account (rent only)",
    "init_staked_settings": "creates a settings account (rent only)",
    "lending_pool_close_bank": "closes an empty bank",
    "marginfi_account_close": "closes an empty account",
}

PAUSE_REQUIRED = [
    "lending_account_deposit", "lending_account_withdraw", "lending_account_borrow", "lending_account_repay",
    "lending_account_liquidate", "lending_pool_handle_bankruptcy",
    "kamino_deposit", "kamino_withdraw", "drift_deposit", "drift_withdraw", "solend_deposit", "solend_withdraw",
]


def gate_fns(ctx):
    return [f for f in fns_with_param_type(ctx.prog, "marginfi", "InstructionKind")
            if any(w == (BANKCFG, "operational_state") for w in _reads(ctx, f))]


def _reads(ctx, f):
    out = set()
    for bb in f.blocks:
        for s in bb["s"]:
            v = s.get("v")
            if not v:
                continue
            pls = [v["pl"]] if "pl" in v else [op_place(o) for o in v.get("a", []) if op_place(o)]
            for pl in pls:
                for e in pl.get("p", []):
                    if isinstance(e, dict) and "f" in e:
                        out.add((e["o"], e["n"]))
    return out


def run(ctx):
    prog = ctx.prog
    gates = gate_fns(ctx)
    if len(gates) != 1:
        ctx.missing("C14.R1", "bank-state gate (function taking InstructionKind and reading BankConfig.operational_state); found %d" % len(gates))
        return
    gate = gates[0]
    gkey = gate.key

    # ---------------- R1
    ctx.floor("C14.R1", 13)
    transfer_reach, _ = prog.fns_reaching(TRANSFER_SPECS)
    anycpi_reach, _ = prog.fns_reaching(TRANSFER_SPECS + CPI_SPECS)
    for (ixn, kind, bank_fields) in GATE_TABLE:
        try:
            ix = ctx.ix("C14.R1", ixn)
        except Exception:
            continue
        h = ix["handlers"][0]
        skey = ix["struct"].key
        # gate calls in the handler (direct, or via a helper that always performs one)
        found = {}   # bank field -> list of (block, kinds)
        gate_calls = []
        for c in h.calls():
            if c.key == gkey:
                ks, _ = variant_arg(ctx, h, c, 1, "InstructionKind")
                pv = ctx.slicer.operand(h, c.args[0])
                bfs = acct_fields(pv, skey)
                gate_calls.append((c, ks, bfs))
        for bf in bank_fields:
            cands = [(c, ks) for (c, ks, bfs) in gate_calls if bf in bfs]
            construct = "%s/%s" % (ixn, bf)
            if not cands:
                ctx.inst("C14.R1", construct, False, "gate(%s) called on Accounts field `%s` in %s" % (kind, bf, h.key),
                         "no gate call whose bank argument derives from `%s`" % bf, h.loc(h.raw["span"]))
                continue
            good = [c for (c, ks) in cands if ks == {kind}]
            if not good:
                ctx.inst("C14.R1", construct, False, "gate kind == %s" % kind,
                         "kinds found: %s" % sorted(set().union(*[ks for _, ks in cands])), cands[0][0].loc)
                continue
            ev = [c.block for c in good]
            ok, w = A.must_pass(h, ev)
            if not ok:
                ctx.inst("C14.R1", construct, False, "every successful path of %s passes gate(%s) on `%s`" % (ixn, kind, bf),
                         "success path avoiding the gate: blocks %s" % w, h.bloc(w[-1]) if w else None)
                continue
            cons_ok = all(A.consumed(h, b)[0] for b in ev)
            if not cons_ok:
                ctx.inst("C14.R1", construct, False, "gate result is checked (?)", "result dropped", good[0].loc)
                continue
            # dominance over share mutations / transfers
            mut_blocks = set(A.write_blocks(prog, h, is_share_write))
            for c in h.calls():
                if c.key in transfer_reach or (c.closure and c.closure in transfer_reach):
                    mut_blocks.add(c.block)
            undominated = [b for b in sorted(mut_blocks) if not A.set_dominates(h, ev, b)]
            # calls that are themselves the gate do not count
            undominated = [b for b in undominated if b not in ev]
            if undominated:
                ctx.inst("C14.R1", construct, False, "gate dominates every share mutation / token transfer in the handler",
                         "not dominated: %s" % [h.bloc(b) for b in undominated[:4]], h.bloc(undominated[0]))
                continue
            ctx.inst("C14.R1", construct, True, "gate(%s) on `%s`: must-pass, consumed, dominates %d mutation/transfer sites" % (kind, bf, len(mut_blocks)),
                     "ok", good[0].loc)

    # ---------------- R2 gate truth table
    ctx.floor("C14.R2", 16)
    it = fde.Interp(prog)
    table = {}
    for kind in KINDS:
        for st in STATES:
            bank = fde.Adt(BANK, 0, {})
            # locate field indexes for config / operational_state
            bank_adt = prog.adts[BANK]
            cfg_idx = [i for i, f in enumerate(bank_adt["variants"][0]["fields"]) if f["name"] == "config"][0]
            cfg_adt = prog.adts[BANKCFG]
            os_idx = [i for i, f in enumerate(cfg_adt["variants"][0]["fields"]) if f["name"] == "operational_state"][0]
            cfg = fde.Adt(BANKCFG, 0, {os_idx: fde.Cell(it.enum_value("BankOperationalState", st))})
            bank[3][cfg_idx] = fde.Cell(cfg)
            kv = it.enum_value("InstructionKind", kind)
            outs = it.run(gate, [fde.Ref(fde.Cell(bank)), kv])
            kinds = sorted({fde.result_kind(it, o) for o in outs})
            exp = expected_gate(kind, st)
            table["%s/%s" % (kind, st)] = [list(k) for k in kinds]
            ok = (kinds == [exp])
            ctx.inst("C14.R2", "gate[%s,%s]" % (kind, st), ok if len(kinds) == 1 or not ok else ok,
                     "gate(%s) on a %s bank -> %s" % (kind, st, exp), "outcomes %s" % kinds, gate.loc(gate.raw["span"]))
    ctx.tables["gate_truth_table"] = table

    # ---------------- R3 global pause
    ctx.floor("C14.R3", 12)
    pause_spec = {"name": "is_protocol_paused"}
    for ixn, ent in sorted(ctx.am.instructions.items()):
        st = ent["struct"]
        h = ent["handlers"][0] if ent["handlers"] else None
        if h is None or st is None:
            continue
        eff_transfer = h.key in anycpi_reach
        eff_shares = any(is_share_write(*w) for w in prog.writes(h.key))
        has_pause = None
        for f, c in st.all_constraints():
            if c.kind == "pred" and "is_protocol_paused" in c.expr:
                has_pause = (f, c)
        if ixn in PAUSE_REQUIRED or ((eff_transfer or eff_shares) and ixn not in PAUSE_EXEMPT):
            construct = "pause/%s" % ixn
            if has_pause is None:
                ctx.inst("C14.R3", construct, False, "Accounts struct %s has constraint !group.is_protocol_paused() @ ProtocolPaused" % st.name,
                         "no such constraint (effects: transfer=%s shares=%s)" % (eff_transfer, eff_shares), "%s:%d" % (st.file, st.line))
                continue
            f, c = has_pause
            expr = c.expr.replace(" ", "")
            neg = expr.startswith("!") and expr.count("!") == 1
            m_field = expr.lstrip("!(").split(".")[0]
            problems = []
            if not neg:
                problems.append("constraint is not the negation of is_protocol_paused(): `%s`" % c.expr)
            if c.err != "ProtocolPaused":
                problems.append("error is %s" % c.err)
            gf = st.field(m_field)
            if gf is None or not (gf.inner or "").endswith("::MarginfiGroup"):
                problems.append("predicate is not evaluated on a MarginfiGroup account field (`%s`)" % m_field)
            else:
                # same group the banks / accounts are bound to
                for bf in st.fields_of("Bank") + st.fields_of("MarginfiAccount"):
                    if bf.has("init"):
                        continue
                    bound = [k for k in bf.kinds("keyeq") if k.a == bf.name and k.f == "group" and k.b == m_field and not getattr(k, "neg", False)]
                    if not bound:
                        problems.append("`%s` is not bound to the paused-checked group `%s`" % (bf.name, m_field))
            # liveness in compiled try_accounts: ProtocolPaused constructible and is_protocol_paused called
            ta = st.try_accounts
            if not A.error_variant_blocks(ta, "ProtocolPaused"):
                problems.append("ProtocolPaused not constructed in compiled try_accounts")
            if not A.direct_calls(ta, pause_spec):
                problems.append("is_protocol_paused not called in compiled try_accounts")
            ctx.inst("C14.R3", construct, not problems, "pause constraint present, negated, on the bound group, live in try_accounts",
                     "; ".join(problems) or "ok", "%s:%s" % (st.file, f.line))
        else:
            if has_pause is None and (eff_transfer or eff_shares):
                ctx.inst("C14.R3", "pause-exempt/%s" % ixn, True, "exempt: " + PAUSE_EXEMPT.get(ixn, ""), "exempt (table)", "%s:%d" % (st.file, st.line))

    # ---------------- R4 pause predicate shape
    try:
        ipp = ctx.fn("C14.R4", {"name": "is_protocol_paused", "self_adt": "MarginfiGroup", "crate": "marginfi"})
    except Exception:
        ipp = None
    if ipp is not None:
        clock_ok = False
        for c in ipp.calls():
            if c.callee and c.callee["name"] == "is_expired":
                pva = ctx.slicer.operand(ipp, c.args[1])
                clock_ok = any(k.endswith("::get") and "Sysvar" in (prog.defs[k].get("trait", "") or k) for k in pva.calls) and \
                    any(n == "unix_timestamp" for (_, n) in pva.fields)
        ctx.inst("C14.R4", "is_protocol_paused/now-from-clock", clock_ok,
                 "the time handed to is_expired derives from Clock::get().unix_timestamp", "clock=%s" % clock_ok, ipp.loc(ipp.raw["span"]))
        # truth table over the two booleans via constant propagation with stubs
        tbl = {}
        okall = True
        for pf in (0, 1):
            for ex in (0, 1):
                it2 = fde.Interp(prog, stubs={"is_paused_flag": lambda i, a, pf=pf: fde.Int(pf), "is_expired": lambda i, a, ex=ex: fde.Int(ex)})
                outs = it2.run(ipp, [fde.Ref(fde.Cell(fde.Adt(GROUP, 0, {})))])
                ks = sorted({fde.result_kind(it2, o) for o in outs})
                tbl["flag=%d,expired=%d" % (pf, ex)] = [list(k) for k in ks]
                exp = ("val", 1 if (pf and not ex) else 0)
                ok = ks == [exp]
                okall = okall and ok
                ctx.inst("C14.R4", "is_protocol_paused[flag=%d,expired=%d]" % (pf, ex), ok, "returns %s" % (exp,), "outcomes %s" % ks, ipp.loc(ipp.raw["span"]))
        ctx.tables["is_protocol_paused"] = tbl
    # expiry atoms in both is_expired implementations
    exps = prog.find_fns({"name": "is_expired", "crate": "marginfi_type_crate"})
    if len(exps) < 2:
        ctx.missing("C14.R4", "is_expired implementations (found %d)" % len(exps))
    for f in exps:
        who = f.info.get("self_adt", "?").split("::")[-1]
        # the returned bool on the paused path derives from (now - start) >= PAUSE_DURATION_SECONDS
        found = None
        ral = ret_aliases(f)
        for bi, bb in enumerate(f.blocks):
            for s in bb["s"]:
                v = s.get("v")
                if v and v["r"] == "bin" and v["op"] in ("Ge", "Le", "Gt", "Lt") and s["d"]["l"] in ral and not s["d"].get("p"):
                    a = ctx.slicer.operand(f, v["a"][0])
                    b = ctx.slicer.operand(f, v["a"][1])
                    found = (v["op"], a, b, bi)
        construct = "is_expired/%s" % who
        if not found:
            ctx.inst("C14.R4", construct, False, "result = (now - pause_start) >= PAUSE_DURATION_SECONDS", "no comparison assigned to the result", f.loc(f.raw["span"]))
            continue
        op, a, b, bi = found
        lhs_ok = 1 in a.params or 2 in a.params
        lhs_ok = lhs_ok and any(n == "pause_start_timestamp" for (_, n) in a.fields) and ("Sub" in a.ops or "SubWithOverflow" in a.ops)
        rhs_ok = b.has_const("PAUSE_DURATION_SECONDS")
        ctx.inst("C14.R4", construct, op == "Ge" and lhs_ok and rhs_ok, "Ge(now - pause_start_timestamp, PAUSE_DURATION_SECONDS)",
                 "%s(%s, %s)" % (op, A._pvs(a), A._pvs(b)), f.bloc(bi))
        # not-paused => expired (true) edge, by constant propagation with the flag stubbed
        it3 = fde.Interp(prog, stubs={"is_paused_flag": lambda i, a: fde.Int(0)})
        outs = it3.run(f, [fde.Ref(fde.Cell(fde.Adt(None, None, {}))), fde.TOP])
        ks = sorted({fde.result_kind(it3, o) for o in outs})
        if ks != [("val", 1)]:
            # the flag test may be written in place (or through a new helper) instead of through is_paused_flag(): evaluate it on a
            # state whose pause_flags word is 0
            try:
                sa = f.info.get("self_adt")
                fi = field_idx(prog, adt_key(prog, sa.split("::")[-1]) if sa not in prog.adts else sa, "pause_flags")
                it4 = fde.Interp(prog)
                outs4 = it4.run(f, [fde.Ref(fde.Cell(fde.Adt(sa, 0, {fi: fde.Cell(fde.Int(0))}))), fde.TOP])
                ks4 = sorted({fde.result_kind(it4, o) for o in outs4})
                if ks4 == [("val", 1)]:
                    ks = ks4
            except Exception:
                pass
        ctx.inst("C14.R4", construct + "/flag-clear", ks == [("val", 1)], "is_expired() is true whenever the pause flag is clear", "outcomes %s" % ks, f.loc(f.raw["span"]))
        it4 = fde.Interp(prog, stubs={"is_paused_flag": lambda i, a: fde.Int(1)})
        outs = it4.run(f, [fde.Ref(fde.Cell(fde.Adt(None, None, {}))), fde.TOP])
        ks = sorted({fde.result_kind(it4, o) for o in outs})
        ctx.inst("C14.R4", construct + "/flag-set", ("val", 0) in ks and all(o.kind != "undecided" for o in outs),
                 "with the flag set, is_expired() can be false (depends on the timestamps)", "outcomes %s" % ks, f.loc(f.raw["span"]))

    # ---------------- R6 cached pause state is a faithful copy (the gate reads the cache, not the fee state)
    PSC = "marginfi_type_crate::types::panic_state_cache::PanicStateCache"
    PS = "marginfi_type_crate::types::panic_state_cache::PanicState"
    wr = [k for k, kinds in writers_of(prog, PSC, "pause_start_timestamp") if "assign" in kinds]
    if not wr:
        ctx.missing("C14.R6", "writer of PanicStateCache.pause_start_timestamp")
    for k in wr:
        f = prog.fns[k]
        for fld in ("pause_flags", "pause_start_timestamp"):
            for bi, s, pv in field_stores(ctx, f, PSC, fld):
                others = [("field", PS, o) for o in ("pause_flags", "pause_start_timestamp", "last_daily_reset_timestamp", "daily_pause_count", "consecutive_pause_count", "last_pause_timestamp") if o != fld]
                wiring(ctx, "C14.R6", "cache-copy/%s@%s" % (fld, f.name), pv, must=[("field", PS, fld)], must_not=others, loc=f.bloc(bi), what="PanicStateCache." + fld)
    # the propagate instruction hands the fee state's panic_state to that copy
    try:
        ph = ctx.handler("C14.R6", "propagate_fee_state")
        hit = False
        for c0 in ph.calls():
            if c0.key in wr and len(c0.args) >= 2:
                pv = ctx.slicer.operand(ph, c0.args[1], at=c0.block)
                hit = True
                wiring(ctx, "C14.R6", "propagate/source", pv, must=[("field", "FeeState", "panic_state")], loc=c0.loc, what="panic state handed to the group cache")
                pv0 = ctx.slicer.operand(ph, c0.args[0], at=c0.block)
                wiring(ctx, "C14.R6", "propagate/dest", pv0, must=[("field", GROUP, "panic_state_cache")], loc=c0.loc, what="cache being updated")
        if not hit:
            ctx.inst("C14.R6", "propagate/source", False, "propagate_fee_state calls the cache copy", "no call", ph.loc(ph.raw["span"]))
    except Exception:
        pass

    # ---------------- R5 reduce-only valuation only on Initial
    try:
        cwav = ctx.fn("C14.R5", {"name": "calc_weighted_asset_value", "crate": "marginfi"})
    except Exception:
        cwav = None
    if cwav is not None:
        _r5(ctx, cwav)


def _r5(ctx, f):
    """Exhaustive (state x requirement) table of the collateral valuation's early zero return."""
    prog = ctx.prog
    it = fde.Interp(prog, max_depth=0)
    bank_adt = prog.adts[BANK]
    cfg_idx = [i for i, fd in enumerate(bank_adt["variants"][0]["fields"]) if fd["name"] == "config"][0]
    cfg_adt = prog.adts[BANKCFG]
    fidx = {fd["name"]: i for i, fd in enumerate(cfg_adt["variants"][0]["fields"])}
    # Equity (bankruptcy assessment) cells are charged to C07.R2, not to C14, whose statement speaks of new borrowing
    # (Initial) and liquidation (Maintenance) only.
    reqs = [r for r in it.variants("state::marginfi_account::RequirementType") if r != "Equity"]
    table = {}
    ctx.floor("C14.R5", 8)
    for st in STATES:
        for rq in reqs:
            cfg = fde.Adt(BANKCFG, 0, {fidx["operational_state"]: fde.Cell(it.enum_value("BankOperationalState", st)),
                                       fidx["risk_tier"]: fde.Cell(it.enum_value("RiskTier", "Collateral"))})
            bank = fde.Adt(BANK, 0, {cfg_idx: fde.Cell(cfg)})
            args = [fde.TOP, it.enum_value("state::marginfi_account::RequirementType", rq), fde.Ref(fde.Cell(bank)), fde.TOP]
            args = args[:f.argc]
            outs = it.run(f, args)
            priced = [("try_get_price_feed" in o.calls) or any("price" in c for c in o.calls) for o in outs]
            zero_early = [o for o, p in zip(outs, priced) if not p and o.kind == "return"]
            cell = "zero-without-price" if (zero_early and len(zero_early) == len(outs)) else ("priced" if all(priced) else "mixed")
            table["%s/%s" % (st, rq)] = cell
            exp = "zero-without-price" if (st == "ReduceOnly" and rq == "Initial") else "priced"
            ctx.inst("C14.R5", "asset-value[%s,%s]" % (st, rq), True if cell == exp else (None if cell == "mixed" else False),
                     "collateral valuation on a %s bank for %s requirement: %s" % (st, rq, exp), cell, f.loc(f.raw["span"]))
    ctx.tables["reduce_only_valuation"] = table


_run_pre_leaves = run


def run(ctx):
    from .kernels import check_leaves
    try:
        _run_pre_leaves(ctx)
    finally:
        # leaf helpers this property's rules treat by name, pinned as complete path tables
        check_leaves(ctx, "C14.K", ['panic_cache.update'])
