"""Numeric kernels pinned as canonical expression trees (see rules/common.py expr_tree): small pure helpers whose
operand order / operator choice decides a property and which provenance-level rules cannot see.  A kernel passes when the
canonical tree of its return value is one of the accepted forms; trees are insensitive to temporaries, naming, statement
order, `?`/into()/casts, commutative operand order and associative nesting."""
import json
import os
from .common import *

ONE = str(1 << 48)
YEAR = str(31_536_000 << 48)
U64MAX = str((1 << 64) - 1)

# name -> (find spec, [accepted trees], meaning)
KERNELS = {
    "get_asset_amount": ({"name": "get_asset_amount", "crate": "marginfi", "self_adt": "Bank"}, ["Result::Ok{checked_mul(p1.asset_share_value,p2)}"], "asset amount = shares * asset_share_value"),
    "get_liability_amount": ({"name": "get_liability_amount", "crate": "marginfi", "self_adt": "Bank"}, ["Result::Ok{checked_mul(p1.liability_share_value,p2)}"], "liability amount = shares * liability_share_value"),
    "get_asset_shares": ({"name": "get_asset_shares", "crate": "marginfi", "self_adt": "Bank"}, ["phi(Result::Ok{0}|Result::Ok{checked_div(p2,p1.asset_share_value)})", "Result::Ok{checked_div(p2,p1.asset_share_value)}"],
                         "asset shares = amount / asset_share_value (0 for a wiped-out bank)"),
    "get_liability_shares": ({"name": "get_liability_shares", "crate": "marginfi", "self_adt": "Bank"}, ["Result::Ok{checked_div(p2,p1.liability_share_value)}"], "liability shares = amount / liability_share_value"),
    "accrued-per-period": ({"name": "calc_accrued_interest_payment_per_period", "crate": "marginfi"}, ["Option::Some{checked_mul(checked_add(%s,checked_div(checked_mul(p1,p2),%s)),p3)}" % (ONE, YEAR)],
                           "new share value = value * (1 + apr * dt / SECONDS_PER_YEAR)"),
    "payment-for-period": ({"name": "calc_interest_payment_for_period", "crate": "marginfi"}, ["phi(Option::Some{0}|Option::Some{checked_div(checked_mul(p1,p2,p3),%s)})" % YEAR, "Option::Some{checked_div(checked_mul(p1,p2,p3),%s)}" % YEAR],
                           "fee payment = apr * dt * value / SECONDS_PER_YEAR"),
    "calc_value": ({"name": "calc_value", "crate": "marginfi"}, ["phi(Result::Ok{0}|Result::Ok{checked_div(checked_mul(p2,phi(checked_mul(p1,p4)|p1)),EXP_10_I80F48[p3])})"],
                   "value = amount [* weight] * price / 10^decimals"),
    "health-components": ({"name": "get_account_health_components", "crate": "marginfi", "self_adt": "RiskEngine"},
                          ["Result::Ok{tuple{phi(0|checked_add(calc_weighted_value(next(into_iter(enumerate(iter(p1.bank_accounts_with_price)))).1,to_weight_type(p2),p1.emode_config).0,loop)),phi(0|checked_add(calc_weighted_value(next(into_iter(enumerate(iter(p1.bank_accounts_with_price)))).1,to_weight_type(p2),p1.emode_config).1,loop))}}"],
                          "(assets, liabilities) = (sum of component 0, sum of component 1) of calc_weighted_value over every balance, weighted for the requirement's weight type with the account's reconciled e-mode config"),
    "calc_weighted_value": ({"name": "calc_weighted_value", "crate": "marginfi", "self_adt": "BankAccountWithPriceFeed"},
                            ["phi(Result::Ok{tuple{0,0,0,0}}|Result::Ok{tuple{0,calc_weighted_liab_value(p1,p2,load(p1.bank)).0,calc_weighted_liab_value(p1,p2,load(p1.bank)).1,0}}|Result::Ok{tuple{calc_weighted_asset_value(p1,p2,load(p1.bank),p3).0,0,calc_weighted_asset_value(p1,p2,load(p1.bank),p3).1,calc_weighted_asset_value(p1,p2,load(p1.bank),p3).2}})"],
                            "(asset value, liability value, price, error) = (asset valuation, 0, ..) for a deposit, (0, liability valuation, ..) for a debt, zeros for an empty balance"),
    "calc_amount": ({"name": "calc_amount", "crate": "marginfi"}, ["Result::Ok{checked_div(checked_mul(EXP_10_I80F48[p3],p1),p2)}"], "amount = value * 10^decimals / price"),
    "calculate_max_leverage": ({"name": "calculate_max_leverage", "crate": "marginfi"}, ["phi(Result::Err{MarginfiError::BadEmodeConfig{}}|Result::Ok{checked_div(%s,sub(%s,checked_div(p1,p2)))})" % (ONE, ONE)],
                               "max leverage = 1 / (1 - asset_weight / liability_weight)"),
    "is_zero_with_tolerance": ({"name": "is_zero_with_tolerance", "crate": "marginfi"}, ["lt(abs(p1),p2)"], "|x| < tolerance"),
    "is_positive_with_tolerance": ({"name": "is_positive_with_tolerance", "crate": "marginfi"}, ["gt(p1,p2)", "lt(p2,p1)"], "x > tolerance"),
    "remaining-deposit-capacity": ({"name": "get_remaining_deposit_capacity", "crate": "marginfi"},
                                   ["phi(Result::Ok{0}|Result::Ok{%s}|Result::Ok{checked_to_num(checked_floor(checked_sub(checked_sub(phi(p1.config.deposit_limit|scale_drift_deposit_limit(p1.config.deposit_limit,p1.mint_decimals)),get_asset_amount(p1,p1.total_asset_shares)),%s)))})" % (U64MAX, ONE)],
                                   "capacity = floor(limit - deposits - 1); 0 when full; u64::MAX when unlimited"),
    "pre-fee-amount": ({"name": "calculate_pre_fee_amount", "crate": "marginfi"}, ["phi(Option::Some{0}|Option::Some{p2}|ceil_div(checked_mul(10000,p2),checked_sub(10000,p1.transfer_fee_basis_points))|checked_add(p1.maximum_fee,p2))"],
                       "gross-up: ceil(post * 10000 / (10000 - bps)), capped by the maximum fee"),
    "post-fee-deposit": ({"name": "calculate_post_fee_spl_deposit_amount", "crate": "marginfi"}, ["phi(Result::Ok{checked_sub(p2,phi(0|calculate_epoch_fee(get_extension(unpack(try_borrow_data(p1))),p3,p2)))}|Result::Ok{p2})"],
                         "received = sent - Token-2022 epoch fee (sent for plain SPL mints)"),
    "adjust_i64": ({"name": "adjust_i64", "crate": "marginfi_type_crate"}, ["checked_to_num(checked_mul(p1,p2))"], "raw * ratio, checked"),
    "adjust_u64": ({"name": "adjust_u64", "crate": "marginfi_type_crate"}, ["checked_to_num(checked_mul(p1,p2))"], "raw * ratio, checked"),
    "adjust_i128": ({"name": "adjust_i128", "crate": "marginfi_type_crate"}, ["checked_to_num(checked_mul(i80_from_i128_checked(p1),p2))"], "raw * ratio, checked"),
    "collateral_to_liquidity": ({"name": "collateral_to_liquidity_from_scaled", "crate": "marginfi_type_crate"}, ["phi(Option::None{}|checked_to_num(checked_div(checked_mul(p1,p2),p3)))", "checked_to_num(checked_div(checked_mul(p1,p2),p3))"],
                                "liquidity = collateral * total_liq / total_col (floor)"),
    "liquidity_to_collateral": ({"name": "liquidity_to_collateral_from_scaled", "crate": "marginfi_type_crate"}, ["phi(Option::None{}|checked_to_num(checked_div(checked_mul(p1,p3),p2)))", "checked_to_num(checked_div(checked_mul(p1,p3),p2))"],
                                "collateral = liquidity * total_col / total_liq (floor)"),
    "drift-withdraw-token-amount": ({"name": "get_withdraw_token_amount", "crate": "drift_mocks"}, ["Result::Ok{checked_div(checked_mul(from_le_bytes(p1.cumulative_deposit_interest),p2),get_precision_increase(p1.decimals))}"],
                                    "tokens = scaled * cumulative_deposit_interest / precision_increase (floor)"),
    "drift-adjust-oracle": ({"name": "adjust_oracle_value_u128", "crate": "drift_mocks"}, ["Result::Ok{checked_div(checked_mul(from_le_bytes(p1.cumulative_deposit_interest),p2),10000000000)}"],
                            "adjusted = raw * cumulative_deposit_interest / 10^10 (floor)"),
}


DEEP_FILE = os.path.join(os.path.dirname(os.path.abspath(__file__)), "deep_snapshot.json")
_DEEP = None


class _Timeout(Exception):
    pass


def _with_budget(seconds, fn):
    """run fn() under a wall-clock budget (SIGALRM; main thread only - elsewhere it simply runs); None when it ran out"""
    import signal
    import threading
    if threading.current_thread() is not threading.main_thread():
        return fn()

    def _h(sig, frm):
        raise _Timeout()
    old = signal.signal(signal.SIGALRM, _h)
    signal.setitimer(signal.ITIMER_REAL, seconds)
    try:
        return fn()
    except _Timeout:
        return None
    finally:
        signal.setitimer(signal.ITIMER_REAL, 0)
        signal.signal(signal.SIGALRM, old)


def deep_sig(prog, f, budget=None):
    if budget:
        return _with_budget(budget, lambda: deep_sig(prog, f))
    return _deep_sig(prog, f)


def _deep_sig(prog, f):
    """path table of the *deep form* of f (bodies of its same-crate callees spliced in, engine/inline.py deep_fn): the same for two
    versions of f that differ only in where helper boundaries are.  None when it is too large to be useful."""
    from engine import inline
    for depth in (2, 1):
        # two levels of callees where that stays small enough to be a meaningful table, otherwise one level (tagged, so that only like is
        # compared with like)
        try:
            g = inline.deep_fn(prog, f, depth=depth)
            sig = leaf_sig(prog, g, keep_known_errors=True)
        except _Timeout:
            raise
        except Exception:
            sig = None
        if sig and len(sig) <= 64 and sum(len(x) for x in sig) <= 40000:
            return sig if depth == 2 else ["(one level of callees)"] + sig
    return None


def deep_reviewed(key):
    global _DEEP
    if _DEEP is None:
        try:
            _DEEP = json.load(open(DEEP_FILE))
        except Exception:
            _DEEP = {}
    return _DEEP.get(key)


def same_modulo_helper_boundaries(prog, f, key):
    """fallback of every content pin: the function's deep form equals the reviewed deep form (a helper was extracted from it, inlined
    into it, merged or split - its behaviour as a whole is unchanged)"""
    want = deep_reviewed(key)
    if not want:
        return False
    got = deep_sig(prog, f)
    return got is not None and got == want


def check_kernels(ctx, rule, names):
    prog = ctx.prog
    for nm in names:
        spec, accepted, meaning = KERNELS[nm]
        fs = prog.find_fns(spec)
        if len(fs) != 1:
            ctx.missing(rule, "kernel " + nm)
            continue
        f = fs[0]
        got = ret_tree(prog, f)
        ok = got in accepted
        note = "ok"
        if not ok and same_modulo_helper_boundaries(prog, f, "K|" + nm):
            ok, note = True, "ok (equal to the reviewed function modulo helper boundaries)"
        ctx.inst(rule, "kernel/" + nm, ok, "%s: %s" % (f.name, meaning), got if not ok else note, f.loc(f.raw["span"]))


# ------------------------------------------------------------------------------------------------------------------
# Leaf helpers (flag words, balance predicates, e-mode predicates, loss socialisation): complete path tables
# "conditions => return value | stores", overflow (`?` on checked_*) branches left out.

def leaf_sig(prog, f, keep_known_errors=False):
    sig = []
    for cs, r, st in effect_paths(prog, f, inline=1):
        if keep_known_errors and r and r.startswith("from_residual(Result::Err{") and r.endswith(")") and "undef" not in r:
            # deep forms: `helper()?` whose spliced body returns a literal Err is the same as returning that Err directly
            # (a helper with its own error exits inlined into / extracted from its caller)
            r = r[len("from_residual("):-1]
        if r and r.startswith("from_residual("):
            continue
        if (r and "undef" in r) or any("undef" in c for c in cs):
            continue          # error path of a spliced callee's own `?` (its result is never produced)
        cs = [c for c in cs if not c.startswith("discr(checked_")]
        sig.append("%s => %s | %s" % (" & ".join(cs) or "always", r, ", ".join("%s := %s" % kv for kv in sorted(st.items())) or "-"))
    return sorted(set(sig))


ASV = "checked_div(sub(checked_mul(p1.asset_share_value,p1.total_asset_shares),p2),p1.total_asset_shares)"
TOT = "checked_mul(p1.asset_share_value,p1.total_asset_shares)"
LEAVES = {
    "account.get_flag": ({"name": "get_flag", "key_re": r"marginfi_account::\{impl#\d+\}::get_flag$"}, [["always => ne(0,bitand(p1.account_flags,p2)) | -"], ["always => eq(bitand(p1.account_flags,p2),p2) | -"]],
                         "an account flag is set iff its bit is set in account_flags"),
    "account.set_flag": ({"name": "set_flag", "key_re": r"marginfi_account::\{impl#\d+\}::set_flag$"}, [["not(p3) => const | p1.account_flags := bitor(p1.account_flags,p2)", "p3 => const | p1.account_flags := bitor(p1.account_flags,p2)"],
                                                                                                      ["always => const | p1.account_flags := bitor(p1.account_flags,p2)"]], "set_flag ORs the bit in, leaving the others"),
    "account.unset_flag": ({"name": "unset_flag", "key_re": r"marginfi_account::\{impl#\d+\}::unset_flag$"}, [["not(p3) => const | p1.account_flags := bitand(not(p2),p1.account_flags)", "p3 => const | p1.account_flags := bitand(not(p2),p1.account_flags)"],
                                                                                                          ["always => const | p1.account_flags := bitand(not(p2),p1.account_flags)"]], "unset_flag clears exactly that bit"),
    "bank.get_flag": ({"name": "get_flag", "key_re": r"state::bank::\{impl#\d+\}::get_flag$"}, [["always => eq(bitand(p1.flags,p2),p2) | -"], ["always => ne(0,bitand(p1.flags,p2)) | -"]], "a bank flag is set iff its bit(s) are set in flags"),
    "bank.update_flag": ({"name": "update_flag", "key_re": r"state::bank::\{impl#\d+\}::update_flag$"}, [["not(p2) & verify_group_flags(p3) => const | p1.flags := bitand(not(p3),p1.flags)", "p2 & verify_group_flags(p3) => const | p1.flags := bitor(p1.flags,p3)"]],
                         "update_flag(true) ORs the group flag in, update_flag(false) clears it; any other flag value panics"),
    "bank.socialize_loss": ({"name": "socialize_loss", "key_re": r"state::bank::\{impl#\d+\}::socialize_loss$"},
                            [["eq(0,%s) & lt(p2,%s) => Result::Ok{1} | p1.asset_share_value := %s" % (ASV, TOT, ASV), "le(%s,p2) => Result::Ok{1} | p1.asset_share_value := 0" % TOT,
                              "lt(p2,%s) & ne(0,%s) => Result::Ok{0} | p1.asset_share_value := %s" % (TOT, ASV, ASV)]],
                            "loss >= total deposits: share value 0 and kill; otherwise share value = (total - loss) / shares, kill iff that is zero"),
    "drift.scale_deposit_limit": ({"name": "scale_drift_deposit_limit", "crate": "drift_mocks"},
                                  [["eq(9,p2) => Result::Ok{p1} | -", "le(9,p2) & ne(9,p2) => checked_div(p1,EXP_10_I80F48[sub(p2,9)]) | -", "lt(p2,9) & ne(9,p2) => checked_mul(EXP_10_I80F48[sub(9,p2)],p1) | -"],
                                   ["le(9,p2) => checked_div(p1,EXP_10_I80F48[sub(p2,9)]) | -", "lt(p2,9) => checked_mul(EXP_10_I80F48[sub(9,p2)],p1) | -"]],
                                  "native deposit limit -> Drift 9-decimal units: * 10^(9-d) for d < 9, / 10^(d-9) for d > 9, unchanged for d = 9"),
    "general.is_integration_asset_tag": ({"name": "is_integration_asset_tag", "crate": "marginfi"}, [["p1 == 3 => 1 | -", "p1 == 4 => 1 | -", "p1 == 5 => 1 | -", "p1 notin [3, 4, 5] => 0 | -"]],
                                         "integration tags are exactly Kamino (3), Drift (4), Solend (5)"),
    "panic_cache.update": ({"name": "update_from_panic_state", "crate": "marginfi_type_crate"},
                           [["always => const | p1.last_cache_update := p3, p1.pause_flags := p2.pause_flags, p1.pause_start_timestamp := p2.pause_start_timestamp"]],
                           "the group's cached pause state is a verbatim copy of the fee state's flags and start time, stamped with the propagation time"),
    "group.program_fees_enabled": ({"name": "program_fees_enabled", "crate": "marginfi"}, [["always => ne(0,bitand(1,p1.group_flags)) | -"], ["always => eq(bitand(1,p1.group_flags),1) | -"]], "PROGRAM_FEES_ENABLED (bit 0) of group_flags"),
    "balance.is_empty": ({"name": "is_empty", "self_adt": "Balance"}, [["discr(p2)@BalanceSide == 0 => lt(p1.asset_shares,%s) | -" % ONE, "discr(p2)@BalanceSide == 1 => lt(p1.liability_shares,%s) | -" % ONE]], "a side is empty iff its shares < EMPTY_BALANCE_THRESHOLD (1)"),
    "balance.get_side": ({"name": "get_side", "self_adt": "Balance"}, [["le(%s,p1.asset_shares) & lt(p1.liability_shares,%s) => Option::Some{BalanceSide::Assets{}} | -" % (ONE, ONE),
                                                                       "le(%s,p1.liability_shares) & lt(p1.asset_shares,%s) => Option::Some{BalanceSide::Liabilities{}} | -" % (ONE, ONE),
                                                                       "lt(p1.asset_shares,%s) & lt(p1.liability_shares,%s) => Option::None{} | -" % (ONE, ONE)]], "the side of a balance; both non-empty is refused (assert)"),
    "balance.is_active": ({"name": "is_active", "self_adt": "Balance"}, [["always => ne(0,p1.active) | -"]], "active != 0"),
    "balance.set_active": ({"name": "set_active", "self_adt": "Balance"}, [["always => const | p1.active := p2"]], "active := value"),
    "emode.entry_is_empty": ({"name": "is_empty", "self_adt": "EmodeEntry"}, [["always => eq(0,p1.collateral_bank_emode_tag) | -"]], "an entry is empty iff its tag is 0"),
    "emode.has_entries": ({"name": "has_entries", "self_adt": "EmodeConfig"}, [["always => any(iter(p1.entries),closure{not(is_empty(a2))}) | -"]], "a config has entries iff some entry is non-empty"),
    "emode.tag_equals": ({"name": "tag_equals", "self_adt": "EmodeEntry"}, [["always => eq(p1.collateral_bank_emode_tag,p2) | -"]], "entry tag == wanted tag"),
    "emode.find_with_tag": ({"name": "find_with_tag", "self_adt": "EmodeConfig"}, [["eq(0,p2) => Option::None{} | -", "ne(0,p2) => find(iter(p1.entries),closure{tag_equals(a2,p2)}) | -"]], "tag 0 matches nothing; otherwise the entry with that tag"),
}


def check_leaves(ctx, rule, names):
    prog = ctx.prog
    for nm in names:
        spec, accepted, meaning = LEAVES[nm]
        fs = prog.find_fns(spec)
        if len(fs) != 1:
            ctx.missing(rule, "leaf helper " + nm)
            continue
        f = fs[0]
        got = leaf_sig(prog, f)
        ok = got in [sorted(a) for a in accepted]
        note = "ok"
        if not ok and same_modulo_helper_boundaries(prog, f, "L|" + nm):
            ok, note = True, "ok (equal to the reviewed function modulo helper boundaries)"
        ctx.inst(rule, "leaf/" + nm, ok, "%s: %s" % (f.name, meaning), got if not ok else note, f.loc(f.raw["span"]))
