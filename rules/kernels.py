"""Numeric kernels pinned as canonical expression trees (see rules/common.py expr_tree): small pure helpers whose
operand order / operator choice decides a property and which provenance-level rules cannot see.  A kernel passes when the
canonical tree of its return value is one of the accepted forms; trees are insensitive to temporaries, naming, statement
order, `?`/into()/casts, commutative operand order and associative nesting."""
from .common import *

ONE = str(1 << 48)
YEAR = str(31_536_000 << 48)
U64MAX = str((1 << 64) - 1)

# name -> (find spec, [accepted trees], meaning)
KERNELS = {
    "get_asset_amount": ({"name": "get_asset_amount", "crate": "marginfi", "self_adt": "Bank"}, ["Result::Ok{checked_mul(p1.asset_share_value,p2)}"], "asset amount = shares * asset_share_value"),
    "get_liability_amount": ({"name": "get_liability_amount", "crate": "marginfi", "self_adt": "Bank"}, ["Result::Ok{checked_mul(p1.liability_share_value,p2)}"], "liability amount = shares * liability_share_value"),
    "get_asset_shares": ({"name": "get_asset_shares", "crate": "marginfi", "self_adt": "Bank"}, ["phi(Result::Ok{0}|Result::Ok{checked_div(p2,p1.asset_share_value)})", "Result::Ok{checked_div(p2,p1.asset_share_value)}"],
                         "asset shares = amount / asset_share_value (0 for a wiped-out bank)"),
    "get_liability_shares": ({"name": "get_liability_shares", "crate": "marginfi", "self_adt": "Bank"}, ["Result::Ok{checked_div(p2,p1.liability_share_value)}"], "liability shares = amount / liability_share_value"),
    "accrued-per-period": ({"name": "calc_accrued_interest_payment_per_period", "crate": "marginfi"}, ["Option::Some{checked_mul(checked_add(%s,checked_div(checked_mul(p1,p2),%s)),p3)}" % (ONE, YEAR)],
                           "new share value = value * (1 + apr * dt / SECONDS_PER_YEAR)"),
    "payment-for-period": ({"name": "calc_interest_payment_for_period", "crate": "marginfi"}, ["phi(Option::Some{0}|Option::Some{checked_div(checked_mul(p1,p2,p3),%s)})" % YEAR, "Option::Some{checked_div(checked_mul(p1,p2,p3),%s)}" % YEAR],
                           "fee payment = apr * dt * value / SECONDS_PER_YEAR"),
    "calc_value": ({"name": "calc_value", "crate": "marginfi"}, ["phi(Result::Ok{0}|Result::Ok{checked_div(checked_mul(p2,phi(checked_mul(p1,p4)|p1)),EXP_10_I80F48[p3])})"],
                   "value = amount [* weight] * price / 10^decimals"),
    "calc_amount": ({"name": "calc_amount", "crate": "marginfi"}, ["Result::Ok{checked_div(checked_mul(EXP_10_I80F48[p3],p1),p2)}"], "amount = value * 10^decimals / price"),
    "calculate_max_leverage": ({"name": "calculate_max_leverage", "crate": "marginfi"}, ["phi(Result::Err{MarginfiError::BadEmodeConfig{}}|Result::Ok{checked_div(%s,sub(%s,checked_div(p1,p2)))})" % (ONE, ONE)],
                               "max leverage = 1 / (1 - asset_weight / liability_weight)"),
    "is_zero_with_tolerance": ({"name": "is_zero_with_tolerance", "crate": "marginfi"}, ["lt(abs(p1),p2)"], "|x| < tolerance"),
    "is_positive_with_tolerance": ({"name": "is_positive_with_tolerance", "crate": "marginfi"}, ["gt(p1,p2)", "lt(p2,p1)"], "x > tolerance"),
    "remaining-deposit-capacity": ({"name": "get_remaining_deposit_capacity", "crate": "marginfi"},
                                   ["phi(Result::Ok{0}|Result::Ok{%s}|Result::Ok{checked_to_num(checked_floor(checked_sub(checked_sub(phi(from_num(p1.config.deposit_limit)|scale_drift_deposit_limit(p1.config.deposit_limit,p1.mint_decimals)),get_asset_amount(p1,p1.total_asset_shares)),%s)))})" % (U64MAX, ONE)],
                                   "capacity = floor(limit - deposits - 1); 0 when full; u64::MAX when unlimited"),
    "pre-fee-amount": ({"name": "calculate_pre_fee_amount", "crate": "marginfi"}, ["phi(Option::Some{0}|Option::Some{p2}|checked_add(p1.maximum_fee,p2)|ok(ceil_div(checked_mul(10000,p2),checked_sub(10000,p1.transfer_fee_basis_points))))"],
                       "gross-up: ceil(post * 10000 / (10000 - bps)), capped by the maximum fee"),
    "post-fee-deposit": ({"name": "calculate_post_fee_spl_deposit_amount", "crate": "marginfi"}, ["phi(Result::Ok{checked_sub(p2,phi(0|calculate_epoch_fee(get_extension(unpack(try_borrow_data(p1))),p3,p2)))}|Result::Ok{p2})"],
                         "received = sent - Token-2022 epoch fee (sent for plain SPL mints)"),
    "adjust_i64": ({"name": "adjust_i64", "crate": "marginfi_type_crate"}, ["checked_to_num(checked_mul(from_num(p1),p2))"], "raw * ratio, checked"),
    "adjust_u64": ({"name": "adjust_u64", "crate": "marginfi_type_crate"}, ["checked_to_num(checked_mul(from_num(p1),p2))"], "raw * ratio, checked"),
    "adjust_i128": ({"name": "adjust_i128", "crate": "marginfi_type_crate"}, ["checked_to_num(checked_mul(i80_from_i128_checked(p1),p2))"], "raw * ratio, checked"),
    "collateral_to_liquidity": ({"name": "collateral_to_liquidity_from_scaled", "crate": "marginfi_type_crate"}, ["phi(Option::None{}|checked_to_num(checked_div(checked_mul(from_num(p1),p2),p3)))", "checked_to_num(checked_div(checked_mul(from_num(p1),p2),p3))"],
                                "liquidity = collateral * total_liq / total_col (floor)"),
    "liquidity_to_collateral": ({"name": "liquidity_to_collateral_from_scaled", "crate": "marginfi_type_crate"}, ["phi(Option::None{}|checked_to_num(checked_div(checked_mul(from_num(p1),p3),p2)))", "checked_to_num(checked_div(checked_mul(from_num(p1),p3),p2))"],
                                "collateral = liquidity * total_col / total_liq (floor)"),
    "drift-withdraw-token-amount": ({"name": "get_withdraw_token_amount", "crate": "drift_mocks"}, ["Result::Ok{checked_div(checked_mul(from_le_bytes(p1.cumulative_deposit_interest),p2),get_precision_increase(p1.decimals))}"],
                                    "tokens = scaled * cumulative_deposit_interest / precision_increase (floor)"),
    "drift-adjust-oracle": ({"name": "adjust_oracle_value_u128", "crate": "drift_mocks"}, ["Result::Ok{checked_div(checked_mul(from_le_bytes(p1.cumulative_deposit_interest),p2),10000000000)}"],
                            "adjusted = raw * cumulative_deposit_interest / 10^10 (floor)"),
}


def check_kernels(ctx, rule, names):
    prog = ctx.prog
    for nm in names:
        spec, accepted, meaning = KERNELS[nm]
        fs = prog.find_fns(spec)
        if len(fs) != 1:
            ctx.missing(rule, "kernel " + nm)
            continue
        f = fs[0]
        got = ret_tree(prog, f)
        ctx.inst(rule, "kernel/" + nm, got in accepted, "%s: %s" % (f.name, meaning), got if got not in accepted else "ok", f.loc(f.raw["span"]))
