"""C17 Caps and utilization (structural clauses only)."""
from engine import analysis as A, fde
from engine.model import op_place
from .common import *

INFO = {
    "explanation": "Decided statically: (R1) cap atoms: BankAssetCapacityExceeded = error_if(total deposits >= deposit limit) reached exactly "
                   "when the share change is positive, the limit is active and bypass is false; likewise BankLiabilityCapacityExceeded with the "
                   "borrow limit; a limit is inactive iff it equals u64::MAX; the compared total is computed after the change with the matching "
                   "converter; (R2) bypass=true reaches the bank-level changers only from the two *_ignore_* primitives (BypassDepositLimit / "
                   "BypassBorrowLimit), which only liquidation calls; (R3) utilization: IllegalUtilizationRatio = error_if(assets < liabilities) with "
                   "matching converters, on every successful path of the decrease primitive except the BypassBorrowLimit edge, and of full-withdraw; "
                   "(R4) up-to-limit: the deposit amount is min(amount, remaining capacity) on the flag's true edge; capacity = floor(limit - current - 1), "
                   "0 when current >= limit, u64::MAX when inactive; the capacity read is dominated by the accrual on the same bank. "
                   "Not decided: numeric interaction with share-value scaling.",
    "assumptions": ["fixed-point comparison semantics of the `fixed` crate"],
}


def _run(ctx):
    prog = ctx.prog
    # anchors: the two bank-level changers by semantic signature
    def sole(owner, fld):
        ws = [k for k, kinds in writers_of(prog, owner, fld) if "assign" in kinds]
        return prog.fns[ws[0]] if len(ws) == 1 else None
    ca = sole(BANK, "total_asset_shares")
    cl = sole(BANK, "total_liability_shares")
    if ca is None or cl is None:
        ctx.missing("C17.R1", "bank-level share changers")
        return
    # ------------------------------------------------------------ R1
    ctx.floor("C17.R1", 8)
    for f, err, limit_field, conv, active in ((ca, "BankAssetCapacityExceeded", "deposit_limit", "get_asset_amount", "is_deposit_limit_active"),
                                              (cl, "BankLiabilityCapacityExceeded", "borrow_limit", "get_liability_amount", "is_borrow_limit_active")):
        ev = A.error_variant_blocks(f, err)
        if not ev:
            ctx.inst("C17.R1", "cap-atom/" + err, False, "%s constructed in the bank-level changer" % err, "absent", f.loc(f.raw["span"]))
            continue
        atoms = A.guard_atoms(prog, f, ev, ctx.slicer)
        conds = A.edge_conditions_to(prog, f, ev[0], ctx.slicer, limit=30)
        tot_field = "total_asset_shares" if f is ca else "total_liability_shares"
        g = [a for a in atoms if a.kind == "cmp" and a.rel == "le" and a.lhs.has_field(BANKCFG, limit_field) and a.rhs.has_call(prog, {"name": conv}) and a.rhs.has_field(BANK, tot_field)]
        ctx.inst("C17.R1", "cap-atom/" + err, len(atoms) == 1 and len(g) == 1, "error_if(%s(total shares after the change) >= %s)" % (conv, limit_field), [a.describe() for a in atoms][:3], f.bloc(ev[0]))
        pos = [a for a in conds if a.kind == "call" and a.callee.endswith("::is_positive") and a.truth is True and a.args and 2 in a.args[0].params]
        act = [a for a in conds if a.kind == "call" and a.callee.endswith("::" + active) and a.truth is True]
        byp = [a for a in conds if a.kind == "bool" and a.truth is False and a.lhs is not None and a.lhs.params == {3}]
        ctx.inst("C17.R1", "cap-conditions/" + err, bool(pos) and bool(act) and bool(byp), "the cap is evaluated only for a positive change, an active limit and bypass == false",
                 [a.describe() for a in conds][:6], f.bloc(ev[0]))
        # exhaustive: the cap comparison is reached for (positive, active, !bypass) and skipped otherwise
        tbl = {}
        okall = True
        for p in (0, 1):
            for ac in (0, 1):
                for b in (0, 1):
                    hit = {"n": 0}

                    def st_ge(i, a):
                        hit["n"] += 1
                        return fde.Int(0)
                    it = fde.Interp(prog, max_depth=0, stubs={"is_positive": lambda i, a, p=p: fde.Int(p), active: lambda i, a, ac=ac: fde.Int(ac), "ge": st_ge,
                                                              "checked_add": lambda i, a: fde.Adt("core::option::Option", 1, {0: fde.Cell(fde.TOP)}),
                                                              "ok_or_else": lambda i, a: fde.Adt("core::result::Result", 0, {0: fde.Cell(fde.TOP)}),
                                                              conv: lambda i, a: fde.Adt("core::result::Result", 0, {0: fde.Cell(fde.TOP)}),
                                                              "scale_drift_deposit_limit": lambda i, a: fde.Adt("core::result::Result", 0, {0: fde.Cell(fde.TOP)})})
                    outs = it.run(f, [fde.Ref(fde.Cell(fde.Adt(BANK, 0, {}))), fde.TOP, fde.Int(b)])
                    rets = [o for o in outs if o.kind == "return"]
                    reached_any = hit["n"] > 0
                    reached_all = bool(rets) and all("ge" in o.calls for o in rets)
                    want = bool(p and ac and not b)
                    tbl["positive=%d,active=%d,bypass=%d" % (p, ac, b)] = "always" if reached_all else ("sometimes" if reached_any else "never")
                    okall = okall and ((reached_all if want else not reached_any))
        ctx.tables["cap_reached/" + err] = tbl
        ctx.inst("C17.R1", "cap-table/" + err, okall, "cap comparison evaluated iff positive && active && !bypass (8-cell table)", str(tbl), f.loc(f.raw["span"]))
    for nm, fld in (("is_deposit_limit_active", "deposit_limit"), ("is_borrow_limit_active", "borrow_limit")):
        for f in prog.find_fns({"name": nm, "crate": "marginfi"}):
            found = False
            for bi, bb in enumerate(f.blocks):
                for s in bb["s"]:
                    v = s.get("v")
                    if v and v["r"] == "bin" and v["op"] in ("Ne", "Eq") and s["d"]["l"] == 0:
                        a = ctx.slicer.operand(f, v["a"][0], at=bi)
                        b = ctx.slicer.operand(f, v["a"][1], at=bi)
                        found = v["op"] == "Ne" and a.has_field(BANKCFG, fld) and (18446744073709551615 in b.ints or b.has_const("MAX"))
            ctx.inst("C17.R1", "limit-active/" + nm, found, "%s == (%s != u64::MAX)" % (nm, fld), "", f.loc(f.raw["span"]))

    # ------------------------------------------------------------ R2 bypass provenance
    wrappers = [f for f in prog.fns.values() if (f.info.get("self_adt") or "").endswith("BankAccountWrapper") and f.info["crate"] == "marginfi"]
    internals = [f for f in wrappers if any(c.key in (ca.key, cl.key) for c in f.calls()) and any(c.callee and c.callee["name"] in ("change_asset_shares", "change_liability_shares") and (c.callee.get("self_adt") or "").endswith("Balance") for c in f.calls())]
    ctx.inst("C17.R2", "internals", len(internals) == 2, "the two wrapper primitives (increase / decrease) are identified", [f.key for f in internals], None)
    INC = "state::marginfi_account::BalanceIncreaseType"
    DEC = "state::marginfi_account::BalanceDecreaseType"
    it0 = fde.Interp(prog)
    tbl = {}
    for f in internals:
        enum = INC if "increase" in f.name else DEC
        for v in it0.variants(enum):
            seen = []

            def st_changer(i, a, seen=seen):
                seen.append(a[2][1] if fde.is_int(a[2]) else None)
                return fde.Adt("core::result::Result", 0, {0: fde.Cell(("tuple", []))})
            okres = lambda i, a: fde.Adt("core::result::Result", 0, {0: fde.Cell(fde.TOP)})
            it = fde.Interp(prog, max_depth=0, max_forks=400, stubs={"change_asset_shares": lambda i, a: st_changer(i, a) if len(a) == 3 else okres(i, a),
                                                      "change_liability_shares": lambda i, a: st_changer(i, a) if len(a) == 3 else okres(i, a),
                                                      "claim_emissions": okres, "get_liability_amount": okres, "get_asset_amount": okres, "get_asset_shares": okres, "get_liability_shares": okres,
                                                      "check_utilization_ratio": okres, "is_zero_with_tolerance": lambda i, a: fde.Int(1), "is_positive_with_tolerance": lambda i, a: fde.TOP,
                                                      "get": lambda i, a: fde.Adt("core::result::Result", 0, {0: fde.Cell(fde.TOP)})})
            wrapper = fde.Adt(None, None, {})
            outs = it.run(f, [fde.Ref(fde.Cell(wrapper)), fde.TOP, it.enum_value(enum, v)])
            byp = sorted({x for x in seen if x is not None and x != 0})
            tbl["%s/%s" % (f.name, v)] = {"bypass_true_calls": sum(1 for x in seen if x == 1), "calls": len(seen)}
            want_true = v in ("BypassDepositLimit", "BypassBorrowLimit")
            # increase: asset changer gets bypass iff BypassDepositLimit (liability decrease always true); decrease: liability changer iff BypassBorrowLimit
            n_true = sum(1 for x in seen if x == 1)
            base = 1 if "increase" in f.name else 0      # the constant-true call for the liability decrease
            per_path = (base + (1 if want_true else 0))
            paths = max(1, len([o for o in outs if o.kind == "return"]))
            ctx.inst("C17.R2", "bypass-table/%s[%s]" % (f.name, v), len(seen) > 0 and n_true == per_path * (len(seen) // 2) if len(seen) % 2 == 0 else False,
                     "bypass flags handed to the bank-level changers for %s: %s" % (v, "limit bypassed" if want_true else "limit enforced"), "flags seen: %s" % seen[:8], f.loc(f.raw["span"]))
    ctx.tables["bypass_by_operation_type"] = tbl
    # entry points -> operation type map (C16.R4 shares the map; here only the two bypass entry points)
    for nm, enum, var in (("deposit_ignore_deposit_cap", "BalanceIncreaseType", "BypassDepositLimit"), ("withdraw_ignore_borrow_cap", "BalanceDecreaseType", "BypassBorrowLimit")):
        for f in [w for w in wrappers if w.name == nm]:
            for c in f.calls():
                if c.key in [i.key for i in internals]:
                    vs, _ = variant_arg(ctx, f, c, 2, enum)
                    ctx.inst("C17.R2", "entry/" + nm, vs == {var}, "%s passes %s" % (nm, var), sorted(vs), c.loc)
    for f in wrappers:
        if f in internals or f.name in ("deposit_ignore_deposit_cap", "withdraw_ignore_borrow_cap"):
            continue
        for c in f.calls():
            if c.key in [i.key for i in internals]:
                enum = "BalanceIncreaseType" if "increase" in prog.fns[c.key].name else "BalanceDecreaseType"
                vs, _ = variant_arg(ctx, f, c, 2, enum)
                ctx.inst("C17.R2", "entry/" + f.name, not (vs & {"BypassDepositLimit", "BypassBorrowLimit"}) and len(vs) == 1, "%s does not bypass limits" % f.name, sorted(vs), c.loc)
    try:
        liq = ctx.handler("C17.R2", "lending_account_liquidate")
        for nm in ("withdraw_ignore_borrow_cap", "deposit_ignore_deposit_cap"):
            users = sorted({k for k, f in prog.fns.items() if any(c.callee and c.callee["name"] == nm for c in f.calls())})
            ctx.inst("C17.R2", "only-liquidation/" + nm, users == [liq.key], "%s is called only from liquidation" % nm, users, None)
    except Exception as e:
        if e.__class__.__name__ != "AnchorMissing":
            raise

    # ------------------------------------------------------------ R3 utilization
    cur = prog.find_fns({"name": "check_utilization_ratio", "crate": "marginfi"})
    if len(cur) != 1:
        ctx.missing("C17.R3", "check_utilization_ratio")
    else:
        cur = cur[0]
        ev = A.error_variant_blocks(cur, "IllegalUtilizationRatio")
        atoms = A.guard_atoms(prog, cur, ev, ctx.slicer) if ev else []
        ARITH = [{"name": n} for n in ("checked_add", "checked_sub", "add", "sub", "saturating_add", "saturating_sub", "max", "min", "checked_div", "div", "mul")]
        def plain(p):
            return not any(p.has_call(prog, s) for s in ARITH)
        g = [a for a in atoms if a.kind == "cmp" and a.rel == "lt" and plain(a.lhs) and plain(a.rhs) and a.lhs.has_call(prog, {"name": "get_asset_amount"}) and a.lhs.has_field(BANK, "total_asset_shares") and not a.lhs.has_field(BANK, "total_liability_shares")
             and a.rhs.has_call(prog, {"name": "get_liability_amount"}) and a.rhs.has_field(BANK, "total_liability_shares") and not a.rhs.has_field(BANK, "total_asset_shares")]
        ok = bool(g) and A.must_pass(cur, [a.switch[0] for a in g])[0]
        ctx.inst("C17.R3", "utilization-atom", ok and len(atoms) == 1, "error_if(total deposits < total debt) on every successful path", [a.describe() for a in atoms][:3], cur.bloc(ev[0]) if ev else None)
        dec = [f for f in internals if "decrease" in f.name]
        for f in dec:
            uc = [c for c in f.calls() if c.key == cur.key]
            # skip allowed only over the BypassBorrowLimit edge: find switch on the op-type discriminant after which uc is skipped
            ok = False
            why = "no utilization check"
            if uc:
                can, w = A.can_succeed_avoiding(f, [c.block for c in uc])
                if not can:
                    ok = True
                else:
                    # the avoiding path must take an edge whose atom is variant BypassBorrowLimit of param 3
                    edges = []
                    for bi, bb in enumerate(f.blocks):
                        t = bb["t"]
                        if t["k"] != "switch":
                            continue
                        for arm in [int(a) for a, _ in t["arms"]] + ["else"]:
                            at = A.atom_of_edge(prog, f, bi, arm, ctx.slicer)
                            if at.kind == "variant" and at.lhs is not None and at.lhs.params == {3}:
                                tgt = [b for a2, b in t["arms"] if int(a2) == arm][0] if arm != "else" else t["else"]
                                edges.append((bi, tgt, at.variants))
                    adt = prog.adts[[k for k in prog.adts if k.endswith("::BalanceDecreaseType")][0]]
                    d2n = {int(v["discr"]): v["name"] for v in adt["variants"]}
                    byp_edges = set()
                    for (bi, tgt, vr) in edges:
                        kind, vals = vr
                        names = {d2n.get(x) for x in vals}
                        if kind == "in" and names == {"BypassBorrowLimit"}:
                            byp_edges.add((bi, tgt))
                    # threaded bool joins: edges into blocks only reachable with BypassBorrowLimit
                    can2, w2 = A.can_succeed_avoiding(f, [c.block for c in uc], removed_edges=byp_edges)
                    ok = bool(byp_edges) and not can2
                    why = "a path skipping the utilization check does not go through the BypassBorrowLimit edge" if not ok else "ok"
                ok = ok and all(A.consumed(f, c.block)[0] for c in uc)
            ctx.inst("C17.R3", "utilization-in-decrease", ok, "every successful decrease passes the checked utilization test unless the operation is BypassBorrowLimit", why if not ok else "ok", f.loc(f.raw["span"]))
        fw = [f for f in wrappers if any(c.key == ca.key for c in f.calls()) and f not in internals]
        for f in fw:
            uc = [c for c in f.calls() if c.key == cur.key]
            ok = bool(uc) and A.must_pass(f, [c.block for c in uc])[0] and all(A.consumed(f, c.block)[0] for c in uc)
            # and it follows the bank total change
            cb = [c.block for c in f.calls() if c.key == ca.key]
            after = all(any(u.block in f.reach_from(b) for u in uc) for b in cb) if uc else False
            ctx.inst("C17.R3", "utilization-in-full-withdraw/" + f.name, ok and after, "full withdrawal passes the checked utilization test after changing the bank total", "", f.loc(f.raw["span"]))
    ctx.floor("C17.R3", 3)

    # ------------------------------------------------------------ R4 up to limit
    cap = prog.find_fns({"name": "get_remaining_deposit_capacity", "crate": "marginfi"})
    if len(cap) != 1:
        ctx.missing("C17.R4", "get_remaining_deposit_capacity")
        return
    cap = cap[0]
    pv = ctx.slicer.local(cap, 0, path=(0,))
    must = [("call", {"name": "checked_floor"}), ("call", {"name": "checked_sub"}), ("const", "ONE"), ("field", BANKCFG, "deposit_limit"), ("field", BANK, "total_asset_shares"), ("call", {"name": "get_asset_amount"})]
    wiring(ctx, "C17.R4", "capacity/value", pv, must=must, must_not=[("call", {"name": "checked_ceil"}), ("field", BANK, "total_liability_shares")], loc=cap.loc(cap.raw["span"]), what="remaining capacity")
    # 0 when current >= limit ; MAX when inactive
    rets = []
    for bi, bb in enumerate(cap.blocks):
        for s in bb["s"]:
            v = s.get("v")
            if v and v["r"] == "agg" and v.get("ak") == "adt" and v["adt"] == A.RESULT and v["variant"] == "Ok" and s["d"]["l"] == 0:
                o = v["a"][0]
                ci = None
                k = o.get("k")
                if k and "v" in k and k["v"] and "int" in k["v"]:
                    ci = int(k["v"]["int"])
                if ci is not None:
                    conds = A.edge_conditions_to(prog, cap, bi, ctx.slicer)
                    rets.append((ci, conds, bi))
    zero = [r for r in rets if r[0] == 0 and any(a.kind == "cmp" and a.rel == "le" and a.lhs.has_field(BANKCFG, "deposit_limit") and a.rhs.has_call(prog, {"name": "get_asset_amount"}) for a in r[1])]
    mx = [r for r in rets if r[0] == 18446744073709551615 and any(a.kind == "call" and a.callee.endswith("::is_deposit_limit_active") and a.truth is False for a in r[1])]
    ctx.inst("C17.R4", "capacity/zero-when-full", bool(zero), "capacity is 0 exactly on the current >= limit edge", [(r[0], [a.describe() for a in r[1]][:2]) for r in rets], cap.loc(cap.raw["span"]))
    ctx.inst("C17.R4", "capacity/max-when-inactive", bool(mx), "capacity is u64::MAX exactly when the limit is inactive", "", cap.loc(cap.raw["span"]))
    for ixn in ("lending_account_deposit",):
        try:
            ix = ctx.ix("C17.R4", ixn)
        except Exception:
            continue
        h = ix["handlers"][0]
        skey = ix["struct"].key
        cc = [c for c in h.calls() if c.key == cap.key]
        mins = [c for c in h.calls() if c.callee and c.callee["name"] == "min" and len(c.args) == 2]
        okmin = False
        for c in mins:
            pa = [ctx.slicer.operand(h, a, at=c.block) for a in c.args]
            if any(p.params == {2} and not p.calls for p in pa) and any(p.has_call(prog, {"name": "get_remaining_deposit_capacity"}) for p in pa):
                okmin = True
                conds = A.edge_conditions_to(prog, h, c.block, ctx.slicer, limit=40)
                flag = [a for a in conds if a.truth is True and ((a.kind == "bool" and a.lhs is not None and 3 in a.lhs.params) or
                                                                  (a.kind == "call" and any(3 in x.params for x in a.args)))]
                okmin = bool(flag)
        ctx.inst("C17.R4", "deposit/min-with-capacity", okmin and len(cc) == 1, "with deposit_up_to_limit the booked amount is min(amount, remaining capacity)", "", cc[0].loc if cc else h.loc(h.raw["span"]))
        # the booked and transferred amount derive from that min (not from the raw amount alone on the flag edge)
        dep = [c for c in h.calls() if c.callee and c.callee["name"] == "deposit" and (c.callee.get("self_adt") or "").endswith("BankAccountWrapper")]
        for c in dep:
            pv = ctx.slicer.operand(h, c.args[1], at=c.block)
            ctx.inst("C17.R4", "deposit/booked-from-min", pv.has_call(prog, {"name": "min"}) and pv.has_call(prog, {"name": "get_remaining_deposit_capacity"}), "the booked deposit derives from the clamped amount", A._pvs(pv), c.loc)
        # capacity read dominated by the accrual on the same bank
        acc = [k for k, kinds in writers_of(prog, BANK, "liability_share_value") if "assign" in kinds]
        ac = [c for c in h.calls() if c.key in acc]
        if cc:
            dom = bool(ac) and A.set_dominates(h, [c.block for c in ac], cc[0].block)
            ctx.inst("C17.R4", "deposit/capacity-after-accrual", dom, "the remaining-capacity read is dominated by the interest accrual on the same bank (capacity is interest-inclusive)",
                     "capacity is read at %s before the accrual at %s" % (cc[0].loc, ac[0].loc if ac else "?") if not dom else "ok", cc[0].loc)


def run(ctx):
    from .kernels import check_kernels
    try:
        _run(ctx)
    finally:
        # numeric kernels this property's formulas rest on, pinned as canonical expression trees
        check_kernels(ctx, "C17.K", ['remaining-deposit-capacity'])
        from .kernels import check_leaves
        check_leaves(ctx, "C17.K", ['drift.scale_deposit_limit'])
