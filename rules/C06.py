"""C06 Interest accrual: accrue-first ordering and accrual wiring (structural clauses only)."""
from engine import analysis as A
from engine.model import op_place
from .common import *

INFO = {
    "explanation": "Decided statically: (R1) in deposit, withdraw, borrow, repay, close-balance, bankruptcy and liquidation "
                   "(both banks) a call to the accrual routine on the transacted bank, with a time argument taken from "
                   "Clock::get(), dominates every share mutation and its result is checked; (R2) wiring of the accrual routine: "
                   "last_update <- the time parameter on every non-early path, early return only on time_delta == 0, share "
                   "values <- the matching new share values, each fee bucket <- bucket + matching component under a >0 guard; "
                   "(R3) wiring of the state-change computation (lender index <- lending rate, borrower index <- borrowing rate, "
                   "fee payments <- matching fee rate on total liabilities; lending = base*utilization; borrowing uses all fee rates); "
                   "(R4) program fees are the zero pair unless add_program_fees, which derives from the group's PROGRAM_FEES_ENABLED flag. "
                   "Not decided: conservation within the fixed-point allowance, monotonicity of share values (numeric).",
    "assumptions": ["fixed-point arithmetic of the `fixed` crate", "Clock sysvar is the runtime's time",
                    "venue pass-through handlers and purge are exempt from accrue-first (share values constant / reasoned in DESIGN)"],
}

ACCRUE_FIRST = [
    ("lending_account_deposit", ["bank"]),
    ("lending_account_withdraw", ["bank"]),
    ("lending_account_borrow", ["bank"]),
    ("lending_account_repay", ["bank"]),
    ("lending_account_close_balance", ["bank"]),
    ("lending_pool_handle_bankruptcy", ["bank"]),
    ("lending_account_liquidate", ["asset_bank", "liab_bank"]),
    ("lending_pool_accrue_bank_interest", ["bank"]),
]

IRSC = "state::interest_rate::InterestRateStateChanges"
CIR = "ComputedInterestRates"


def accrual_fn(ctx):
    ks = [k for k, kinds in writers_of(ctx.prog, BANK, "liability_share_value") if "assign" in kinds]
    ks2 = {k for k, kinds in writers_of(ctx.prog, BANK, "last_update") if "assign" in kinds}
    ks = [k for k in ks if k in ks2]
    if len(ks) != 1:
        ctx.missing("C06.R2", "accrual routine (unique function assigning Bank.liability_share_value and Bank.last_update); found %s" % ks)
        return None
    return ctx.prog.fns[ks[0]]


def _run(ctx):
    prog = ctx.prog
    acc = accrual_fn(ctx)
    if acc is None:
        return
    akey = acc.key
    # ------------------------------------------------------------------ R1
    ctx.floor("C06.R1", 9)
    for ixn, bank_fields in ACCRUE_FIRST:
        try:
            ix = ctx.ix("C06.R1", ixn)
        except Exception:
            continue
        h = ix["handlers"][0]
        skey = ix["struct"].key
        calls = []
        for c in h.calls():
            if c.key == akey:
                pv = ctx.slicer.operand(h, c.args[0])
                tv = ctx.slicer.operand(h, c.args[1])
                calls.append((c, acct_fields(pv, skey), tv))
        mut_blocks = [b for b in A.write_blocks(prog, h, is_share_write)]
        for bf in bank_fields:
            construct = "%s/%s" % (ixn, bf)
            cands = [(c, tv) for (c, bfs, tv) in calls if bf in bfs]
            if not cands:
                ctx.inst("C06.R1", construct, False, "accrual called on Accounts field `%s` in %s" % (bf, h.key), "no such call", h.loc(h.raw["span"]))
                continue
            ev = [c.block for c, _ in cands]
            probs = []
            for c, tv in cands:
                if not (any(n == "unix_timestamp" for (_, n) in tv.fields) and any(k.endswith("::get") for k in tv.calls)):
                    probs.append("time argument does not derive from Clock::get().unix_timestamp (%s)" % A._pvs(tv))
                if not A.consumed(h, c.block)[0]:
                    probs.append("accrual result not checked")
            und = [b for b in mut_blocks if b not in ev and not A.set_dominates(h, ev, b)]
            if len(bank_fields) > 1:
                # two banks: every mutation must be dominated by *both* accruals (checked per bank here)
                pass
            if und:
                probs.append("share mutation not dominated by the accrual: %s" % [h.bloc(b) for b in und[:4]])
            # nothing else may move the bank's accrual timestamp before the accrual runs (a later accrual would see no elapsed time)
            acc_blocks = {c_.block for c_ in h.calls() if c_.key == akey}
            lu = [b for b in A.write_blocks(prog, h, lambda o, n: (o, n) == (BANK, "last_update")) if b not in acc_blocks]
            early = [b for b in lu if any(e in h.reachable(start=b) for e in ev)]
            if early:
                probs.append("Bank.last_update is written at %s before the accrual runs" % [h.bloc(b) for b in early[:3]])
            ctx.inst("C06.R1", construct, not probs, "accrual on `%s` (time from Clock) dominates all %d share-mutation sites, nothing stamps last_update before it, result checked" % (bf, len(mut_blocks)),
                     "; ".join(probs) or "ok", cands[0][0].loc)

    # ------------------------------------------------------------------ R2 accrual wiring
    irsc = adt_key(prog, IRSC)
    # last_update <- time param
    stores = field_stores(ctx, acc, BANK, "last_update")
    if not stores:
        ctx.missing("C06.R2", "assignment to Bank.last_update in the accrual routine")
    for bi, s, pv in stores:
        wiring(ctx, "C06.R2", "last_update", pv, must=[("param", 2)], loc=acc.bloc(bi), what="Bank.last_update")
    # early return only when time_delta == 0
    lu_blocks = [bi for bi, _, _ in stores]
    edges = []
    for bi, bb in enumerate(acc.blocks):
        t = bb["t"]
        if t["k"] != "switch":
            continue
        for arm in [int(a) for a, _ in t["arms"]] + ["else"]:
            at = A.atom_of_edge(prog, acc, bi, arm, ctx.slicer)
            if at.kind == "cmp" and at.rel == "eq":
                sides = [at.lhs, at.rhs]
                if any(0 in x.ints for x in sides) and any(x.has_field("Bank", "last_update") and 2 in x.params for x in sides):
                    tgt = [b for a, b in t["arms"] if int(a) == arm] if arm != "else" else [t["else"]]
                    edges.append((bi, tgt[0]))
    if not edges:
        ctx.inst("C06.R2", "early-return-guard", False, "a branch on (current_timestamp - last_update) == 0", "none found", acc.loc(acc.raw["span"]))
    else:
        # without that edge every successful path writes last_update
        rem = A.error_blocks(acc) | set(lu_blocks)
        r = A.reach_without(acc, rem, removed_edges=set(edges))
        rets = [b for b in acc.return_blocks() if b in r]
        ctx.inst("C06.R2", "early-return-guard", not rets,
                 "the only successful path of the accrual routine that skips `last_update = now` is the time_delta == 0 edge",
                 "other skipping path exists" if rets else "ok", acc.bloc(edges[0][0]))
    # share values
    for fld, src, other in [("asset_share_value", "new_asset_share_value", "new_liability_share_value"),
                            ("liability_share_value", "new_liability_share_value", "new_asset_share_value")]:
        st = field_stores(ctx, acc, BANK, fld)
        if not st:
            ctx.missing("C06.R2", "assignment to Bank.%s in accrual" % fld)
        for bi, s, pv in st:
            wiring(ctx, "C06.R2", fld, pv, must=[("field", irsc, src)], must_not=[("field", irsc, other)], loc=acc.bloc(bi), what="Bank." + fld)
    # fee buckets
    comps = {"collected_group_fees_outstanding": "group_fees_collected", "collected_insurance_fees_outstanding": "insurance_fees_collected",
             "collected_program_fees_outstanding": "protocol_fees_collected"}
    for bucket, comp in comps.items():
        st = field_stores(ctx, acc, BANK, bucket)
        if not st:
            ctx.missing("C06.R2", "assignment to Bank.%s in accrual" % bucket)
        others = [c for c in comps.values() if c != comp]
        for bi, s, pv in st:
            ok = wiring(ctx, "C06.R2", bucket, pv, must=[("field", irsc, comp), ("field", BANK, bucket), ("call", {"name": "checked_add"})],
                        must_not=[("field", irsc, o) for o in others], loc=acc.bloc(bi), what="Bank." + bucket)
            # guard: component > 0
            conds = A.edge_conditions_to(prog, acc, bi, ctx.slicer)
            g = [a for a in conds if a.kind == "cmp" and a.rel == "lt" and a.rhs.has_field(irsc, comp) and (0 in a.lhs.ints or a.lhs.has_const("ZERO"))]
            ctx.inst("C06.R2", bucket + "/guard", bool(g), "bucket update guarded by %s > 0" % comp,
                     "guards: %s" % [a.describe() for a in conds][:6] if not g else "ok", acc.bloc(bi))

    # inputs handed to the state-change computation (argument level)
    for c in acc.calls():
        if c.callee and c.callee["name"] == "calc_interest_rate_accrual_state_changes" and len(c.args) == 6:
            pa = [ctx.slicer.operand(acc, a, at=c.block) for a in c.args]
            def sides(pv):
                return {n for (o, n) in pv.fields if o == BANK and n in ("total_asset_shares", "total_liability_shares", "asset_share_value", "liability_share_value")}
            exp = [("time_delta", None), ("total_assets", {"total_asset_shares", "asset_share_value"}),
                   ("total_liabilities", {"total_liability_shares", "liability_share_value"}), ("calculator", None),
                   ("asset_share_value", {"asset_share_value"}), ("liability_share_value", {"liability_share_value"})]
            for i, (nm, want) in enumerate(exp):
                if want is None:
                    continue
                got = sides(pa[i])
                ctx.inst("C06.R2", "accrual-input/" + nm, got == want, "%s handed to the state-change computation derives from exactly Bank.{%s}" % (nm, ",".join(sorted(want))),
                         "Bank fields: %s" % sorted(got), c.loc)
            td = pa[0]
            ctx.inst("C06.R2", "accrual-input/time_delta", 2 in td.params and td.has_field(BANK, "last_update") and any(o.startswith("Sub") for o in td.ops),
                     "time_delta = current_timestamp - Bank.last_update", A._pvs(td), c.loc)
    # ------------------------------------------------------------------ R3 state-change wiring
    try:
        sc = ctx.fn("C06.R3", lambda d: d["crate"] == "marginfi" and d["kind"] == "Fn" and d["name"] == "calc_interest_rate_accrual_state_changes")
    except Exception:
        sc = None
    if sc is not None:
        cir = adt_key(prog, CIR)
        # parameter indexes by name
        pn = {sc.varname(i): i for i in range(1, sc.argc + 1)}
        exp = {
            "new_asset_share_value": ([("field", cir, "lending_rate_apr"), ("param", pn.get("asset_share_value", 5)), ("param", pn.get("time_delta", 1))],
                                      [("field", cir, "borrowing_rate_apr"), ("param", pn.get("liability_share_value", 6))]),
            "new_liability_share_value": ([("field", cir, "borrowing_rate_apr"), ("param", pn.get("liability_share_value", 6)), ("param", pn.get("time_delta", 1))],
                                          [("field", cir, "lending_rate_apr"), ("param", pn.get("asset_share_value", 5))]),
            "insurance_fees_collected": ([("field", cir, "insurance_fee_apr"), ("param", pn.get("total_liabilities_amount", 3))],
                                         [("field", cir, "group_fee_apr"), ("field", cir, "protocol_fee_apr")]),
            "group_fees_collected": ([("field", cir, "group_fee_apr"), ("param", pn.get("total_liabilities_amount", 3))],
                                     [("field", cir, "insurance_fee_apr"), ("field", cir, "protocol_fee_apr")]),
            "protocol_fees_collected": ([("field", cir, "protocol_fee_apr"), ("param", pn.get("total_liabilities_amount", 3))],
                                        [("field", cir, "insurance_fee_apr"), ("field", cir, "group_fee_apr")]),
        }
        for fld, (must, mustnot) in exp.items():
            ags = agg_fields(ctx, sc, IRSC, fld)
            if not ags:
                ctx.missing("C06.R3", "construction of InterestRateStateChanges.%s" % fld)
            for bi, pv in ags:
                wiring(ctx, "C06.R3", "state-changes/" + fld, pv, must=must, must_not=mustnot, loc=sc.bloc(bi), what=fld)
        # argument-level wiring of each component's defining call: f(rate, time_delta, base)
        base_of = {"new_asset_share_value": ("lending_rate_apr", pn.get("asset_share_value", 5)),
                   "new_liability_share_value": ("borrowing_rate_apr", pn.get("liability_share_value", 6)),
                   "insurance_fees_collected": ("insurance_fee_apr", pn.get("total_liabilities_amount", 3)),
                   "group_fees_collected": ("group_fee_apr", pn.get("total_liabilities_amount", 3)),
                   "protocol_fees_collected": ("protocol_fee_apr", pn.get("total_liabilities_amount", 3))}
        for fld, (rate, basep) in base_of.items():
            for bi, o in agg_operand(sc, IRSC, fld):
                dc = defining_call(sc, o)
                construct = "state-changes/%s/args" % fld
                if dc is None or len(dc[1]["args"]) != 3:
                    ctx.inst("C06.R3", construct, None, "component computed by a 3-argument call (rate, period, base)", "shape not recognised", sc.bloc(bi))
                    continue
                cb, t = dc[0], dc[1]
                pvs = [ctx.slicer.operand(sc, a, at=cb) for a in t["args"]]
                ok_rate = pvs[0].has_field(cir, rate) and not any(pvs[0].has_field(cir, r2) for (r2, _) in base_of.values() if r2 != rate)
                ok_time = pvs[1].params == {pn.get("time_delta", 1)}
                ok_base = pvs[2].params == {basep}
                ctx.inst("C06.R3", construct, ok_rate and ok_time and ok_base,
                         "%s = f(%s, time_delta, param#%d)" % (fld, rate, basep),
                         "rate=%s time=%s base=%s" % (A._pvs(pvs[0]), sorted(pvs[1].params), sorted(pvs[2].params)), sc.bloc(cb))
        # utilization = liabilities / assets handed to calc_interest_rate
        for c in sc.calls():
            if c.callee and c.callee["name"] == "calc_interest_rate":
                pv = ctx.slicer.operand(sc, c.args[1])
                wiring(ctx, "C06.R3", "utilization", pv, must=[("param", pn.get("total_liabilities_amount", 3)), ("param", pn.get("total_assets_amount", 2)), ("call", {"name": "checked_div"})],
                       loc=c.loc, what="utilization ratio")
                dc = defining_call(sc, c.args[1])
                if dc and len(dc[1]["args"]) == 2:
                    a0 = ctx.slicer.operand(sc, dc[1]["args"][0], at=dc[0])
                    a1 = ctx.slicer.operand(sc, dc[1]["args"][1], at=dc[0])
                    ctx.inst("C06.R3", "utilization/args", a0.params == {pn.get("total_liabilities_amount", 3)} and a1.params == {pn.get("total_assets_amount", 2)},
                             "utilization = total_liabilities.checked_div(total_assets)", "num=%s den=%s" % (sorted(a0.params), sorted(a1.params)), sc.bloc(dc[0]))
    try:
        cr = ctx.fn("C06.R3", {"name": "calc_interest_rate", "crate": "marginfi", "self_adt": "InterestRateCalc"})
    except Exception:
        cr = None
    if cr is not None:
        fees = adt_key(prog, "state::interest_rate::Fees")
        base_calls = [{"name": "interest_rate_multipoint_curve"}, {"name": "interest_rate_curve"}]
        exp = {
            "lending_rate_apr": ([("param", 2), ("call", {"name": "checked_mul"}), ("call", base_calls[0])], [("field", fees, "insurance_fee_rate"), ("field", fees, "group_fee_rate")]),
            "borrowing_rate_apr": ([("call", base_calls[0]), ("field", fees, "insurance_fee_rate"), ("field", fees, "group_fee_rate"), ("field", fees, "protocol_fee_rate"),
                                    ("field", fees, "insurance_fee_fixed"), ("field", fees, "group_fee_fixed"), ("field", fees, "protocol_fee_fixed")], []),
            "group_fee_apr": ([("field", fees, "group_fee_rate"), ("field", fees, "group_fee_fixed")], [("field", fees, "insurance_fee_rate"), ("field", fees, "protocol_fee_rate")]),
            "insurance_fee_apr": ([("field", fees, "insurance_fee_rate"), ("field", fees, "insurance_fee_fixed")], [("field", fees, "group_fee_rate"), ("field", fees, "protocol_fee_rate")]),
            "protocol_fee_apr": ([("field", fees, "protocol_fee_rate"), ("field", fees, "protocol_fee_fixed")], [("field", fees, "group_fee_rate"), ("field", fees, "insurance_fee_rate")]),
        }
        for fld, (must, mustnot) in exp.items():
            ags = agg_fields(ctx, cr, CIR, fld)
            if not ags:
                ctx.missing("C06.R3", "construction of ComputedInterestRates.%s" % fld)
            for bi, pv in ags:
                wiring(ctx, "C06.R3", "rates/" + fld, pv, must=must, must_not=mustnot, loc=cr.bloc(bi), what=fld)
        curve = [{"name": "interest_rate_multipoint_curve"}, {"name": "interest_rate_curve"}]
        for bi, o in agg_operand(cr, CIR, "lending_rate_apr"):
            dc = defining_call(cr, o)
            ok = False
            found = "shape not recognised"
            if dc and len(dc[1]["args"]) == 2 and cr.dinfo(dc[1]["res"] if dc[1].get("res") is not None else dc[1]["raw"])["name"] == "checked_mul":
                pa = [ctx.slicer.operand(cr, a, at=dc[0]) for a in dc[1]["args"]]
                is_base = [any(p.has_call(prog, c) for c in curve) for p in pa]
                is_util = [(2 in p.params) and not any(p.has_call(prog, c) for c in curve) for p in pa]
                ok = (is_base[0] and is_util[1]) or (is_base[1] and is_util[0])
                found = "args: %s" % [A._pvs(p) for p in pa]
            ctx.inst("C06.R3", "rates/lending_rate_apr/args", ok, "lending rate = base_rate.checked_mul(utilization)", found, cr.bloc(bi))
    # ------------------------------------------------------------------ R4 program fees off
    try:
        gf = ctx.fn("C06.R4", {"name": "get_fees", "crate": "marginfi", "self_adt": "InterestRateCalc"})
    except Exception:
        gf = None
    if gf is not None:
        calc = adt_key(prog, "state::interest_rate::InterestRateCalc")
        # the branch on add_program_fees: false edge yields (ZERO, ZERO)
        found = False
        for bi, bb in enumerate(gf.blocks):
            t = bb["t"]
            if t["k"] != "switch":
                continue
            p = op_place(t["on"])
            pv = ctx.slicer.operand(gf, t["on"])
            if not pv.has_field(calc, "add_program_fees"):
                continue
            found = True
            false_t = [b for a, b in t["arms"] if int(a) == 0]
            true_t = t["else"]
            # on the false edge the tuple assigned uses only ZERO consts; on the true edge program_fee_rate/fixed
            def tuple_sources(start):
                seen = gf.reachable(start)
                out = A.Prov()
                for b in sorted(seen):
                    for s in gf.blocks[b]["s"]:
                        v = s.get("v")
                        if v and v["r"] == "agg" and v.get("ak") == "tuple":
                            for o in v["a"]:
                                out.update(ctx.slicer.operand(gf, o))
                            return out
                return out
            f_src = tuple_sources(false_t[0]) if false_t else A.Prov()
            t_src = tuple_sources(true_t)
            okf = f_src.has_const("ZERO") and not f_src.has_field(calc, "program_fee_rate") and not f_src.has_field(calc, "program_fee_fixed")
            okt = t_src.has_field(calc, "program_fee_rate") and t_src.has_field(calc, "program_fee_fixed")
            ctx.inst("C06.R4", "get_fees/off-edge", okf and okt, "program fee pair is (ZERO, ZERO) when add_program_fees is false, the configured pair otherwise",
                     "false-edge=%s true-edge=%s" % (A._pvs(f_src), A._pvs(t_src)), gf.bloc(bi))
            break
        if not found:
            ctx.inst("C06.R4", "get_fees/off-edge", False, "a branch on InterestRateCalc.add_program_fees", "none", gf.loc(gf.raw["span"]))
        # Fees.protocol_* come from that pair, group/insurance from their own fields
        for fld, src in [("insurance_fee_rate", "insurance_rate_fee"), ("insurance_fee_fixed", "insurance_fixed_fee"),
                         ("group_fee_rate", "protocol_rate_fee"), ("group_fee_fixed", "protocol_fixed_fee")]:
            for bi, pv in agg_fields(ctx, gf, "state::interest_rate::Fees", fld):
                wiring(ctx, "C06.R4", "get_fees/" + fld, pv, must=[("field", calc, src)], must_not=[("field", calc, "program_fee_rate"), ("field", calc, "program_fee_fixed")], loc=gf.bloc(bi), what="Fees." + fld)
    try:
        mk = ctx.fn("C06.R4", {"name": "create_interest_rate_calculator", "crate": "marginfi"})
    except Exception:
        mk = None
    if mk is not None:
        for bi, pv in agg_fields(ctx, mk, "state::interest_rate::InterestRateCalc", "add_program_fees"):
            wiring(ctx, "C06.R4", "calc/add_program_fees", pv, must=[("field", GROUP, "group_flags"), ("const", "PROGRAM_FEES_ENABLED")], loc=mk.bloc(bi), what="add_program_fees")
        for fld, src in [("program_fee_fixed", "program_fee_fixed"), ("program_fee_rate", "program_fee_rate")]:
            for bi, pv in agg_fields(ctx, mk, "state::interest_rate::InterestRateCalc", fld):
                wiring(ctx, "C06.R4", "calc/" + fld, pv, must=[("field", "FeeStateCache", src)], loc=mk.bloc(bi), what=fld)


def run(ctx):
    from .kernels import check_kernels
    try:
        _run(ctx)
    finally:
        # numeric kernels this property's formulas rest on, pinned as canonical expression trees
        check_kernels(ctx, "C06.K", ['accrued-per-period', 'payment-for-period'])
        from .kernels import check_leaves
        check_leaves(ctx, "C06.K", ['group.program_fees_enabled'])


R1B_EXEMPT = {
    "lending_pool_add_bank": "new bank: last_update initialised at creation", "lending_pool_add_bank_with_seed": "new bank", "lending_pool_add_bank_permissionless": "new bank",
    "lending_pool_add_bank_kamino": "new bank", "lending_pool_add_bank_drift": "new bank", "lending_pool_add_bank_solend": "new bank",
    "lending_pool_clone_bank": "staging/localnet only; new bank",
}
for _v in ("kamino_deposit", "kamino_withdraw", "drift_deposit", "drift_withdraw", "solend_deposit", "solend_withdraw"):
    R1B_EXEMPT[_v] = "venue pass-through bank: borrowing is disabled, so there is no interest to accrue and update_bank_cache (which stamps only when liabilities exist) cannot hide any"


def _timestamp_only_after_accrual(ctx):
    """C06.R1: in every instruction, Bank.last_update moves only through the accrual routine or after it has run in the same handler
    (a helper that stamps the accrual time without accruing would make the next accrual skip the elapsed interest)."""
    prog = ctx.prog
    acc = accrual_fn(ctx)
    if acc is None:
        return
    n = 0
    for ixn, ent in sorted(ctx.am.instructions.items()):
        if not ent["handlers"]:
            continue
        h = ent["handlers"][0]
        if (BANK, "last_update") not in prog.writes(h.key) and (BANK, "*") not in prog.writes(h.key):
            continue
        acc_blocks = [c.block for c in h.calls() if c.key == acc.key]
        wb = [b for b in A.write_blocks(prog, h, lambda o, n_: (o, n_) == (BANK, "last_update")) if b not in acc_blocks]
        if not wb:
            continue
        if ixn in R1B_EXEMPT:
            ctx.inst("C06.R1", "timestamp-only-after-accrual/" + ixn, True, "exempt: " + R1B_EXEMPT[ixn], "exempt (table)", h.loc(h.raw["span"]))
            continue
        n += 1
        bad = [b for b in wb if not (acc_blocks and A.set_dominates(h, acc_blocks, b))]
        ctx.inst("C06.R1", "timestamp-only-after-accrual/" + ixn, not bad,
                 "every write of Bank.last_update in %s happens inside the accrual routine or after it has run" % ixn,
                 ["last_update written at %s without a preceding accrual" % h.bloc(b) for b in bad[:3]] or "ok", h.loc(h.raw["span"]))


_run_pre_ts = run


def run(ctx):
    try:
        _run_pre_ts(ctx)
    finally:
        _timestamp_only_after_accrual(ctx)
