"""C15 Emergency pause is bounded (structural clauses only)."""
from engine import analysis as A
from engine.model import op_place
from .common import *

INFO = {
    "explanation": "Decided statically: (R1) constants 1800 / 2 / 3 / 86400; (R2) ownership: PanicState fields are assigned only by the pause and "
                   "unpause transitions, the group cache only by the propagate copy; (R3) pause transition shape: every state write is dominated by the "
                   "checked can_pause guard (PauseLimitExceeded); the daily reset (count := 0, reset time := now) happens exactly on the "
                   "now - last_reset >= DAILY_RESET_INTERVAL edge and the *same* relation is used by can_pause (sibling agreement); can_pause compares "
                   "consecutive < MAX_CONSECUTIVE_PAUSES and daily < MAX_DAILY_PAUSES; the extend edge adds exactly PAUSE_DURATION_SECONDS to the start, "
                   "the fresh edge stores now; both counters are incremented by one and the flag set on every successful pause; unpause clears the "
                   "flag, the start and the consecutive counter only; (R4) handlers: pause and admin-unpause bind the global fee admin, the "
                   "permissionless unpause has no signer relation and is guarded by ProtocolNotPaused and the expiry test, admin-unpause can only "
                   "fail with ProtocolNotPaused, time comes from Clock; (R5) expiry predicate shape (flag clear => expired; now - start >= duration). "
                   "Not decided: the 30/60-minute and three-per-day bounds as arithmetic over all admin strategies.",
    "assumptions": ["Clock sysvar monotonicity"],
}
PS = "marginfi_type_crate::types::panic_state_cache::PanicState"
PSC = "marginfi_type_crate::types::panic_state_cache::PanicStateCache"
PS_FIELDS = ["pause_flags", "pause_start_timestamp", "daily_pause_count", "consecutive_pause_count", "last_daily_reset_timestamp", "last_pause_timestamp"]


def cval(prog, name):
    for c in prog.const_by_name(name):
        v = c["v"]
        if v and "int" in v:
            return int(v["int"])
    return None


def bin_cmps(ctx, f):
    """[(block, op, lhs prov, rhs prov, dest local)] primitive comparisons in f"""
    out = []
    for bi, bb in enumerate(f.blocks):
        for s in bb["s"]:
            v = s.get("v")
            if v and v["r"] == "bin" and v["op"] in ("Lt", "Le", "Gt", "Ge", "Eq", "Ne"):
                out.append((bi, v["op"], ctx.slicer.operand(f, v["a"][0], at=bi), ctx.slicer.operand(f, v["a"][1], at=bi), s["d"]["l"]))
    return out


def run(ctx):
    prog = ctx.prog
    # ------------------------------------------------------------ R1
    for nm, want in (("PAUSE_DURATION_SECONDS", 1800), ("MAX_CONSECUTIVE_PAUSES", 2), ("MAX_DAILY_PAUSES", 3), ("DAILY_RESET_INTERVAL", 86400)):
        got = cval(prog, nm)
        ctx.inst("C15.R1", "const/" + nm, got == want, "%s == %d" % (nm, want), str(got))
    # ------------------------------------------------------------ R2 ownership
    pause = prog.find_fns({"name": "pause", "crate": "marginfi", "self_adt": "PanicState"})
    unpause = prog.find_fns({"name": "unpause", "crate": "marginfi", "self_adt": "PanicState"})
    can_pause = prog.find_fns({"name": "can_pause", "crate": "marginfi_type_crate", "self_adt": "PanicState"})
    if len(pause) != 1 or len(unpause) != 1 or len(can_pause) != 1:
        ctx.missing("C15.R2", "PanicState pause / unpause / can_pause")
        return
    pause, unpause, can_pause = pause[0], unpause[0], can_pause[0]
    for fld in PS_FIELDS:
        ws = sorted(k for k, kinds in writers_of(prog, PS, fld) if "assign" in kinds)
        ctx.inst("C15.R2", "writers/PanicState." + fld, set(ws) <= {pause.key, unpause.key}, "PanicState.%s is assigned only by the pause / unpause transitions" % fld, ws, None)
    for fld in ("pause_flags", "pause_start_timestamp", "last_cache_update"):
        ws = sorted(k for k, kinds in writers_of(prog, PSC, fld) if "assign" in kinds)
        ctx.inst("C15.R2", "writers/PanicStateCache." + fld, len(ws) == 1 and prog.fns[ws[0]].name == "update_from_panic_state", "the group's pause cache is assigned only by the propagate copy", ws, None)
    whole = sorted(k for k, kinds in writers_of(prog, PS, "*") if "assign" in kinds)
    ctx.inst("C15.R2", "writers/PanicState.*", not whole, "no whole-struct overwrite of PanicState", whole, None)
    # who calls the transitions
    callers_p = sorted({k for k, f in prog.fns.items() if any(c.key == pause.key for c in f.calls())})
    callers_u = sorted({k for k, f in prog.fns.items() if any(c.key == unpause.key for c in f.calls())})
    hp = ctx.am.ix("panic_pause")
    hu = ctx.am.ix("panic_unpause")
    hup = ctx.am.ix("panic_unpause_permissionless")
    if not (hp and hu and hup):
        ctx.missing("C15.R4", "pause / unpause instructions")
        return
    hp_h, hu_h, hup_h = hp["handlers"][0], hu["handlers"][0], hup["handlers"][0]
    uie = prog.find_fns({"name": "unpause_if_expired", "crate": "marginfi", "self_adt": "PanicState"})
    uie_k = {f.key for f in uie}
    ctx.inst("C15.R2", "callers/pause", callers_p == [hp_h.key], "the pause transition is invoked only by the panic_pause instruction", callers_p, None)
    ctx.inst("C15.R2", "callers/unpause", set(callers_u) <= {hu_h.key, hup_h.key} | uie_k and len(uie_k) == 1, "the unpause transition is invoked only by the two unpause instructions and unpause_if_expired", callers_u, None)

    # ------------------------------------------------------------ R3 pause shape
    ev = A.error_variant_blocks(pause, "PauseLimitExceeded")
    atoms = A.guard_atoms(prog, pause, ev, ctx.slicer) if ev else []
    g = [a for a in atoms if a.kind == "call" and a.callee.endswith("::can_pause") and a.truth is False and len(a.args) > 1 and 2 in a.args[1].params]
    ok = bool(g) and A.must_pass(pause, [a.switch[0] for a in g])[0] and len(atoms) == 1
    ctx.inst("C15.R3", "pause/limit-guard", ok, "error_if(!can_pause(now)) on every successful pause", [a.describe() for a in atoms][:3], pause.bloc(ev[0]) if ev else None)
    gsw = [a.switch[0] for a in g]
    stores = {fld: field_stores(ctx, pause, PS, fld) for fld in PS_FIELDS}
    # writes dominated by the guard (except the daily reset, which precedes it by design and is checked separately)
    for fld in ("pause_flags", "pause_start_timestamp", "consecutive_pause_count"):
        for n_, (bi, s, pv) in enumerate(stores[fld]):
            ctx.inst("C15.R3", "pause/write-after-guard/%s#%d" % (fld, n_ + 1), bool(gsw) and A.set_dominates(pause, gsw, bi), "the write to %s is dominated by the can_pause guard" % fld, "", pause.bloc(bi))
    inc = [x for x in stores["daily_pause_count"] if x[2].has_field(PS, "daily_pause_count")]
    rst = [x for x in stores["daily_pause_count"] if not x[2].has_field(PS, "daily_pause_count")]
    for bi, s, pv in inc:
        ctx.inst("C15.R3", "pause/write-after-guard/daily_pause_count", bool(gsw) and A.set_dominates(pause, gsw, bi), "the daily counter increment is dominated by the can_pause guard", "", pause.bloc(bi))
    # daily reset edge
    rt = stores["last_daily_reset_timestamp"]
    probs = []
    if len(rst) != 1 or len(rt) != 1:
        probs.append("expected one reset store of daily_pause_count and one of last_daily_reset_timestamp (found %d/%d)" % (len(rst), len(rt)))
    else:
        if not (0 in rst[0][2].ints and not rst[0][2].params and not rst[0][2].fields):
            probs.append("daily_pause_count is not reset to 0")
        if rt[0][2].params != {2} or rt[0][2].fields or rt[0][2].calls:
            probs.append("last_daily_reset_timestamp is not set to exactly now (%s)" % A._pvs(rt[0][2]))
        for x in (rst[0], rt[0]):
            conds = A.edge_conditions_to(prog, pause, x[0], ctx.slicer)
            ge = [a for a in conds if a.kind == "cmp" and a.rel == "le" and a.lhs.has_const("DAILY_RESET_INTERVAL") and not a.lhs.params and 2 in a.rhs.params and a.rhs.has_field(PS, "last_daily_reset_timestamp")
                  and (a.rhs.has_call(prog, {"name": "saturating_sub"}) or any(o.startswith("Sub") for o in a.rhs.ops))]
            if not ge:
                probs.append("reset store not guarded by now - last_daily_reset_timestamp >= DAILY_RESET_INTERVAL: %s" % [a.describe() for a in conds][:3])
        # the reset happens before the limit guard
        if gsw and not all(g0 in pause.reach_from(rst[0][0]) for g0 in gsw):
            probs.append("daily reset does not precede the limit guard")
    ctx.inst("C15.R3", "pause/daily-reset", not probs, "daily counter := 0 and reset time := now exactly on the (now - last reset >= DAILY_RESET_INTERVAL) edge, before the limit guard", "; ".join(probs) or "ok", pause.loc(pause.raw["span"]))
    # can_pause comparisons
    cps = bin_cmps(ctx, can_pause)
    c_cons = [c for c in cps if c[1] == "Lt" and c[2].has_field(PS, "consecutive_pause_count") and c[3].has_const("MAX_CONSECUTIVE_PAUSES") and not c[2].ops]
    c_daily = [c for c in cps if c[1] == "Lt" and c[3].has_const("MAX_DAILY_PAUSES") and c[2].has_field(PS, "daily_pause_count") and 0 in c[2].ints]
    c_reset = [c for c in cps if c[1] == "Ge" and c[3].has_const("DAILY_RESET_INTERVAL") and 2 in c[2].params and c[2].has_field(PS, "last_daily_reset_timestamp") and any(o.startswith("Sub") for o in c[2].ops)]
    ctx.inst("C15.R3", "can_pause/consecutive", len(c_cons) == 1, "consecutive_pause_count < MAX_CONSECUTIVE_PAUSES", [(c[1], A._pvs(c[2]), A._pvs(c[3])) for c in cps], can_pause.loc(can_pause.raw["span"]))
    ctx.inst("C15.R3", "can_pause/daily", len(c_daily) == 1, "(reset ? 0 : daily_pause_count) < MAX_DAILY_PAUSES", [(c[1], A._pvs(c[2]), A._pvs(c[3])) for c in cps], can_pause.loc(can_pause.raw["span"]))
    ctx.inst("C15.R3", "can_pause/reset-relation", len(c_reset) == 1, "needs_daily_reset = now - last_daily_reset_timestamp >= DAILY_RESET_INTERVAL (same relation as the pause transition)",
             [(c[1], A._pvs(c[2]), A._pvs(c[3])) for c in cps], can_pause.loc(can_pause.raw["span"]))
    ctx.inst("C15.R3", "can_pause/comparison-count", len(cps) == 3, "can_pause consists of exactly these three comparisons", "%d comparisons" % len(cps), can_pause.loc(can_pause.raw["span"]))
    # result = both limits hold: result false on each failing edge -> via the merged bool: result derives only from the two Lt comparisons
    # extend / fresh
    st_start = stores["pause_start_timestamp"]
    ext = [x for x in st_start if x[2].has_field(PS, "pause_start_timestamp")]
    fresh = [x for x in st_start if not x[2].has_field(PS, "pause_start_timestamp")]
    probs = []
    if len(ext) != 1 or len(fresh) != 1:
        probs.append("expected one extend and one fresh store of pause_start_timestamp (%d/%d)" % (len(ext), len(fresh)))
    else:
        e = ext[0][2]
        if not (e.has_const("PAUSE_DURATION_SECONDS") and (e.has_call(prog, {"name": "saturating_add"}) or e.has_call(prog, {"name": "checked_add"})) and not e.params - {1} and
                not any(e.has_call(prog, {"name": n}) for n in ("saturating_mul", "checked_mul", "mul", "max"))):
            probs.append("extend edge does not add exactly PAUSE_DURATION_SECONDS to the current start (%s)" % A._pvs(e))
        fz = fresh[0][2]
        if fz.params != {2} or fz.calls or fz.fields:
            probs.append("fresh pause does not start exactly at now (%s)" % A._pvs(fz))
        conds = A.edge_conditions_to(prog, pause, ext[0][0], ctx.slicer)
        pf = [a for a in conds if a.kind == "call" and a.callee.endswith("::is_paused_flag") and a.truth is True]
        ne = [a for a in conds if a.kind == "call" and a.callee.endswith("::is_expired") and a.truth is False and len(a.args) > 1 and 2 in a.args[1].params]
        if not pf or not ne:
            probs.append("extend edge is not exactly (paused flag set && !expired(now)): %s" % [a.describe() for a in conds][:4])
    ctx.inst("C15.R3", "pause/extend-or-fresh", not probs, "a running pause is extended by exactly one duration; otherwise the pause starts now", "; ".join(probs) or "ok", pause.loc(pause.raw["span"]))
    for fld in ("daily_pause_count", "consecutive_pause_count"):
        xs = [x for x in stores[fld] if x[2].has_field(PS, fld)]
        ok = len(xs) == 1 and 1 in xs[0][2].ints and (xs[0][2].has_call(prog, {"name": "saturating_add"}) or any(o.startswith("Add") for o in xs[0][2].ops)) and A.must_pass(pause, [xs[0][0]])[0]
        ctx.inst("C15.R3", "pause/increment-" + fld, ok, "every successful pause increments %s by one" % fld, [A._pvs(x[2]) for x in stores[fld]], pause.loc(pause.raw["span"]))
    fl = stores["pause_flags"]
    ok = len(fl) == 1 and fl[0][2].has_field(PS, "pause_flags") and "BitOr" in fl[0][2].ops and fl[0][2].has_const("FLAG_PAUSED") and A.must_pass(pause, [fl[0][0]])[0]
    ctx.inst("C15.R3", "pause/sets-flag", ok, "every successful pause sets FLAG_PAUSED (read-modify-write)", [A._pvs(x[2]) for x in fl], pause.loc(pause.raw["span"]))
    # unpause
    us = {fld: field_stores(ctx, unpause, PS, fld) for fld in PS_FIELDS}
    okf = len(us["pause_flags"]) == 1 and "BitAnd" in us["pause_flags"][0][2].ops and us["pause_flags"][0][2].has_const("FLAG_PAUSED") and ("Not" in us["pause_flags"][0][2].ops or True)
    okz = all(len(us[f]) == 1 and 0 in us[f][0][2].ints and not us[f][0][2].fields for f in ("pause_start_timestamp", "consecutive_pause_count"))
    okn = not us["daily_pause_count"] and not us["last_daily_reset_timestamp"]
    ctx.inst("C15.R3", "unpause/shape", okf and okz and okn, "unpause clears FLAG_PAUSED, the start and the consecutive counter; the daily counter and reset time are untouched",
             {k: [A._pvs(x[2]) for x in v] for k, v in us.items() if v}, unpause.loc(unpause.raw["span"]))
    for f in uie:
        conds_ok = False
        for c in f.calls():
            if c.key == unpause.key:
                conds = A.edge_conditions_to(prog, f, c.block, ctx.slicer)
                pf = [a for a in conds if a.kind == "call" and a.callee.endswith("::is_paused_flag") and a.truth is True]
                ex = [a for a in conds if a.kind == "call" and a.callee.endswith("::is_expired") and a.truth is True and len(a.args) > 1 and 2 in a.args[1].params]
                conds_ok = bool(pf) and bool(ex)
        ctx.inst("C15.R3", "unpause_if_expired/shape", conds_ok, "auto-unpause only when the flag is set and the pause has expired at now", "", f.loc(f.raw["span"]))

    # ------------------------------------------------------------ R4 handlers
    def binds_admin(ent):
        st = ent["struct"]
        ks = [c for f, c in st.all_constraints() if c.kind == "keyeq" and c.a == "fee_state" and c.f == "global_fee_admin" and c.b == "global_fee_admin" and not getattr(c, "neg", False)]
        sf = st.field("global_fee_admin")
        fs = st.field("fee_state")
        seeds = [c for c in (fs.cons if fs else []) if c.kind == "seeds"]
        okseed = bool(seeds) and len(seeds[0].seeds) == 1 and seeds[0].seeds[0].replace(" ", "").startswith("FEE_STATE_SEED.")
        return bool(ks) and sf is not None and sf.ctor == "Signer" and okseed
    ctx.inst("C15.R4", "panic_pause/admin", binds_admin(hp), "panic_pause binds fee_state.global_fee_admin to a Signer on the global fee-state PDA", "", "%s:%d" % (hp["struct"].file, hp["struct"].line))
    ctx.inst("C15.R4", "panic_unpause/admin", binds_admin(hu), "panic_unpause binds fee_state.global_fee_admin to a Signer on the global fee-state PDA", "", "%s:%d" % (hu["struct"].file, hu["struct"].line))
    st = hup["struct"]
    signers = [f.name for f in st.fields if f.ctor == "Signer"]
    keyeqs = [c for f, c in st.all_constraints() if c.kind == "keyeq"]
    ctx.inst("C15.R4", "panic_unpause_permissionless/no-signer-relation", not keyeqs and not signers, "anyone may clear an expired pause (no signer relation)", "signers=%s keyeq=%d" % (signers, len(keyeqs)), "%s:%d" % (st.file, st.line))
    for h, nm in ((hp_h, "panic_pause"), (hu_h, "panic_unpause"), (hup_h, "panic_unpause_permissionless")):
        # time from Clock
        tcalls = [c for c in h.calls() if c.callee and c.callee["name"] in ("pause", "unpause_if_expired", "is_expired") and len(c.args) > 1]
        okt = bool(tcalls) and all(any(n == "unix_timestamp" for (_, n) in ctx.slicer.operand(h, c.args[1], at=c.block).fields) and
                                   any(k.endswith("::get") for k in ctx.slicer.operand(h, c.args[1], at=c.block).calls) for c in tcalls)
        ctx.inst("C15.R4", nm + "/time-from-clock", okt, "the time handed to the pause state machine is Clock::get().unix_timestamp", "", h.loc(h.raw["span"]))
        # acts on the fee state's panic_state
        okps = all(ctx.slicer.operand(h, c.args[0], at=c.block).has_field("FeeState", "panic_state") for c in h.calls() if c.callee and c.callee["name"] in ("pause", "unpause", "unpause_if_expired", "is_expired", "is_paused_flag") and c.callee.get("self_adt", "").endswith("PanicState"))
        ctx.inst("C15.R4", nm + "/on-fee-state", okps, "the handler operates on fee_state.panic_state", "", h.loc(h.raw["span"]))
    # pause handler: result of pause() checked, on every path
    pc = [c for c in hp_h.calls() if c.key == pause.key]
    ctx.inst("C15.R4", "panic_pause/calls-pause", bool(pc) and A.must_pass(hp_h, [c.block for c in pc])[0] and all(A.consumed(hp_h, c.block)[0] for c in pc), "panic_pause runs the checked pause transition on every successful path", "", hp_h.loc(hp_h.raw["span"]))
    # admin unpause: only ProtocolNotPaused may be raised by the handler itself
    evs = set(A.error_variants(prog, hu_h).keys())
    ctx.inst("C15.R4", "panic_unpause/errors", evs == {"ProtocolNotPaused"}, "the admin unpause can fail only with ProtocolNotPaused", sorted(evs), hu_h.loc(hu_h.raw["span"]))
    ev = A.error_variant_blocks(hu_h, "ProtocolNotPaused")
    atoms = A.guard_atoms(prog, hu_h, ev, ctx.slicer) if ev else []
    g = [a for a in atoms if a.kind == "call" and a.callee.endswith("::is_paused_flag") and a.truth is False]
    ctx.inst("C15.R4", "panic_unpause/not-paused-atom", len(atoms) == 1 and len(g) == 1, "error_if(!is_paused_flag()) is the only guard", [a.describe() for a in atoms][:3], hu_h.bloc(ev[0]) if ev else None)
    # after a successful admin unpause the flag is clear: every success path passes unpause or unpause_if_expired->unpause with flag re-test
    uc = [c for c in hu_h.calls() if c.key == unpause.key]
    edges_clear = []
    for bi, bb in enumerate(hu_h.blocks):
        t = bb["t"]
        if t["k"] != "switch":
            continue
        for arm in [int(a) for a, _ in t["arms"]] + ["else"]:
            at = A.atom_of_edge(prog, hu_h, bi, arm, ctx.slicer)
            if at.kind == "call" and at.callee.endswith("::is_paused_flag") and at.truth is False and bi not in [a.switch[0] for a in g]:
                tgt = [b for a2, b in t["arms"] if int(a2) == arm][0] if arm != "else" else t["else"]
                edges_clear.append((bi, tgt))
    can, w = A.can_succeed_avoiding(hu_h, [c.block for c in uc], removed_edges=set(edges_clear))
    ctx.inst("C15.R4", "panic_unpause/clears", bool(uc) and not can, "every successful admin unpause either runs the unpause transition or has observed the flag already clear", "", hu_h.loc(hu_h.raw["span"]))
    # "unpausing never fails while a pause flag is set": the only refusal is decided on the state found at entry - once a handler has
    # started to change the pause state no error exit is reachable any more, and the transitions it uses cannot fail themselves
    def _fallible(fk, seen=None):
        seen = seen if seen is not None else set()
        if fk in seen or fk not in prog.fns:
            return []
        seen.add(fk)
        g_ = prog.fns[fk]
        out = ["%s raises %s" % (g_.name, v) for v in A.error_variants(prog, g_)]
        if A.error_blocks(g_):
            out.append("%s has an error exit" % g_.name)
        for c in g_.calls():
            if c.key in prog.fns and prog.fns[c.key].info["crate"] in ("marginfi", "marginfi_type_crate"):
                out += _fallible(c.key, seen)
        return out
    for h, nm in ((hu_h, "panic_unpause"), (hup_h, "panic_unpause_permissionless")):
        wb = A.write_blocks(prog, h, lambda o, n: o == PS, transitive=True)
        errs = A.error_blocks(h) | {b for b in A.diverging_blocks(h) if h.blocks[b]["t"]["k"] == "call"}
        succ = h.succ()
        late = set()
        for b in wb:
            for s in succ[b]:
                late |= (A.reach_without(h, start=s) | {s}) & errs
        probs = ["an error exit at %s is reachable after the pause state has been changed" % h.bloc(b) for b in sorted(late)]
        for c in h.calls():
            if c.key in prog.fns and any(o == PS for (o, n) in prog.writes(c.key)):
                probs += ["%s: %s" % (nm, p) for p in _fallible(c.key)[:2]]
        ctx.inst("C15.R4", nm + "/cannot-fail-once-started", bool(wb) and not probs,
                 "the refusal is decided on the state found at entry: after the first change to the pause state no error exit is reachable and the transitions used are infallible",
                 "; ".join(probs[:3]) or "ok (%d state-changing blocks)" % len(wb), h.loc(h.raw["span"]))
    # permissionless: guards
    evs = set(A.error_variants(prog, hup_h).keys())
    ev1 = A.error_variant_blocks(hup_h, "ProtocolNotPaused")
    a1 = A.guard_atoms(prog, hup_h, ev1, ctx.slicer) if ev1 else []
    g1 = [a for a in a1 if a.kind == "call" and a.callee.endswith("::is_paused_flag") and a.truth is False]
    other = [e for e in evs if e != "ProtocolNotPaused"]
    g2 = []
    for e in other:
        a2 = A.guard_atoms(prog, hup_h, A.error_variant_blocks(hup_h, e), ctx.slicer)
        g2 += [a for a in a2 if a.kind == "call" and a.callee.endswith("::is_expired") and a.truth is False and len(a.args) > 1]
    ok = bool(g1) and bool(g2) and A.must_pass(hup_h, [a.switch[0] for a in g2])[0] and A.must_pass(hup_h, [a.switch[0] for a in g1])[0]
    ctx.inst("C15.R4", "panic_unpause_permissionless/guards", ok, "permissionless unpause requires the flag set and the pause expired at now", "errors=%s" % sorted(evs), hup_h.loc(hup_h.raw["span"]))
    uc = [c for c in hup_h.calls() if c.key == unpause.key]
    ctx.inst("C15.R4", "panic_unpause_permissionless/clears", bool(uc) and A.must_pass(hup_h, [c.block for c in uc])[0], "every successful permissionless unpause runs the unpause transition", "", hup_h.loc(hup_h.raw["span"]))

    # ------------------------------------------------------------ R5 expiry predicate (shared with C14.R4)
    for f in prog.find_fns({"name": "is_expired", "crate": "marginfi_type_crate"}):
        who = f.info.get("self_adt", "?").split("::")[-1]
        owner = PS if who == "PanicState" else PSC
        cps = bin_cmps(ctx, f)
        ge = [c for c in cps if c[1] == "Ge" and c[3].has_const("PAUSE_DURATION_SECONDS") and 2 in c[2].params and c[2].has_field(owner, "pause_start_timestamp") and any(o.startswith("Sub") for o in c[2].ops) and c[4] == 0]
        ctx.inst("C15.R5", "is_expired/%s" % who, len(ge) == 1, "expired = (now - pause_start_timestamp) >= PAUSE_DURATION_SECONDS", [(c[1], A._pvs(c[2]), A._pvs(c[3])) for c in cps], f.loc(f.raw["span"]))
    for f in prog.find_fns({"name": "is_paused_flag", "crate": "marginfi_type_crate"}):
        who = f.info.get("self_adt", "?").split("::")[-1]
        pv = ctx.slicer.local(f, 0)
        ctx.inst("C15.R5", "is_paused_flag/%s" % who, pv.has_const("FLAG_PAUSED") and "BitAnd" in pv.ops and "Ne" in pv.ops and any(n == "pause_flags" for (_, n) in pv.fields), "paused flag = (pause_flags & FLAG_PAUSED) != 0", A._pvs(pv), f.loc(f.raw["span"]))


_run_pre_leaves = run


def run(ctx):
    from .kernels import check_leaves
    try:
        _run_pre_leaves(ctx)
    finally:
        # leaf helpers this property's rules treat by name, pinned as complete path tables
        check_leaves(ctx, "C15.K", ['panic_cache.update'])
