"""C03 No free value (structural clauses only)."""
from engine import analysis as A
from engine.model import op_place
from .common import *

INFO = {
    "explanation": "Decided statically: (R1) rounding direction: the whole-token amount returned by a full withdrawal derives from checked_floor of the "
                   "position's asset amount (never ceil), a full repayment from checked_ceil of the liability amount; the sub-unit remainder is booked to "
                   "the bank's outstanding insurance fees with the matching sign; (R2) share<->amount converters: amount = shares.checked_mul(side's share "
                   "value), shares = amount.checked_div(side's share value), each reading only its own side's share value; the only early return of the "
                   "asset-share converter is the *exact* asset_share_value == 0 test; every call site hands a converter shares of its own side; (R3) fee "
                   "direction: in deposit and repay the booked value does not include the Token-2022 pre-fee gross-up while the transferred value does; "
                   "in withdraw and borrow the booked value does; (R4) the gross-up inverse uses ceiling division and the maximum-fee cap. "
                   "Not decided: the round-trip inequality over operation sequences and ulp bounds.",
    "assumptions": ["fixed-point checked_floor / checked_ceil semantics", "SPL Token-2022 transfer-fee semantics"],
}
SIDE_FIELDS = {"asset": [(BALANCE, "asset_shares"), (BANK, "total_asset_shares")], "liability": [(BALANCE, "liability_shares"), (BANK, "total_liability_shares")]}


_ords = None


def _run(ctx):
    global _ords
    _ords = Ordinals()
    prog = ctx.prog
    wrappers = [f for f in prog.fns.values() if (f.info.get("self_adt") or "").endswith("BankAccountWrapper") and f.info["crate"] == "marginfi"]
    resetters = balance_resetters(prog, BALANCE)[0]
    ca = [k for k, kinds in writers_of(prog, BANK, "total_asset_shares") if "assign" in kinds]
    cl = [k for k, kinds in writers_of(prog, BANK, "total_liability_shares") if "assign" in kinds]
    if len(resetters) != 1 or len(ca) != 1 or len(cl) != 1:
        ctx.missing("C03.R1", "reset / bank share changers")
        return
    full = [f for f in wrappers if any(c.key == resetters[0] for c in f.calls()) and f.local_ty(0)["s"].find("u64") >= 0]
    fw = [f for f in full if any(c.key == ca[0] for c in f.calls())]
    fr = [f for f in full if any(c.key == cl[0] for c in f.calls())]
    # ------------------------------------------------------------ R1
    for f, side, rnd, bad, conv in ((fw, "asset", "checked_floor", "checked_ceil", "get_asset_amount"), (fr, "liability", "checked_ceil", "checked_floor", "get_liability_amount")):
        if len(f) != 1:
            ctx.missing("C03.R1", "full-%s primitive (found %d)" % ("withdraw" if side == "asset" else "repay", len(f)))
            continue
        f = f[0]
        pv = ctx.slicer.local(f, 0, path=(0,))
        wiring(ctx, "C03.R1", "rounding/" + f.name, pv, must=[("call", {"name": rnd}), ("call", {"name": conv}), ("field", BALANCE, side + "_shares"), ("call", {"name": "checked_to_num"})],
               must_not=[("call", {"name": bad}), ("call", {"name": "round"}), ("call", {"name": "to_num"})], loc=f.loc(f.raw["span"]), what="tokens %s by %s" % ("paid out" if side == "asset" else "charged", f.name))
        st_ = field_stores(ctx, f, BANK, "collected_insurance_fees_outstanding")
        ok = False
        for bi, s, p in st_:
            subs = [c for c in f.calls() if c.callee and c.callee["name"] == "checked_sub"]
            sign_ok = False
            for c in subs:
                a0 = ctx.slicer.operand(f, c.args[0], at=c.block)
                a1 = ctx.slicer.operand(f, c.args[1], at=c.block)
                if side == "asset":
                    sign_ok = sign_ok or (not a0.has_call(prog, {"name": rnd}) and a1.has_call(prog, {"name": rnd}) and a0.has_call(prog, {"name": conv}))
                else:
                    sign_ok = sign_ok or (a0.has_call(prog, {"name": rnd}) and not a1.has_call(prog, {"name": rnd}) and a1.has_call(prog, {"name": conv}))
            ok = p.has_field(BANK, "collected_insurance_fees_outstanding") and p.has_call(prog, {"name": "checked_add"}) and p.has_call(prog, {"name": rnd}) and sign_ok and A.must_pass(f, [bi])[0]
        ctx.inst("C03.R1", "dust-to-insurance/" + f.name, ok, "the sub-unit remainder (%s) is added to the bank's outstanding insurance fees on every successful path" % ("amount - floor" if side == "asset" else "ceil - amount"), [A._pvs(x[2]) for x in st_][:1], f.loc(f.raw["span"]))
    # ------------------------------------------------------------ R2 converters
    convs = {"get_asset_amount": ("asset_share_value", "liability_share_value", "checked_mul"), "get_liability_amount": ("liability_share_value", "asset_share_value", "checked_mul"),
             "get_asset_shares": ("asset_share_value", "liability_share_value", "checked_div"), "get_liability_shares": ("liability_share_value", "asset_share_value", "checked_div")}
    cfn = {}
    for nm, (own, other, op) in convs.items():
        fs = prog.find_fns({"name": nm, "crate": "marginfi", "self_adt": "Bank"})
        if len(fs) != 1:
            ctx.missing("C03.R2", "Bank::" + nm)
            continue
        f = fs[0]
        cfn[nm] = f
        # the computed (non-early) result
        ops = [c for c in f.calls() if c.callee and c.callee["name"] in ("checked_mul", "checked_div", "mul", "div", "saturating_mul", "saturating_div", "wrapping_mul")]
        ok = len(ops) == 1 and ops[0].callee["name"] == op
        if ok:
            a0 = ctx.slicer.operand(f, ops[0].args[0], at=ops[0].block)
            a1 = ctx.slicer.operand(f, ops[0].args[1], at=ops[0].block)
            ok = a0.params == {2} and not a0.fields and a1.has_field(BANK, own) and not a1.has_field(BANK, other) and 2 not in a1.params
            pv = ctx.slicer.local(f, 0, path=(0,))
            ok = ok and pv.has_call(prog, {"name": op})
        ctx.inst("C03.R2", "converter/" + nm, ok, "%s = value.%s(self.%s)" % (nm, op, own), "%d arithmetic calls" % len(ops), f.loc(f.raw["span"]))
        # early returns: only get_asset_shares may have one, on the exact zero test
        rets = [bi for bi, bb in enumerate(f.blocks) for s in bb["s"] if s.get("v") and s["v"]["r"] == "agg" and s["v"].get("ak") == "adt" and s["v"]["adt"] == A.RESULT and s["v"]["variant"] == "Ok" and s["d"]["l"] == 0]
        early = []
        for bi in rets:
            pvb = A.Prov()
            for s in f.blocks[bi]["s"]:
                if s.get("v") and s["v"]["r"] == "agg" and s["d"]["l"] == 0:
                    for o in s["v"]["a"]:
                        pvb.update(ctx.slicer.operand(f, o, at=bi))
            if not pvb.has_call(prog, {"name": op}):
                early.append((bi, pvb))
        if nm == "get_asset_shares":
            okearly = len(early) <= 1
            for bi, pvb in early:
                conds = A.edge_conditions_to(prog, f, bi, ctx.slicer)
                exact = [a for a in conds if a.kind == "cmp" and a.rel == "eq" and (a.lhs.has_field(BANK, "asset_share_value") or a.rhs.has_field(BANK, "asset_share_value")) and (a.lhs.has_const("ZERO") or a.rhs.has_const("ZERO"))]
                okearly = okearly and bool(exact) and len(conds) == 1 and pvb.has_const("ZERO")
            ctx.inst("C03.R2", "converter-early-return/" + nm, okearly, "the only shortcut (zero shares) is taken exactly when asset_share_value == 0", [(A._pvs(p)) for _, p in early], f.loc(f.raw["span"]))
        else:
            ctx.inst("C03.R2", "converter-early-return/" + nm, not early, "%s has no shortcut return" % nm, "%d early returns" % len(early), f.loc(f.raw["span"]))
    # call-site side discipline
    nsites = 0
    for k, f in prog.fns.items():
        if f.info["crate"] != "marginfi":
            continue
        for c in f.calls():
            nm = c.callee["name"] if c.callee else ""
            if nm in ("get_asset_amount", "get_liability_amount") and (c.callee.get("self_adt") or "").endswith("::Bank") and len(c.args) == 2:
                side = "asset" if "asset" in nm else "liability"
                other = "liability" if side == "asset" else "asset"
                pv = ctx.slicer.operand(f, c.args[1], at=c.block)
                mine = any(pv.has_field(o, n) for (o, n) in SIDE_FIELDS[side])
                theirs = any(pv.has_field(o, n) for (o, n) in SIDE_FIELDS[other])
                if mine or theirs:
                    nsites += 1
                    ctx.inst("C03.R2", _ords.key("side-discipline/%s@%s" % (nm, k.split("::")[-1])), mine and not theirs, "%s is handed %s shares only" % (nm, side), A._pvs(pv), c.loc)
    ctx.floor("C03.R2", 8 + 20)
    # ------------------------------------------------------------ R3 fee direction
    PRE = {"name": "calculate_pre_fee_spl_deposit_amount"}
    for ixn, booked_calls, booked_pre, kind in (("lending_account_deposit", ["deposit"], False, "deposit"), ("lending_account_repay", ["repay"], False, "deposit"),
                                                ("lending_account_withdraw", ["withdraw"], True, "withdraw"), ("lending_account_borrow", ["borrow"], True, "withdraw")):
        try:
            ix = ctx.ix("C03.R3", ixn)
        except Exception:
            continue
        h = ix["handlers"][0]
        skey = ix["struct"].key
        bc = [c for c in h.calls() if c.callee and c.callee["name"] in booked_calls and (c.callee.get("self_adt") or "").endswith("BankAccountWrapper")]
        ts = [t for t in transfer_sites(ctx, h, skey) if t["kind"] == kind]
        probs = []
        if not bc or not ts:
            probs.append("booking call or transfer not found (%d/%d)" % (len(bc), len(ts)))
        for c in bc:
            pv = ctx.slicer.operand(h, c.args[1], at=c.block)
            if pv.has_call(prog, PRE) != booked_pre:
                probs.append("booked amount %s the Token-2022 gross-up" % ("lacks" if booked_pre else "includes"))
        for t in ts:
            if not t["amount"].has_call(prog, PRE):
                probs.append("transferred amount lacks the Token-2022 gross-up")
        ctx.inst("C03.R3", "fee-direction/" + ixn, not probs, "%s: booked amount %s the transfer-fee gross-up, transferred amount includes it" % (ixn, "includes" if booked_pre else "excludes"), "; ".join(probs) or "ok", h.loc(h.raw["span"]))
    # ------------------------------------------------------------ R4 gross-up inverse
    pf = prog.find_fns({"name": "calculate_pre_fee_amount", "crate": "marginfi"})
    cd = prog.find_fns({"name": "ceil_div", "crate": "marginfi"})
    if len(pf) == 1 and len(cd) == 1:
        f = pf[0]
        pv = ctx.slicer.local(f, 0)
        ctx.inst("C03.R4", "pre-fee/ceil-div", pv.has_call(prog, {"key": cd[0].key}) and pv.has_field("TransferFee", "maximum_fee") and pv.has_field("TransferFee", "transfer_fee_basis_points") and 2 in pv.params,
                 "pre-fee amount = ceil_div(post * 10000, 10000 - bps) capped by maximum_fee", A._pvs(pv), f.loc(f.raw["span"]))
        cmps = []
        for bi, bb in enumerate(f.blocks):
            for s in bb["s"]:
                v = s.get("v")
                if v and v["r"] == "bin" and v["op"] in ("Ge", "Gt", "Le", "Lt"):
                    cmps.append((v["op"], ctx.slicer.operand(f, v["a"][0], at=bi), ctx.slicer.operand(f, v["a"][1], at=bi)))
        cap = [c for c in cmps if c[0] == "Ge" and c[1].has_call(prog, {"key": cd[0].key}) and c[2].has_field("TransferFee", "maximum_fee")]
        ctx.inst("C03.R4", "pre-fee/max-fee-cap", bool(cap), "the fee is capped: (raw_pre - post) >= maximum_fee selects post + maximum_fee", [(c[0], A._pvs(c[1]), A._pvs(c[2])) for c in cmps], f.loc(f.raw["span"]))
        g = cd[0]
        pv = ctx.slicer.local(g, 0)
        ctx.inst("C03.R4", "ceil_div", pv.params == {1, 2} and pv.has_call(prog, {"name": "checked_add"}) and pv.has_call(prog, {"name": "checked_sub"}) and pv.has_call(prog, {"name": "checked_div"}) and 1 in pv.ints,
                 "ceil_div(n, d) = (n + d - 1) / d with checked arithmetic", A._pvs(pv), g.loc(g.raw["span"]))
        spl = prog.find_fns({"name": "calculate_pre_fee_spl_deposit_amount", "crate": "marginfi"})
        for f2 in spl:
            pv2 = ctx.slicer.local(f2, 0, path=(0,))
            ctx.inst("C03.R4", "pre-fee/spl-wrapper", pv2.has_call(prog, {"key": f.key}) and 2 in pv2.params, "the SPL wrapper returns calculate_pre_fee_amount(epoch fee, amount) or the amount itself", A._pvs(pv2), f2.loc(f2.raw["span"]))
    elif len(pf) == 1 and not cd:
        # the rounding helper was inlined: the gross-up function as a whole must equal the reviewed one modulo helper boundaries
        from .kernels import same_modulo_helper_boundaries
        f = pf[0]
        ok = same_modulo_helper_boundaries(prog, f, "K|pre-fee-amount")
        if not ok:
            ctx.missing("C03.R4", "calculate_pre_fee_amount / ceil_div")
        else:
            ctx.inst("C03.R4", "pre-fee/ceil-div", True, "pre-fee amount = ceil_div(post * 10000, 10000 - bps) capped by maximum_fee", "ok (deep form of calculate_pre_fee_amount equals the reviewed one; ceil_div inlined)", f.loc(f.raw["span"]))
            for f2 in prog.find_fns({"name": "calculate_pre_fee_spl_deposit_amount", "crate": "marginfi"}):
                pv2 = ctx.slicer.local(f2, 0, path=(0,))
                ctx.inst("C03.R4", "pre-fee/spl-wrapper", pv2.has_call(prog, {"key": f.key}) and 2 in pv2.params, "the SPL wrapper returns calculate_pre_fee_amount(epoch fee, amount) or the amount itself", A._pvs(pv2), f2.loc(f2.raw["span"]))
    else:
        ctx.missing("C03.R4", "calculate_pre_fee_amount / ceil_div")


def run(ctx):
    from .kernels import check_kernels
    try:
        _run(ctx)
    finally:
        # numeric kernels this property's formulas rest on, pinned as canonical expression trees
        check_kernels(ctx, "C03.K", ['get_asset_amount', 'get_liability_amount', 'get_asset_shares', 'get_liability_shares', 'pre-fee-amount', 'post-fee-deposit'])
