"""Reviewed snapshot of small shared helpers (rule id Cxx.S).

Round 2-4 of the seeded changes showed that most misses were edits *inside* a small helper that the property rules knew
only by name.  This table assigns every small, loop-free helper reachable from an instruction handler in the state /
utils / type-crate / venue-mock modules to the properties that rely on it; rules/leaf_snapshot.json holds its reviewed
complete path table ("conditions => return value | stores", see kernels.leaf_sig).  A helper whose table differs from
the snapshot is reported for review under each property it serves.  Keys are (crate, self type, function name), never
impl indices or line numbers.  Regenerate after a reviewed change with `python3 tools/gen_leaf_snapshot.py`."""
import json
import os
import re
from .kernels import leaf_sig

HERE = os.path.dirname(os.path.abspath(__file__))
SNAP_FILE = os.path.join(HERE, "leaf_snapshot.json")

# (regex on "crate|SelfType|name|module path", properties served)
SNAP_MAP = [
    (r"\|Bank\|(increment|decrement)_(lending|borrowing)_position_count\|", ["C02"]),
    (r"\|Bank\|get_balance_decimals\|", ["C04", "C05"]),
    (r"\|Bank\|update_cache_price\|", ["C09"]),
    (r"\|Bank\|verify_(emissions|group)_flags\|", ["C12"]),
    (r"\|Bank\|withdraw_spl_transfer\|", ["C01"]),
    (r"\|BankVaultType\|get_(authority_)?seed\|", ["C01", "C08"]),
    (r"\|\|update_interest_rates\|.*bank_cache", ["C06"]),
    (r"\|BankConfig\|get_oracle_max_age\|", ["C09"]),
    (r"\|BankConfig\|get_weight\|", ["C04", "C13"]),
    (r"\|BankConfig\|is_(borrow|deposit)_limit_active\|", ["C17"]),
    (r"\|BankConfig\|usd_init_limit_active\|", ["C04"]),
    (r"\|EmodeSettings\|(check_dupes|update_emode_enabled)\|", ["C13"]),
    (r"\|InterestRateCalc\|get_fees\|", ["C06", "C01"]),
    (r"\|InterestRateConfig\|create_interest_rate_calculator\|", ["C06"]),
    (r"\|\|calc_emissions\|", ["C19"]),
    (r"\|\|get_remaining_accounts_per_bank\|", ["C09"]),
    (r"\|MarginfiAccount\|can_be_closed\|", ["C16"]),
    (r"\|RequirementType\|get_oracle_price_type\|", ["C04", "C05"]),
    (r"\|RiskRequirementType\|to_weight_type\|", ["C04", "C05", "C07"]),
    (r"\|RiskEngine\|(check_account_init_health|new_no_flashloan_check)\|", ["C04", "C11"]),
    (r"\|LendingAccount\|get_first_empty_balance\|", ["C16"]),
    (r"\|Balance\|change_(asset|liability)_shares\|", ["C02"]),
    (r"\|Balance\|close\|", ["C19", "C02"]),
    (r"\|BankAccountWrapper\|(borrow|deposit|deposit_ignore_deposit_cap|deposit_no_repay|repay|withdraw|withdraw_ignore_borrow_cap)\|", ["C16", "C17"]),
    (r"\|BankAccountWrapper\|settle_emissions_and_get_transfer_amount\|", ["C19"]),
    (r"\|MarginfiGroup\|update_\w*admin\|", ["C08", "C12"]),
    (r"\|MarginfiGroup\|(set_program_fee_enabled|get_group_bank_config)\|", ["C06"]),
    (r"\|PanicState\|(unpause|unpause_if_expired)\|", ["C15"]),
    (r"\|PanicState(Cache)?\|(is_expired|is_paused_flag|can_pause)\|", ["C15", "C14"]),
    (r"\|\|pyth_price_components_to_i80f48\|", ["C09"]),
    (r"\|OraclePriceFeedAdapter\|(try_from_bank|get_price_of_type|get_price_and_confidence_of_type)\|", ["C09"]),
    (r"\|SwitchboardPullPriceFeed\|(check_ais|get_price)\|", ["C09"]),
    (r"\|PythPushOraclePriceFeed\|(get_ema_price|get_unweighted_price)\|", ["C09"]),
    (r"\|FixedPriceFeed\|(get_price_of_type|get_price_and_confidence_of_type)\|", ["C09"]),
    (r"\|\|ceil_div\|", ["C03"]),
    (r"\|\|validate_not_cpi_by_stack_height\|", ["C10", "C11"]),
    (r"\|\|validate_program_allowed\|", ["C10"]),
    (r"\|MarginfiError\|is_risk_engine_rejection\|", ["C09"]),
    (r"drift_mocks\|.*\|(get_precision_increase|adjust_i128|adjust_i64|adjust_u64|get_scaled_balance_decrement|get_scaled_balance_increment|get_scaled_balance)\|", ["C20"]),
    (r"kamino_mocks\|.*\|(u68f60_to_i80f48|accumulated_protocol_fees_sf|accumulated_referrer_fees_sf|borrowed_amount_sf|pending_referrer_fees_sf|collateral_to_liquidity|liquidity_to_collateral|scaled_supplies)\|", ["C20"]),
    (r"solend_mocks\|.*\|(collateral_to_liquidity|liquidity_to_collateral|scaled_supplies)\|", ["C20"]),   # calculate_total_liquidity: decided semantically by C20.R5 (signed sum), not pinned
    (r"marginfi_type_crate\|.*\|(i80_from_i128_checked|scale_supplies|liq_to_col_ratio|col_to_liq_ratio)\|", ["C20"]),
    (r"marginfi_type_crate\|\|(milli_to_u32|centi_to_u32|basis_to_u32|u32_to_milli|u32_to_centi|u32_to_basis|make_points)\|", ["C18", "C13"]),
    (r"\|HealthCache\|set_(engine_ok|healthy|oracle_ok)\|", ["C04"]),
    # round 5: further small helpers that rules knew by name only
    (r"marginfi\|\|(validate_not_cpi_with_sysvar)\|marginfi::ix_utils", ["C10", "C11"]),
    (r"marginfi\|\|(oracle_accounts_for_bank|fetch_asset_price_for_bank_low_bias|fetch_unbiased_price_for_bank)\|", ["C09"]),
    (r"marginfi\|\|(calculate_pre_fee_spl_deposit_amount)\|", ["C03", "C07", "C19"]),
    (r"marginfi\|\|is_(drift|kamino|solend|marginfi)_asset_tag\|", ["C16"]),
    (r"marginfi\|\|(account_not_frozen_for_authority|is_signer_authorized)\|", ["C08"]),
    (r"marginfi\|\|get_remaining_accounts_per_asset_tag\|", ["C09"]),
    (r"\|BankAccountWithPriceFeed\|try_get_price_feed\|", ["C09"]),
    (r"\|RiskEngine\|check_account_health\|", ["C04", "C05"]),
    (r"\|RiskEngine\|new\|", ["C11"]),
    (r"\|RiskEngine\|get_unbiased_price_for_bank\|", ["C09"]),
    (r"\|BankAccountWrapper\|find\|", ["C16"]),
    (r"\|Bank\|(configure_unfrozen_fields_only|override_emissions_flag)\|", ["C12"]),
    (r"\|Bank\|deposit_spl_transfer\|", ["C01"]),
    (r"\|Bank\|maybe_get_asset_weight_init_discount\|", ["C04"]),
    (r"\|Bank\|update_bank_cache\|", ["C06"]),
    (r"marginfi\|\|(load_price_update_v2_checked|parse_swb_ignore_alignment)\|", ["C09"]),
    (r"\|(SwitchboardPullPriceFeed|PythPushOraclePriceFeed)\|(load_checked|get_price_of_type|get_price_and_confidence_of_type)\|", ["C09"]),
    (r"(drift|kamino|solend)_mocks\|\w+\|is_stale\|", ["C20"]),
    (r"solend_mocks\|\|(decimal_to_i80f48|get_solend_obligation_deposit_amount)\|", ["C20"]),
    (r"\|MarginfiGroup\|(is_protocol_paused)\|", ["C14"]),
    (r"\|Balance\|empty_deactivated\|", ["C02", "C16"]),
    (r"marginfi\|\|calc_fee_rate\|", ["C06"]),
    (r"marginfi\|\|assert_within_one_token\|", ["C20"]),
    (r"\|(Drift|Kamino|Solend)ConfigCompact\|to_bank_config\|", ["C13"]),
    # venue CPI wrappers (which accounts a token transfer / venue call is wired to, which PDA signs) and flat-fee transfers
    (r"marginfi\|\w*\|cpi_\w+\|marginfi::instructions::(kamino|drift|solend)::", ["C08"]),
    (r"marginfi\|\w*\|(transfer_flat_fee|transfer_fee)\|marginfi::instructions::", ["C19"]),
]


def fn_id(f):
    sa = (f.info.get("self_adt") or "").split("::")[-1]
    mod = f.key.rsplit("::", 1)[0]
    mod = re.sub(r"::\{impl#\d+\}", "", mod)
    return "%s|%s|%s|%s" % (f.info["crate"], sa, f.name, mod)


def props_of(fid):
    out = []
    for rx, props in SNAP_MAP:
        if re.search(rx, fid):
            for p in props:
                if p not in out:
                    out.append(p)
    return out


def candidates(prog):
    for k in sorted(prog.fns):
        f = prog.fns[k]
        if f.info["kind"] == "Closure" or f.info["crate"] not in ("marginfi", "marginfi_type_crate", "kamino_mocks", "drift_mocks", "solend_mocks"):
            continue
        if "::tests::" in k:
            continue
        if "::instructions::" in k and not re.match(r"(cpi_\w+|transfer_flat_fee|transfer_fee)$", f.name):
            continue
        fid = fn_id(f)
        if props_of(fid):
            yield fid, f


def _has_loop(f):
    succ = f.succ()
    return any(b in f.reach_from(b) for b in range(len(f.blocks)) if not f.blocks[b]["t"].get("cleanup"))


def build(prog):
    snap = {}
    for fid, f in candidates(prog):
        try:
            sig = leaf_sig(prog, f)
        except Exception:
            continue
        if sig and len(sig) <= 8 and sum(len(x) for x in sig) <= 1500 and not _has_loop(f):
            snap.setdefault(fid, sig)
    return snap


def _find_renamed(prog, fid, want, live_ids):
    crate, sa, _name, _mod = fid.split("|")
    for k in sorted(prog.fns):
        g = prog.fns[k]
        if g.info["kind"] == "Closure" or g.info["crate"] != crate or "::tests::" in k or len(g.blocks) > 120:
            continue
        if (g.info.get("self_adt") or "").split("::")[-1] != sa:
            continue
        if fn_id(g) in live_ids:
            continue
        try:
            if leaf_sig(prog, g) == want:
                return g
        except Exception:
            continue
    return None


def apply_renames(prog):
    """Rename resolution (run once per program, before any rule): a helper of the reviewed snapshot that is no longer found under
    its name but whose *complete path table* is found unchanged under another name on the same type / in the same crate has merely
    been renamed (or moved).  Its def records get the reviewed name back as an alias, so that every name-anchored rule, kernel tree
    and leaf table keeps looking at the same function instead of failing closed on a missing anchor.  Returns {old id: new name}."""
    try:
        snap = json.load(open(SNAP_FILE))
    except Exception:
        return {}
    live = set()
    for k, f in prog.fns.items():
        if f.info["kind"] != "Closure":
            live.add(fn_id(f))
    out = {}
    for fid, want in sorted(snap.items()):
        if fid in live:
            continue
        g = _find_renamed(prog, fid, want, live & set(snap))
        if g is None:
            continue
        old = fid.split("|")[2]
        out[fid] = g.name
        for c in prog.crates.values():
            for d in c.defs:
                if d.get("key") == g.key:
                    d["alias_of"] = d.get("name")
                    d["name"] = old
    return out


def callers_of(prog, f):
    """non-closure functions of the analysed crates that call f directly (a calling closure counts as its enclosing function)"""
    out = {}
    for k, g in prog.fns.items():
        if g.info["crate"] not in ("marginfi", "marginfi_type_crate", "kamino_mocks", "drift_mocks", "solend_mocks") or "::tests::" in k:
            continue
        if not any(c.key == f.key for c in g.calls()):
            continue
        hops = 0
        while g is not None and g.info["kind"] == "Closure" and hops < 4:
            g = prog.fns.get(g.info.get("closure_of"))
            hops += 1
        if g is not None and g.info["kind"] != "Closure" and g.key != f.key:
            out[g.key] = g
    return [out[k] for k in sorted(out)]


def callers_unchanged(prog, f, fid):
    """every function that calls helper f today behaves, as a whole (deep form, helper bodies spliced in), exactly like the reviewed
    version of that caller - and every reviewed caller is still among them or unchanged itself.  Then a changed contract of f (split
    into two phases, a bool replaced by an enum, a value passed by reference ...) is compensated at every use."""
    from .kernels import deep_reviewed, deep_sig
    reviewed = deep_reviewed("CALLERS|" + fid)
    if not reviewed:
        return False
    now = callers_of(prog, f)
    ids = {fn_id(g): g for g in now}
    live = {fn_id(g): g for k, g in prog.fns.items() if g.info["kind"] != "Closure"}
    todo = dict(ids)
    for gid in reviewed:
        if gid not in todo and gid in live:
            todo[gid] = live[gid]
        elif gid not in todo:
            return False          # a reviewed caller vanished: its behaviour cannot be compared
    if not todo:
        return False
    for gid, g in todo.items():
        want = deep_reviewed("C|" + gid)
        if not want:
            return False
        got = deep_sig(prog, g, budget=6.0)
        if got is None or got != want:
            return False
    return True


def check_snapshot(ctx, pid):
    prog = ctx.prog
    try:
        snap = json.load(open(SNAP_FILE))
    except Exception:
        ctx.missing(pid + ".S", "rules/leaf_snapshot.json")
        return
    live = {}
    for fid, f in candidates(prog):
        live.setdefault(fid, f)
    n = 0
    for fid, want in sorted(snap.items()):
        if pid not in props_of(fid):
            continue
        f = live.get(fid)
        if f is None:
            same = [g for lid, g in live.items() if lid.split("|")[:3] == fid.split("|")[:3] and lid not in snap]
            if len(same) == 1:
                f = same[0]          # the helper was moved to another module of the same crate
        short = "%s::%s" % (fid.split("|")[1] or fid.split("|")[3].split("::")[-1], fid.split("|")[2])
        if f is None:
            # renamed / moved helper: the same path table under another name on the same type (or free function in the same crate) is
            # the same helper; only a helper that is really gone (or changed while being renamed) is reported
            ren = _find_renamed(prog, fid, want, set(live))
            if ren is not None:
                n += 1
                ctx.inst(pid + ".S", "helper/" + short, True, "the complete path table of %s equals the reviewed snapshot" % short, "ok (now named %s)" % ren.name, ren.loc(ren.raw["span"]))
                continue
            # the helper no longer exists under any name: it was inlined into its callers or dropped.  The snapshot is a backstop for code
            # the rules know by name only; with the helper gone its content is part of the callers, which the property's own rules (and the
            # callers' pins, compared modulo helper boundaries) decide.  Listed as undecided, never silently skipped.
            ctx.inst(pid + ".S", "helper/" + short, None, "the complete path table of %s equals the reviewed snapshot" % short, "helper no longer exists (inlined into its callers?)", None)
            continue
        try:
            got = leaf_sig(prog, f)
        except Exception as e:
            got = ["<not a small loop-free helper any more: %s>" % e]
        n += 1
        ok = got == want
        diff = [x for x in got if x not in want][:2] + ["(missing) " + x for x in want if x not in got][:2]
        if not ok:
            from .kernels import same_modulo_helper_boundaries
            if same_modulo_helper_boundaries(prog, f, "S|" + fid):
                ok, diff = True, "ok (equal to the reviewed helper modulo helper boundaries: a callee was extracted / inlined / merged)"
            elif callers_unchanged(prog, f, fid):
                ok, diff = True, "ok (the helper's contract changed, every caller as a whole behaves like its reviewed version)"
        ctx.inst(pid + ".S", "helper/" + short, ok, "the complete path table of %s equals the reviewed snapshot" % short, diff or "ok", f.loc(f.raw["span"]))
    return n
