"""Shared anchors and helpers for rule files."""
from engine import analysis as A
from engine.model import match_def, op_place

BANK = "marginfi_type_crate::types::bank::Bank"
BANKCFG = "marginfi_type_crate::types::bank_config::BankConfig"
BALANCE = "marginfi_type_crate::types::user_account::Balance"
LENDACC = "marginfi_type_crate::types::user_account::LendingAccount"
MACCOUNT = "marginfi_type_crate::types::user_account::MarginfiAccount"
GROUP = "marginfi_type_crate::types::group::MarginfiGroup"
MFI_ERR = A.MFI_ERR

# SPL / system token movement primitives (external crates)
TRANSFER_SPECS = [
    {"name": "transfer_checked", "crate": ["anchor_spl", "spl_token_2022", "spl_token"]},
    {"name": "transfer", "crate": ["anchor_spl", "spl_token", "anchor_lang"]},
    {"name": "invoke_transfer_checked"},
]
CPI_SPECS = [{"name": ["invoke", "invoke_signed", "invoke_signed_unchecked", "invoke_unchecked"], "crate": ["solana_program", "solana_cpi", "anchor_lang"]}]

SHARE_FIELDS = {(BANK, "total_asset_shares"), (BANK, "total_liability_shares"), (BALANCE, "asset_shares"),
                (BALANCE, "liability_shares")}


def is_share_write(owner, field):
    return (owner, field) in SHARE_FIELDS or (owner == BALANCE and field == "*")


def fns_with_param_type(prog, crate, ty_substr):
    out = []
    for f in prog.fns.values():
        if f.info["crate"] != crate or f.info["kind"] == "Closure":
            continue
        for i in range(1, f.argc + 1):
            if ty_substr in f.local_ty(i)["s"]:
                out.append(f)
                break
    return out


def variant_arg(ctx, f, callsite, idx, adt_suffix):
    """variant names (of enum adt_suffix) an argument may take, by provenance"""
    pv = ctx.slicer.operand(f, callsite.args[idx])
    vs = {v for (a, v) in pv.variants if a.endswith("::" + adt_suffix) or a == adt_suffix}
    return vs, pv


def acct_fields(pv, struct_key):
    """Accounts-struct fields an operand derives from"""
    return sorted({n for (o, n) in pv.fields if o == struct_key})


def loc_of(f, block):
    return f.bloc(block)


def direct_or_wrapped_calls(ctx, f, is_target_call, depth=2):
    """Blocks of f that perform a target call: directly (is_target_call(callsite) true) or by calling a
    function g (body available) every successful path of which performs one (recursively, bounded)."""
    out = []
    for c in f.calls():
        if is_target_call(f, c):
            out.append(c.block)
            continue
        if depth > 0 and c.key in ctx.prog.fns and c.callee["crate"] == "marginfi":
            g = ctx.prog.fns[c.key]
            inner = direct_or_wrapped_calls(ctx, g, is_target_call, depth - 1)
            if inner:
                ok, _ = A.must_pass(g, inner)
                if ok:
                    out.append(c.block)
    return out
