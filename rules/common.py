"""Shared anchors and helpers for rule files."""
import re
from engine import analysis as A
from engine.model import match_def, op_place

BANK = "marginfi_type_crate::types::bank::Bank"
BANKCFG = "marginfi_type_crate::types::bank_config::BankConfig"
BALANCE = "marginfi_type_crate::types::user_account::Balance"
LENDACC = "marginfi_type_crate::types::user_account::LendingAccount"
MACCOUNT = "marginfi_type_crate::types::user_account::MarginfiAccount"
GROUP = "marginfi_type_crate::types::group::MarginfiGroup"
MFI_ERR = A.MFI_ERR

# SPL / system token movement primitives (external crates)
TRANSFER_SPECS = [
    {"name": "transfer_checked", "crate": ["anchor_spl", "spl_token_2022", "spl_token"]},
    {"name": "transfer", "crate": ["anchor_spl", "spl_token", "anchor_lang"]},
    {"name": "invoke_transfer_checked"},
]
CPI_SPECS = [{"name": ["invoke", "invoke_signed", "invoke_signed_unchecked", "invoke_unchecked"], "crate": ["solana_program", "solana_cpi", "anchor_lang"]}]

SHARE_FIELDS = {(BANK, "total_asset_shares"), (BANK, "total_liability_shares"), (BALANCE, "asset_shares"),
                (BALANCE, "liability_shares")}


def is_share_write(owner, field):
    return (owner, field) in SHARE_FIELDS or (owner == BALANCE and field == "*")


def fns_with_param_type(prog, crate, ty_substr):
    out = []
    for f in prog.fns.values():
        if f.info["crate"] != crate or f.info["kind"] == "Closure":
            continue
        for i in range(1, f.argc + 1):
            if ty_substr in f.local_ty(i)["s"]:
                out.append(f)
                break
    return out


def variant_arg(ctx, f, callsite, idx, adt_suffix):
    """variant names (of enum adt_suffix) an argument may take, by provenance"""
    pv = ctx.slicer.operand(f, callsite.args[idx])
    vs = {v for (a, v) in pv.variants if a.endswith("::" + adt_suffix) or a == adt_suffix}
    return vs, pv


def acct_fields(pv, struct_key):
    """Accounts-struct fields an operand derives from"""
    return sorted({n for (o, n) in pv.fields if o == struct_key})


def ret_aliases(f):
    """locals whose whole value is moved into the return place (directly or through other such locals) - e.g. the return local of a
    spliced helper whose result the function returns"""
    alias = {0}
    changed = True
    while changed:
        changed = False
        for bb in f.blocks:
            for s in bb["s"]:
                d, v = s.get("d"), s.get("v")
                if d and v and d["l"] in alias and not d.get("p") and v["r"] == "use":
                    p = op_place(v["a"][0])
                    if p is not None and not p.get("p") and p["l"] not in alias and not (1 <= p["l"] <= f.argc):
                        alias.add(p["l"])
                        changed = True
    return alias


def loc_of(f, block):
    return f.bloc(block)


def direct_or_wrapped_calls(ctx, f, is_target_call, depth=2):
    """Blocks of f that perform a target call: directly (is_target_call(callsite) true) or by calling a
    function g (body available) every successful path of which performs one (recursively, bounded)."""
    out = []
    for c in f.calls():
        if is_target_call(f, c):
            out.append(c.block)
            continue
        if depth > 0 and c.key in ctx.prog.fns and c.callee["crate"] == "marginfi":
            g = ctx.prog.fns[c.key]
            inner = direct_or_wrapped_calls(ctx, g, is_target_call, depth - 1)
            if inner:
                ok, _ = A.must_pass(g, inner)
                if ok:
                    out.append(c.block)
    return out


# --------------------------------------------------------------------------- wiring helpers

def _has(ctx, pv, item):
    kind = item[0]
    if kind == "field":
        return pv.has_field(item[1], item[2])
    if kind == "call":
        return pv.has_call(ctx.prog, item[1])
    if kind == "const":
        return pv.has_const(item[1])
    if kind == "param":
        return item[1] in pv.params
    if kind == "op":
        return any(o.replace("WithOverflow", "") == item[1] for o in pv.ops)
    if kind == "int":
        return item[1] in pv.ints
    if kind == "variant":
        return any(v == item[2] and (a == item[1] or a.endswith("::" + item[1])) for (a, v) in pv.variants)
    raise KeyError(kind)


def _item_str(item):
    if item[0] == "call":
        sp = item[1]
        return "call:" + (sp.get("name") if isinstance(sp, dict) and isinstance(sp.get("name"), str) else str(sp))
    return ":".join(str(x) for x in item)


def wiring(ctx, rule, construct, pv, must=(), must_not=(), loc=None, what=""):
    """must-include items are enforced; must-exclude items only when the slice stayed exact."""
    missing = [_item_str(i) for i in must if not _has(ctx, pv, i)]
    present = [_item_str(i) for i in must_not if _has(ctx, pv, i)]
    exp = "%s derives from [%s]" % (what or construct, ", ".join(_item_str(i) for i in must))
    if must_not:
        exp += " and not from [%s]" % ", ".join(_item_str(i) for i in must_not)
    if missing:
        return ctx.inst(rule, construct, False, exp, "missing: %s; slice=%s" % (missing, A._pvs(pv)), loc)
    if present:
        if pv.exact:
            return ctx.inst(rule, construct, False, exp, "unexpected source: %s; slice=%s" % (present, A._pvs(pv)), loc)
        return ctx.inst(rule, construct, None, exp, "unexpected source %s but slice inexact" % present, loc)
    return ctx.inst(rule, construct, True, exp, "ok", loc)


def field_idx(prog, adt_key, name, variant=0):
    a = prog.adts[adt_key]
    for i, f in enumerate(a["variants"][variant]["fields"]):
        if f["name"] == name:
            return i
    raise KeyError("%s.%s" % (adt_key, name))


def adt_key(prog, suffix):
    ks = [k for k in prog.adts if k == suffix or k.endswith("::" + suffix)]
    if len(ks) != 1:
        raise LookupError("adt %s: %d" % (suffix, len(ks)))
    return ks[0]


def field_stores(ctx, f, owner, name):
    """[(block, stmt, prov of stored value)] for assignments whose destination's last field is (owner, name)"""
    out = []
    for bi, bb in enumerate(f.blocks):
        for s in bb["s"]:
            if "d" not in s:
                continue
            fs = [e for e in s["d"].get("p", []) if isinstance(e, dict) and "f" in e]
            if fs and fs[-1]["o"] == owner and fs[-1]["n"] == name:
                pv = A.Prov()
                ctx.slicer._rvalue(f, s["v"], pv, 0, set(), (), bi)
                out.append((bi, s, pv))
        t = bb["t"]
        if t["k"] == "call":
            fs = [e for e in t["dest"].get("p", []) if isinstance(e, dict) and "f" in e]
            if fs and fs[-1]["o"] == owner and fs[-1]["n"] == name:
                pv = A.Prov()
                ctx.slicer._call(f, t, pv, 0, set(), (), bi)
                out.append((bi, t, pv))
    return out


def agg_fields(ctx, f, adt, field):
    """[(block, prov)] of the operand building `field` in aggregates of `adt` constructed in f"""
    out = []
    for bi, bb in enumerate(f.blocks):
        for s in bb["s"]:
            v = s.get("v")
            if v and v["r"] == "agg" and v.get("ak") == "adt" and (v["adt"] == adt or v["adt"].endswith("::" + adt)):
                if field in v["fields"]:
                    o = v["a"][v["fields"].index(field)]
                    out.append((bi, ctx.slicer.operand(f, o, at=bi)))
    return out


def writers_of(prog, owner, field, crates=("marginfi", "marginfi_type_crate")):
    """functions (keys) that directly write (owner, field)"""
    out = []
    for k, f in prog.fns.items():
        if f.info["crate"] not in crates:
            continue
        w = prog.writes_direct(k)
        if (owner, field) in w:
            kinds = {kind for (_, _, kind) in w[(owner, field)]}
            out.append((k, kinds))
    return out


def balance_resetters(prog, balance_adt):
    """(resetters, slot creators): functions that overwrite a whole Balance.  The one that can fail with LendingAccountBalanceSlotsFull is the
    slot *creator* (it writes a fresh slot - field by field or by assigning into lending_account.balances[i]); the others reset a slot."""
    whole = [k for k, kinds in writers_of(prog, balance_adt, "*") if "assign" in kinds]
    creators = [k for k in whole if A.error_variant_blocks(prog.fns[k], "LendingAccountBalanceSlotsFull")
                or any(A.error_variant_blocks(prog.fns[ck], "LendingAccountBalanceSlotsFull") for _, ck in prog.fns[k].closures_created() if ck in prog.fns)]
    return [k for k in whole if k not in creators], creators


def defining_call(f, o, hops=0, path=()):
    """Walk back from operand o through moves, tuple/struct construction + projection, and pass-through
    adaptors (`?`, into, ok_or_else, unwrap ...) to the call terminator that produced the value.
    Returns (block, terminator) or None."""
    if hops > 16:
        return None
    p = op_place(o)
    if p is None:
        return None
    path = tuple(e["f"] for e in p.get("p", []) if isinstance(e, dict) and "f" in e) + tuple(path)
    d = A.single_def(f, p["l"])
    if d is None:
        # a Result / Option local with one value definition and otherwise only error definitions (`Err(..)`, `None`, a propagated
        # residual - e.g. the return local of a spliced fallible helper): the value definition is the one that matters
        cands = []
        for (b_, s_) in f.local_defs().get(p["l"]) or []:
            if s_ == "T":
                t_ = f.blocks[b_]["t"]
                ci_ = f.dinfo(t_["res"]) if t_.get("res") is not None else (f.dinfo(t_["raw"]) if "raw" in t_ else None)
                if ci_ and ci_["name"] == "from_residual":
                    continue
                cands.append((b_, s_))
                continue
            st_ = f.blocks[b_]["s"][s_]
            v_ = st_["v"]
            if st_["d"].get("p"):
                cands.append((b_, s_))
                continue
            if v_["r"] == "agg" and v_.get("ak") == "adt" and ((v_["adt"] == A.RESULT and v_["variant"] == "Err") or (v_["adt"] == A.OPTION and v_["variant"] == "None")):
                continue
            cands.append((b_, s_))
        if len(cands) != 1:
            return None
        d = cands[0]
    bi, si = d
    if si == "T":
        t = f.blocks[bi]["t"]
        ci = f.dinfo(t["res"]) if t.get("res") is not None else (f.dinfo(t["raw"]) if "raw" in t else None)
        nm = ci["name"] if ci else ""
        if nm in A.SAME_PATH_CALLS and t["args"]:
            return defining_call(f, t["args"][0], hops + 1, path)
        if nm in A.UNWRAP_CALLS and t["args"]:
            return defining_call(f, t["args"][0], hops + 1, (0,) + path)
        return (bi, t, path)
    s = f.blocks[bi]["s"][si]
    v = s["v"]
    if s["d"].get("p"):
        return None
    if v["r"] in ("use", "cast"):
        return defining_call(f, v["a"][0], hops + 1, path)
    if v["r"] == "ref":
        return defining_call(f, {"c": v["pl"]}, hops + 1, path)
    if v["r"] == "agg" and path and v.get("ak") in ("tuple", "adt") and path[0] < len(v["a"]):
        return defining_call(f, v["a"][path[0]], hops + 1, path[1:])
    return None


def agg_operand(f, adt, field):
    """[(block, operand)] operands building `field` in aggregates of `adt` in f"""
    out = []
    for bi, bb in enumerate(f.blocks):
        for s in bb["s"]:
            v = s.get("v")
            if v and v["r"] == "agg" and v.get("ak") == "adt" and (v["adt"] == adt or v["adt"].endswith("::" + adt)) and field in v["fields"]:
                out.append((bi, v["a"][v["fields"].index(field)]))
    return out


def flag_edges(ctx, f, flag_const, callee_name="get_flag"):
    """[(switch block, target block, truth)] edges decided by `get_flag(_, FLAG)`"""
    out = []
    for bi, bb in enumerate(f.blocks):
        t = bb["t"]
        if t["k"] != "switch":
            continue
        arms = [(int(a), b) for a, b in t["arms"]] + [("else", t["else"])]
        for (arm, tgt) in arms:
            at = A.atom_of_edge(ctx.prog, f, bi, arm, ctx.slicer)
            if at.kind == "call" and at.callee.endswith("::" + callee_name) and len(at.args) >= 2 and at.args[1].has_const(flag_const):
                out.append((bi, tgt, at.truth))
    return out


def blocks_only_via(f, edge):
    """blocks reachable from entry only through edge (sw, tgt)"""
    sw, tgt = edge
    full = A.reach_without(f)
    wo = A.reach_without(f, removed_edges={(sw, tgt)})
    return full - wo


def writes_in_blocks(prog, f, blocks, owner_prefix="marginfi_type_crate::types::"):
    """transitive (owner, field) writes performed by the given blocks of f"""
    out = set()
    blocks = set(blocks)
    for w, sites in prog.writes_direct(f.key).items():
        if any(b in blocks for (b, _, _) in sites):
            out.add(w)
    for c in f.calls():
        if c.block in blocks:
            for k in [c.key, c.closure]:
                if k:
                    out |= prog.writes(k)
    for b, ck in f.closures_created():
        if b in blocks:
            out |= prog.writes(ck)
    return {w for w in out if w[0].startswith(owner_prefix) and not w[1].startswith("=")}


def expect_atom(ctx, rule, construct, f, variant, rel, lp, rp, desc, on_all_paths=True, extra=None, use_conds=False):
    """There is a guard error_if(rel, lhs, rhs) leading to MarginfiError::<variant> in f with lp(lhs) and rp(rhs);
    optionally evaluated on every successful path of f."""
    ev = A.error_variant_blocks(f, variant) if variant else []
    atoms = A.guard_atoms(ctx.prog, f, ev, ctx.slicer) if ev else []
    if use_conds and ev:
        for e in ev:
            atoms += A.edge_conditions_to(ctx.prog, f, e, ctx.slicer, limit=30)
    g = [a for a in atoms if a.kind == "cmp" and a.rel == rel and lp(a.lhs) and rp(a.rhs) and (extra is None or extra(a))]
    ok = bool(g)
    why = ""
    if ok and on_all_paths:
        ok = A.must_pass(f, [a.switch[0] for a in g])[0]
        if not ok:
            why = "guard can be skipped on a successful path; "
    return ctx.inst(rule, construct, ok, desc, why + ("; ".join(a.describe() for a in atoms if a.kind == "cmp")[:700] if not ok else "ok"),
                    f.bloc(g[0].switch[0]) if g else (f.bloc(ev[0]) if ev else f.loc(f.raw["span"])))


def F(owner, name):
    return lambda p: p.has_field(owner, name)


def Cn(name):
    return lambda p: p.has_const(name)


def only_field(owner, name, others):
    """has field (owner,name) and none of the sibling fields"""
    return lambda p: p.has_field(owner, name) and not any(p.has_field(owner, o) for o in others if o != name)


def call_on_all_paths(ctx, rule, construct, f, spec, desc, consumed=True):
    cs = A.direct_calls(f, spec)
    ok = bool(cs) and A.must_pass(f, [c.block for c in cs])[0] and (not consumed or all(A.consumed(f, c.block)[0] for c in cs))
    return ctx.inst(rule, construct, ok, desc, "%d call sites" % len(cs), cs[0].loc if cs else f.loc(f.raw["span"]))


def transfer_sites(ctx, h, skey):
    """SPL transfer call sites of the Bank helper methods in handler h"""
    out = []
    for c in h.calls():
        nm = c.callee["name"] if c.callee else ""
        if nm not in ("deposit_spl_transfer", "withdraw_spl_transfer"):
            continue
        a = c.args
        ent = {"call": c, "kind": nm.split("_")[0], "amount": ctx.slicer.operand(h, a[1], at=c.block),
               "bank": acct_fields(ctx.slicer.operand(h, a[0], at=c.block), skey),
               "from": acct_fields(ctx.slicer.operand(h, a[2], at=c.block), skey), "to": acct_fields(ctx.slicer.operand(h, a[3], at=c.block), skey),
               "authority": acct_fields(ctx.slicer.operand(h, a[4], at=c.block), skey), "vault_types": set(), "seeds": None}
        if nm == "withdraw_spl_transfer":
            sd = ctx.slicer.operand(h, a[7], at=c.block)
            ent["seeds"] = sd
            ent["vault_types"] = {v for (ad, v) in sd.variants if ad.endswith("BankVaultType")}
        out.append(ent)
    return out


# ---------------------------------------------------------------------------------------------
# canonical expression trees (strings) of a value, resolved through temporaries, `?`, into(), casts
COMMUTATIVE = {"add", "mul", "checked_add", "checked_mul", "min", "max", "eq", "ne", "saturating_add", "saturating_mul", "wrapping_add", "wrapping_mul", "bitand", "bitor"}
_BINNAMES = {"AddWithOverflow": "add", "SubWithOverflow": "sub", "MulWithOverflow": "mul", "Add": "add", "Sub": "sub", "Mul": "mul", "Div": "div", "Rem": "rem",
             "Lt": "lt", "Le": "le", "Gt": "gt", "Ge": "ge", "Eq": "eq", "Ne": "ne", "BitAnd": "bitand", "BitOr": "bitor", "BitXor": "bitxor", "Shl": "shl", "Shr": "shr"}


NEW_ADTS = set()     # ADTs introduced after the review (engine/inline.py new_adts): rendered positionally, like the tuple they replace

_PATH = None     # (fn, [blocks]) while bool_paths evaluates one concrete path: multi-definition locals resolve to the definition on it


ASSOCIATIVE = {"add", "mul", "checked_add", "checked_mul", "min", "max", "bitand", "bitor"}


def _operand_ty_kind(f, o):
    k = o.get("k")
    try:
        if k is not None:
            return (f.ty(k["ty"]) if "ty" in k else {}).get("k")
        p = op_place(o)
        if p is None:
            return None
        return (f.ty(p["t"]) if (p.get("p") and "t" in p) else f.local_ty(p["l"])).get("k")
    except Exception:
        return None


def call_tree(f, t, nm, args):
    """tree of a call terminator: `I80F48::from_num(x)` is a lossless value conversion when x is an integer (the same value as
    `I80F48::from(x)`, which like into() never reaches a tree) and, for a float literal, the fixed-point constant it denotes
    (from_num(1.0) == I80F48::ONE); everything else is name(args)."""
    if nm == "from_num" and len(args) == 1 and len(t["args"]) == 1:
        tk = _operand_ty_kind(f, t["args"][0])
        if tk in ("int", "uint"):
            return args[0]
        if tk == "float" and re.fullmatch(r"\d+", args[0]):
            import struct
            bits = int(args[0])
            try:
                x = struct.unpack("<d", struct.pack("<Q", bits))[0] if bits >= (1 << 32) or bits == 0 else struct.unpack("<f", struct.pack("<I", bits))[0]
                sc = x * (1 << 48)
                if sc == int(sc):
                    return str(int(sc))
            except Exception:
                pass
    if nm in ("transpose", "ok") and len(args) == 1 and len(t["args"]) == 1 and _operand_adt(f, t["args"][0]) in _WRAP_ADTS:
        return args[0]          # Option<Result<T>> <-> Result<Option<T>>, Result -> Option: the payload is the same value
    if nm in ("map", "and_then") and len(args) == 2 and args[1].startswith("closure{") and args[1].endswith("}") and _operand_adt(f, t["args"][0]) in _WRAP_ADTS:
        # opt.map(|x| body(x)) on an Option / Result is body(payload): the same value a `match opt { Some(x) => body(x), .. }` computes
        body = args[1][len("closure{"):-1]
        sub = _subst_free(body, "a2", args[0])
        if sub != body and not re.search(r"(?<![\w.])a[3-9](?![\w])", body):
            return sub          # (a closure that was not inlined - depth bound - shows its captures only and is left alone)
    if nm == "map_or" and len(args) == 3 and args[2].startswith("closure{") and args[2].endswith("}") and _operand_adt(f, t["args"][0]) in _WRAP_ADTS:
        # opt.map_or(d, |x| body(x)) == opt.map(|x| body(x)).unwrap_or(d): phi(d | body(payload))
        body = args[2][len("closure{"):-1]
        sub = _subst_free(body, "a2", args[0])
        if sub != body and not re.search(r"(?<![\w.])a[3-9](?![\w])", body):
            return "phi(%s)" % "|".join(sorted({_unwrap_arg(args[1]), sub}))
    return mk_call(nm, args)


_WRAP_ADTS = ("core::option::Option", "core::result::Result")


def _subst_free(body, var, repl):
    """replace the free occurrences of closure parameter `var` in a closure body tree (occurrences inside a nested closure{..} are
    that closure's own parameter)"""
    out = ""
    i = 0
    n = len(body)
    while i < n:
        if body.startswith("closure{", i):
            d = 0
            j = i + len("closure")
            while j < n:
                if body[j] == "{":
                    d += 1
                elif body[j] == "}":
                    d -= 1
                    if d == 0:
                        break
                j += 1
            out += body[i:j + 1]
            i = j + 1
            continue
        m = re.compile(r"(?<![\w.])%s(?![\w])" % re.escape(var)).match(body, i)
        if m and (i == 0 or not (body[i - 1].isalnum() or body[i - 1] in "_.")):
            out += repl
            i = m.end()
            continue
        out += body[i]
        i += 1
    return out


def _operand_adt(f, o):
    try:
        p = op_place(o)
        if p is None:
            return None
        ty = f.ty(p["t"]) if (p.get("p") and "t" in p) else f.local_ty(p["l"])
        hops = 0
        while ty.get("k") == "ref" and hops < 3:
            ty = f.ty(ty["to"])
            hops += 1
        return ty.get("adt")
    except Exception:
        return None


_WRAP = ("Result::Ok{", "Option::Some{", "ControlFlow::Continue{")


def _unwrap_arg(a):
    """an operand that is a freshly built Ok(x) / Some(x) / Continue(x) was necessarily unwrapped (`?`, match, unwrap) before it could
    be used as an operand: as an argument, Ok{x} is x (also inside a phi).  The outermost return position keeps its wrapper."""
    for w in _WRAP:
        if a.startswith(w) and a.endswith("}"):
            inner = a[len(w):-1]
            d = 0
            ok = True
            for ch in inner:
                if ch in "({":
                    d += 1
                elif ch in ")}":
                    d -= 1
                    if d < 0:
                        ok = False
                        break
                elif ch == "," and d == 0:
                    ok = False
                    break
            if ok and d == 0:
                return _unwrap_arg(inner)
    if a.startswith("phi(") and a.endswith(")"):
        sc = split_call("x(" + a[4:-1].replace("|", ",") + ")") if "|" in a else None
        # split the alternatives at top-level bars
        parts, cur, d = [], "", 0
        for ch in a[4:-1]:
            if ch in "({":
                d += 1
            elif ch in ")}":
                d -= 1
            if ch == "|" and d == 0:
                parts.append(cur)
                cur = ""
            else:
                cur += ch
        parts.append(cur)
        if d == 0 and len(parts) > 1:
            un = sorted({_unwrap_arg(x) for x in parts})
            return un[0] if len(un) == 1 else "phi(%s)" % "|".join(un)
    return a


def _is_const_tree(a):
    return bool(re.fullmatch(r"-?\d+|[A-Z][A-Z0-9_]*|const|promoted|from_num\(-?\d+\)", a))


def mk_call(nm, args):
    """name(args) with commutative arguments sorted and associative nests flattened"""
    args = [_unwrap_arg(a) for a in args]
    if nm == "clamp" and len(args) == 3:
        return mk_call("min", [mk_call("max", [args[0], args[1]]), args[2]])      # x.clamp(lo, hi) == x.max(lo).min(hi) for lo <= hi
    if nm == "max" and len(args) == 2:
        # x.min(hi).max(lo) == x.max(lo).min(hi) when lo <= hi: with both bounds constant the two nestings are one clamp
        for i in (0, 1):
            sc = split_call(args[i])
            lo = args[1 - i]
            if sc and sc[0] == "min" and len(sc[1]) == 2 and _is_const_tree(lo):
                his = [a for a in sc[1] if _is_const_tree(a)]
                xs = [a for a in sc[1] if not _is_const_tree(a)]
                if len(his) == 1 and len(xs) == 1:
                    return mk_call("min", [mk_call("max", [xs[0], lo]), his[0]])
    if nm in ("gt", "ge") and len(args) == 2:
        nm, args = ("lt" if nm == "gt" else "le"), [args[1], args[0]]      # one spelling per relation
    if nm in ASSOCIATIVE:
        flat = []
        for a in args:
            sc = split_call(a)
            if sc and sc[0] == nm:
                flat.extend(sc[1])
            else:
                flat.append(a)
        args = flat
    if nm in COMMUTATIVE:
        args = sorted(args)
    return "%s(%s)" % (nm, ",".join(args))


def expr_tree(prog, f, o, depth=0, seen=None, inline=0):
    """String form of the expression computing operand o in f.  Locals with several definitions become
    phi(a|b); params are p<N>[.field...]; named constants their int value or name; calls name(args)."""
    seen = seen or frozenset()
    if depth > 40:
        return "..."
    k = o.get("k")
    if k is not None:
        v = k.get("v") or {}
        if "int" in v:
            return str(v["int"])
        if k.get("promoted") is not None and k.get("item") is not None:
            pf = prog.promoted.get((f.dinfo(k["item"])["key"], k["promoted"]))
            if pf is not None and depth < 30:
                return _local_tree(prog, pf, 0, [], depth + 1, frozenset(), inline)
            return "promoted"
        if k.get("item") is not None:
            return f.dinfo(k["item"])["name"]
        if "static" in v:
            return v["static"].split("::")[-1]
        return "const"
    p = op_place(o)
    if p is None:
        return "?"
    flds = []
    for e in p.get("p", []):
        if not isinstance(e, dict):
            continue
        if "f" in e:
            if not _wrapper_owner(e.get("o")):
                flds.append(str(e["f"]) if e.get("o") in NEW_ADTS else (e["n"] if e.get("n") else str(e["f"])))
        elif "i" in e:
            flds.append("[%s]" % _local_tree(prog, f, e["i"], [], depth + 1, seen, inline))
        elif "ci" in e:
            flds.append("[%s%s]" % ("-" if e.get("fe") else "", e["ci"]))
    l = p["l"]
    if 1 <= l <= f.argc and not _assigned(f, l):
        return "p%d%s" % (l, _sfx(flds))
    return _local_tree(prog, f, l, flds, depth, seen, inline)


def _wrapper_owner(o):
    return bool(o) and o.split("::")[-1] in ("Option", "Result", "ControlFlow", "Some", "Ok", "Err", "Continue", "Break")


def _sfx(flds):
    return "".join(x if x.startswith("[") else "." + x for x in flds)


def _assigned(f, l):
    """is parameter l re-assigned as a whole (field stores through it do not count)"""
    for (bi, si) in f.local_defs().get(l) or []:
        if si == "T":
            t = f.blocks[bi]["t"]
            if not (t.get("dest") or {}).get("p"):
                return True
        elif not f.blocks[bi]["s"][si]["d"].get("p"):
            return True
    return False


def _local_tree(prog, f, l, flds, depth, seen, inline):
    global _PATH
    defs = f.local_defs().get(l) or []
    saved = None
    if _PATH is not None and _PATH[0] is f and defs:
        # concrete path: the value is the last definition on the path *before the point of use* (position bound),
        # so `w = w * d` resolves the right-hand w to the earlier definition instead of to itself
        blocks = _PATH[1]
        bound = _PATH[2] if len(_PATH) > 2 else (len(blocks), 0)

        def pos(d_):
            return (blocks.index(d_[0]), 10 ** 6 if d_[1] == "T" else d_[1])
        on = [d_ for d_ in defs if d_[0] in blocks and pos(d_) < bound]
        if on:
            d0 = max(on, key=pos)
            defs = [d0]
            saved = _PATH
            _PATH = (f, blocks, pos(d0))
            seen = seen - {l}
    try:
        return _local_tree_defs(prog, f, l, flds, depth, seen, inline, defs)
    finally:
        if saved is not None:
            _PATH = saved


def _local_tree_defs(prog, f, l, flds, depth, seen, inline, defs):
    if not defs:
        return "p%d%s" % (l, _sfx(flds)) if 1 <= l <= f.argc else "undef"
    if l in seen:
        return "loop"
    seen = seen | {l}
    outs = []
    for (bi, si) in defs:
        if si == "T":
            t = f.blocks[bi]["t"]
            if t["k"] != "call":
                outs.append("?")
                continue
            ci = f.dinfo(t["res"]) if t.get("res") is not None else (f.dinfo(t["raw"]) if "raw" in t else None)
            nm = ci["name"] if ci else "indirect"
            if nm == "from_residual":
                continue
            if nm in A.SAME_PATH_CALLS and t["args"]:
                t_ = expr_tree(prog, f, t["args"][0], depth + 1, seen, inline)
                outs.append(t_ + (_sfx(flds) if flds else ""))
                continue
            if nm in A.UNWRAP_CALLS and t["args"]:
                t0 = expr_tree(prog, f, t["args"][0], depth + 1, seen, inline)
                if nm in ("unwrap_or", "unwrap_or_else") and len(t["args"]) == 2:
                    t1 = expr_tree(prog, f, t["args"][1], depth + 1, seen, inline)
                    outs.append("phi(%s)" % "|".join(sorted({t0, t1})))
                else:
                    outs.append(t0)
                continue
            args = [expr_tree(prog, f, a, depth + 1, seen, inline) for a in t["args"]]
            outs.append(call_tree(f, t, nm, args) + _sfx(flds))
            continue
        s = f.blocks[bi]["s"][si]
        if s["d"].get("p"):
            # partial (field) write into the local: only relevant when we are reading that field
            wf = [(str(e["f"]) if e.get("o") in NEW_ADTS else (e["n"] if e.get("n") else str(e["f"]))) for e in s["d"]["p"] if isinstance(e, dict) and "f" in e]
            if flds[:len(wf)] != wf:
                continue
        outs.append(rvalue_tree(prog, f, s["v"], flds, depth, seen, inline))
    outs = sorted(set(outs))
    if not outs:
        return "undef"
    if len(outs) == 1:
        return outs[0]
    return "phi(%s)" % "|".join(outs)


def rvalue_tree(prog, f, v, flds=(), depth=0, seen=frozenset(), inline=0):
    flds = list(flds)
    r = v["r"]
    if r in ("use", "cast", "repeat"):
        return expr_tree(prog, f, v["a"][0], depth + 1, seen, inline) + _sfx(flds)
    if r in ("ref", "rawptr"):
        return expr_tree(prog, f, {"c": v["pl"]}, depth + 1, seen, inline) + _sfx(flds)
    if r == "bin":
        nm = _BINNAMES.get(v["op"], v["op"].lower())
        args = [expr_tree(prog, f, a, depth + 1, seen, inline) for a in v["a"]]
        return mk_call(nm, args)
    if r == "un":
        return "%s(%s)" % (v["op"].lower(), expr_tree(prog, f, v["a"][0], depth + 1, seen, inline))
    if r == "agg":
        if flds and v.get("ak") == "adt" and v.get("adt") in NEW_ADTS and flds[0].isdigit() and int(flds[0]) < len(v["a"]):
            return expr_tree(prog, f, v["a"][int(flds[0])], depth + 1, seen, inline) + _sfx(flds[1:])
        if flds and v.get("ak") == "adt" and flds[0] in (v.get("fields") or []):
            return expr_tree(prog, f, v["a"][v["fields"].index(flds[0])], depth + 1, seen, inline) + _sfx(flds[1:])
        if flds and v.get("ak") == "tuple" and flds[0].isdigit() and int(flds[0]) < len(v["a"]):
            return expr_tree(prog, f, v["a"][int(flds[0])], depth + 1, seen, inline) + _sfx(flds[1:])
        nm = (v.get("adt") or v.get("ak") or "agg").split("::")[-1] + ("::" + v["variant"] if v.get("variant") else "")
        if v.get("ak") == "adt" and v.get("adt") in NEW_ADTS:
            nm = "tuple"
        caps = [expr_tree(prog, f, a, depth + 1, seen, inline) for a in v["a"]]
        if nm.startswith("AnchorError") and "error_code_number" in (v.get("fields") or []):
            # err!(X): only the error code matters (the origin carries file/line, which must not enter any key)
            return caps[v["fields"].index("error_code_number")]
        if inline and v.get("ak") == "closure" and v.get("def") is not None:
            g = prog.fns.get(f.dinfo(v["def"])["key"])
            if g is not None and depth < 30:
                body = _local_tree(prog, g, 0, [], depth + 1, frozenset(), inline)
                # the closure's own arguments become a2, a3 ... so that they cannot be confused with the enclosing function's parameters
                body = re.sub(r"(?<![\w.])p([2-9])(?![\w])", r"a\1", body)
                # captured upvars appear in the closure body as p1.<i>
                for i in sorted(range(len(caps)), reverse=True):
                    body = re.sub(r"(?<![\w.])p1\.%d(?![\w])" % i, lambda m_, c=caps[i]: c, body)
                return "closure{%s}" % body
        return "%s{%s}" % (nm, ",".join(caps))
    if r == "discr":
        # keep the Option/Result/ControlFlow payload projections that expr_tree drops, so that the discriminant of
        # `x?` (ControlFlow) and of its payload (e.g. an Option inside) are different conditions
        pl = v["pl"]
        pt = f.ty(pl["t"]) if "t" in pl else f.local_ty(pl["l"])
        tag = (pt.get("adt") or pt.get("s") or "?").split("<")[0].split("::")[-1]
        return "discr(%s)@%s" % (expr_tree(prog, f, {"c": pl}, depth + 1, seen, inline), tag)
    return r


def ret_tree(prog, f):
    return _local_tree(prog, f, 0, [], 0, frozenset(), 0)


def split_call(s):
    """'name(a,b)' -> (name, [a, b]) splitting at top-level commas; None if s is not a call form"""
    if not s.endswith(")") or "(" not in s:
        return None
    i = s.index("(")
    name = s[:i]
    if not name or any(ch in name for ch in "{}|,"):
        return None
    depth = 0
    args, cur = [], ""
    for ch in s[i + 1:-1]:
        if ch in "({":
            depth += 1
        elif ch in ")}":
            depth -= 1
            if depth < 0:
                return None
        if ch == "," and depth == 0:
            args.append(cur)
            cur = ""
        else:
            cur += ch
    if depth != 0:
        return None
    if cur or args:
        args.append(cur)
    return name, args


_NEGREL = {"lt": "ge", "le": "gt", "gt": "le", "ge": "lt", "eq": "ne", "ne": "eq"}


def norm_cond(tree, truth):
    """canonical string for 'tree evaluates to truth': relations over lt/le/eq/ne only"""
    sc = split_call(tree)
    if sc and sc[0] == "not" and len(sc[1]) == 1:
        return norm_cond(sc[1][0], not truth)
    if sc and sc[0] in _NEGREL and len(sc[1]) == 2:
        rel, (a, b) = sc[0], sc[1]
        if not truth:
            rel = _NEGREL[rel]
        if rel == "gt":
            rel, a, b = "lt", b, a
        elif rel == "ge":
            rel, a, b = "le", b, a
        if rel in ("eq", "ne"):
            a, b = sorted((a, b))
        return "%s(%s,%s)" % (rel, a, b)
    return tree if truth else "not(%s)" % tree


_COND_INLINE = 0


def switch_cond(prog, f, sw, arm):
    """canonical condition string for 'control leaves switch block sw through arm'"""
    t = f.blocks[sw]["t"]
    tree = expr_tree(prog, f, t["on"], inline=_COND_INLINE)
    p = op_place(t["on"])
    isbool = False
    try:
        if p is not None:
            isbool = ((f.ty(p["t"]) if (p.get("p") and "t" in p) else f.local_ty(p["l"])).get("s") == "bool")
    except Exception:
        isbool = False
    arms = [int(a) for a, _ in t["arms"]]
    if isbool:
        if arm == "else":
            if arms != [0]:
                return "?"
            return norm_cond(tree, True)
        return norm_cond(tree, int(arm) != 0)
    mo = re.fullmatch(r"discr\(cmp\((.*)\)\)@Ordering", tree)
    if mo:
        # `match a.cmp(&b) { Less => .., Equal => .., Greater => .. }` is the if-chain `a < b`, `a == b`, `a > b`
        sc = split_call("cmp(%s)" % mo.group(1))
        if sc and len(sc[1]) == 2:
            a_, b_ = sc[1]
            val = None
            if arm == "else":
                rest = [d_ for d_ in (255, 0, 1) if d_ not in arms and (d_ - 256 if d_ == 255 else d_) not in arms]
                if len(rest) == 1:
                    val = rest[0]
            else:
                val = int(arm)
            if val in (255, -1):
                return norm_cond("lt(%s,%s)" % (a_, b_), True)
            if val == 0:
                return norm_cond("eq(%s,%s)" % (a_, b_), True)
            if val == 1:
                return norm_cond("lt(%s,%s)" % (b_, a_), True)
    if arm == "else":
        # an enum with exactly one variant left is that variant: `match o { Some(x) => .., _ => .. }` and `None => ..` are one condition
        m = re.search(r"\)@(\w+)$", tree)
        if m and tree.startswith("discr("):
            ds = _enum_discrs(prog, m.group(1))
            if ds:
                rest = [d_ for d_ in ds if d_ not in arms]
                if len(rest) == 1:
                    return "%s == %s" % (tree, rest[0])
        return "%s notin %s" % (tree, sorted(arms))
    return "%s == %s" % (tree, int(arm))


_ENUM_DISCRS = {}


def _enum_discrs(prog, tag):
    """discriminant values of the enum whose last path segment is `tag` (None when unknown / ambiguous)"""
    if tag in ("Option", "Result", "ControlFlow"):
        return [0, 1]
    key = (id(prog), tag)
    if key not in _ENUM_DISCRS:
        hits = [a for k, a in prog.adts.items() if k.split("::")[-1] == tag and a.get("is_enum")]
        r = None
        if len(hits) == 1:
            try:
                r = sorted(int(v["discr"]) for v in hits[0]["variants"])
            except Exception:
                r = None
        _ENUM_DISCRS[key] = r
    return _ENUM_DISCRS[key]


def error_conditions(prog, f, targets=None):
    """canonical conditions under which f takes an edge into a block from which the given error blocks
    (default: all error blocks) are inevitable: [(cond, switch block)]"""
    targets = A.error_blocks(f) if targets is None else targets
    out = []
    for (sw, arm, tgt) in A.guard_edges(f, targets):
        c = switch_cond(prog, f, sw, arm)
        ex = _expand_materialised_bool(prog, f, sw, arm) if (c.startswith("phi(") or c.startswith("not(phi(")) else None
        if ex:
            out.extend((x, sw) for x in ex)
        else:
            out.append((c, sw))
    return out


def _expand_materialised_bool(prog, f, sw, arm):
    """`let ok = a && b; if !ok {err}` keeps `ok` in a local with one definition per short-circuit arm.  When none of the
    definitions is loop-carried, 'ok has the erroring truth value' is the disjunction of: the branch condition leading to a
    constant definition with that value, and (expression definition has that value)."""
    t = f.blocks[sw]["t"]
    p = op_place(t["on"])
    if p is None or p.get("p") or f.local_ty(p["l"])["s"] != "bool":
        return None
    arms = [int(a) for a, _ in t["arms"]]
    truth = True if (arm == "else" and arms == [0]) else (int(arm) != 0 if arm != "else" else None)
    if truth is None:
        return None
    l = p["l"]
    neg = False
    for _ in range(6):
        d = A.single_def(f, l)
        if d is None or d[1] == "T":
            break
        v = f.blocks[d[0]]["s"][d[1]]["v"]
        q = op_place(v["a"][0]) if v.get("a") else None
        if v["r"] == "use" and q is not None and not q.get("p"):
            l = q["l"]
        elif v["r"] == "un" and v["op"] == "Not" and q is not None and not q.get("p"):
            l = q["l"]
            neg = not neg
        else:
            break
    if neg:
        truth = not truth
    defs = f.local_defs().get(l) or []
    if len(defs) < 2:
        return None
    from_sw = f.reachable(start=sw)
    out = []
    for (bi, si) in defs:
        if bi in from_sw:
            return None          # loop-carried flag: no expansion
        if si == "T":
            return None
        s_ = f.blocks[bi]["s"][si]
        if s_["d"].get("p"):
            return None
        tree = rvalue_tree(prog, f, s_["v"])
        if tree in ("0", "1"):
            if (tree == "1") == truth:
                dc = dominating_conds(prog, f, bi, limit=1)
                if not dc:
                    return None
                out.append(dc[0])
        else:
            out.append(norm_cond(tree, truth))
    return out


def _neg_cond(c):
    sc = split_call(c)
    if sc and sc[0] == "not" and len(sc[1]) == 1:
        return sc[1][0]
    if sc and sc[0] in ("lt", "le", "eq", "ne") and len(sc[1]) == 2:
        return norm_cond(c, False)
    return "not(%s)" % c


def _path_cond(prog, f, blocks, b, arm):
    """switch condition evaluated on the concrete path prefix `blocks` (ending in b): None = trivially true, False = infeasible"""
    global _PATH
    saved = _PATH
    _PATH = (f, blocks, (len(blocks) - 1, 10 ** 6))
    try:
        c = switch_cond(prog, f, b, arm)
    finally:
        _PATH = saved
    if c in ("1", "not(0)"):
        return None
    if c in ("0", "not(1)"):
        return False
    m = re.fullmatch(r"(-?\d+) == (-?\d+)", c)
    if m:
        return None if m.group(1) == m.group(2) else False
    # the discriminant of a value that is a freshly built wrapper on this path is known: `Ok(x)?` / `Some(x)?` continue (0), `Err(e)?` /
    # `None?` break (1); a direct match on the wrapper sees its own variant index
    m = re.fullmatch(r"discr\((Result::Ok|Result::Err|Option::Some|Option::None|ControlFlow::Continue|ControlFlow::Break)\{.*\}\)@(\w+) (==|notin) (.*)", c)
    if m:
        var, tag, op, rhs = m.groups()
        if tag == "ControlFlow":
            val = 0 if var in ("Result::Ok", "Option::Some", "ControlFlow::Continue") else 1
        elif tag == "Result":
            val = {"Result::Ok": 0, "Result::Err": 1}.get(var)
        elif tag == "Option":
            val = {"Option::None": 0, "Option::Some": 1}.get(var)
        else:
            val = None
        if val is not None:
            if op == "==" and re.fullmatch(r"-?\d+", rhs):
                return None if int(rhs) == val else False
            if op == "notin":
                xs = [int(x) for x in rhs.strip("[]").split(",") if x.strip()]
                return False if val in xs else None
    m = re.fullmatch(r"(-?\d+) notin \[(.*)\]", c)
    if m:
        return False if int(m.group(1)) in [int(x) for x in m.group(2).split(",") if x.strip()] else None
    return c


def _discr_conflict(cs):
    """'X == a' together with 'X == b' (a != b) or with 'X notin [.. a ..]'"""
    eqs, nots = {}, {}
    for c in cs:
        m = re.fullmatch(r"(.+) == (-?\d+)", c)
        if m:
            eqs.setdefault(m.group(1), set()).add(int(m.group(2)))
            continue
        m = re.fullmatch(r"(.+) notin \[(.*)\]", c)
        if m:
            nots.setdefault(m.group(1), set()).update(int(x) for x in m.group(2).split(",") if x.strip())
    for k, v in eqs.items():
        if len(v) > 1 or (v & nots.get(k, set())):
            return True
    return False


def bool_paths(prog, f, limit=256):
    """for a small loop-free bool function: [(sorted conds, return tree)] for every entry->return path"""
    out = []

    def retval_on(path_blocks):
        val = None
        for b in path_blocks:
            for s in f.blocks[b]["s"]:
                if s.get("d") and s["d"]["l"] == 0 and not s["d"].get("p") and s.get("v"):
                    val = rvalue_tree(prog, f, s["v"])
            t = f.blocks[b]["t"]
            if t["k"] == "call" and t["dest"]["l"] == 0 and not t["dest"].get("p"):
                ci = f.dinfo(t["res"]) if t.get("res") is not None else (f.dinfo(t["raw"]) if "raw" in t else None)
                args = [expr_tree(prog, f, a) for a in t["args"]]
                nm = ci["name"] if ci else "indirect"
                val = call_tree(f, t, nm, args)
        return val

    def walk(b, conds, blocks, seen):
        if len(out) >= limit or b in seen:
            return
        t = f.blocks[b]["t"]
        blocks = blocks + [b]
        if t["k"] == "return":
            cs = set(conds)
            if any(_neg_cond(c) in cs for c in cs) or _discr_conflict(cs):
                return          # contradictory conditions: infeasible path
            global _PATH
            _PATH = (f, blocks)
            try:
                out.append((sorted(cs), retval_on(blocks)))
            finally:
                _PATH = None
            return
        if t["k"] == "switch":
            for a, tgt in list(t["arms"]) + [("else", t["else"])]:
                c = _path_cond(prog, f, blocks, b, a if a == "else" else int(a))
                if c is False:
                    continue
                walk(tgt, conds + ([c] if c else []), blocks, seen | {b})
            return
        nx = term_succ_normal(t)
        for n in nx:
            walk(n, conds, blocks, seen | {b})
    walk(0, [], [], frozenset())
    return out


def term_succ_normal(t):
    k = t["k"]
    if k == "goto":
        return [t["to"]]
    if k in ("call", "drop", "assert", "falseedge", "yield"):
        return [t["to"]] if t.get("to") is not None else []
    return []


def dominating_conds(prog, f, block, limit=40):
    """canonical conditions (strings) that hold on every path from entry to `block`"""
    out = []
    idom = f.dominators()
    x = block
    chain = []
    while x is not None and x in idom and idom[x] is not None and idom[x] != x:
        x = idom[x]
        chain.append(x)
    for s in chain:
        t = f.blocks[s]["t"]
        if t["k"] != "switch":
            continue
        live = []
        edges = [(int(v), b) for v, b in t["arms"]] + [("else", t["else"])]
        for (v, b) in edges:
            if block in A.reach_without(f, removed_blocks={s}, start=b):
                live.append((v, b))
        if len(live) == 1:
            out.append(switch_cond(prog, f, s, live[0][0]))
        if len(out) >= limit:
            break
    return out


def store_trees(prog, f, inline=0):
    """{written place (canonical string) -> sorted list of expression trees stored there} for the direct stores of f
    through its parameters (e.g. {'p1.account_flags': ['bitor(p1.account_flags,p2)']})"""
    out = {}
    for bi, bb in enumerate(f.blocks):
        for s in bb["s"]:
            d = s.get("d")
            v = s.get("v")
            if not d or not v or not d.get("p"):
                continue
            dst = expr_tree(prog, f, {"c": d}, inline=inline)
            if not re.match(r"p\d+[.\[]", dst):
                continue
            out.setdefault(dst, set()).add(rvalue_tree(prog, f, v, inline=inline))
    return {k: sorted(v) for k, v in out.items()}


def _whole_store_fields(prog, f, v, inline):
    """{field name: value tree} when rvalue v is a struct literal, or the result of a parameterless constructor of the analysed crates
    whose body is a struct literal of constants; None otherwise"""
    def of_agg(g, a):
        if a.get("r") == "agg" and a.get("ak") == "adt" and a.get("fields") and len(a["fields"]) == len(a["a"]):
            return {n: expr_tree(prog, g, o, inline=inline) for n, o in zip(a["fields"], a["a"])}
        return None
    r = of_agg(f, v)
    if r is not None:
        return r
    if v.get("r") != "use":
        return None
    pl = op_place(v["a"][0])
    if pl is None or pl.get("p"):
        return None
    defs = f.local_defs().get(pl["l"]) or []
    if len(defs) != 1:
        return None
    bi, si = defs[0]
    if si == "T":
        t = f.blocks[bi]["t"]
        if t["k"] != "call" or t["args"]:
            return None
        ci = f.dinfo(t["res"]) if t.get("res") is not None else (f.dinfo(t["raw"]) if "raw" in t else None)
        g = prog.fns.get(ci["key"]) if ci else None
        if g is None or g.argc != 0:
            return None
        aggs = [s_["v"] for bb in g.blocks for s_ in bb["s"] if "d" in s_ and s_["d"]["l"] == 0 and not s_["d"].get("p")]
        if len(aggs) != 1:
            return None
        r = of_agg(g, aggs[0])
        if r is None or any(re.search(r"(?<![\w.])p\d", t_) for t_ in r.values()):
            return None
        return r
    return of_agg(f, f.blocks[bi]["s"][si]["v"])


def _simplify_conds(cs):
    """{a <= b, a != b} is a < b; a != b next to a < b (or b < a) is redundant"""
    cs = set(cs)
    changed = True
    while changed:
        changed = False
        for c in list(cs):
            sc = split_call(c)
            if not sc or sc[0] not in ("le", "lt") or len(sc[1]) != 2:
                continue
            a_, b_ = sc[1]
            ne = "ne(%s,%s)" % tuple(sorted((a_, b_)))
            if ne in cs:
                cs.discard(ne)
                if sc[0] == "le":
                    cs.discard(c)
                    cs.add("lt(%s,%s)" % (a_, b_))
                changed = True
                break
    return cs


def effect_paths(prog, f, limit=256, inline=0, probes=None):
    """for a small loop-free function: [(sorted conds, return tree, {place: stored tree})] per feasible entry->return path"""
    out = []

    def finish(blocks, conds):
        global _PATH
        cs = _simplify_conds(set(conds))
        if any(_neg_cond(c) in cs for c in cs) or _discr_conflict(cs):
            return
        _PATH = (f, blocks)
        try:
            ret = None
            stores = {}
            for b in blocks:
                for s in f.blocks[b]["s"]:
                    d, v = s.get("d"), s.get("v")
                    if not d or not v:
                        continue
                    if d["l"] == 0 and not d.get("p"):
                        ret = rvalue_tree(prog, f, v, inline=inline)
                    elif d.get("p"):
                        dst = expr_tree(prog, f, {"c": d}, inline=inline)
                        if re.match(r"p\d+[.\[]", dst):
                            if not re.search(r"\._pad\w*$", dst):          # padding carries no meaning
                                stores[dst] = rvalue_tree(prog, f, v, inline=inline)
                        elif re.fullmatch(r"p\d+", dst):
                            # whole-value store through a reference parameter (`*self = Self::empty()` / `*self = Self { .. }`): the same
                            # effect as assigning every field, and rendered like that when the value is a literal aggregate
                            fl = _whole_store_fields(prog, f, v, inline)
                            if fl is not None:
                                for n_, t_ in fl.items():
                                    if not n_.startswith("_pad"):
                                        stores["%s.%s" % (dst, n_)] = t_
                            else:
                                stores[dst] = rvalue_tree(prog, f, v, inline=inline)
                t = f.blocks[b]["t"]
                if t["k"] == "call" and t["dest"]["l"] == 0 and not t["dest"].get("p"):
                    ci = f.dinfo(t["res"]) if t.get("res") is not None else (f.dinfo(t["raw"]) if "raw" in t else None)
                    nm_ = ci["name"] if ci else "indirect"
                    if nm_ in A.SAME_PATH_CALLS and t["args"] and nm_ != "from_residual":
                        ret = expr_tree(prog, f, t["args"][0], inline=inline)      # ok_or / ok_or_else / into ... pass the value through
                    else:
                        ret = call_tree(f, t, nm_, [expr_tree(prog, f, a, inline=inline) for a in t["args"]])
            if probes:
                for nm_, (pb, po) in probes.items():
                    if pb in blocks:
                        _PATH = (f, blocks, (blocks.index(pb), 10 ** 6))
                        stores["?" + nm_] = expr_tree(prog, f, po, inline=inline)
                        _PATH = (f, blocks)
            out.append((sorted(cs), ret, stores))
        finally:
            _PATH = None

    def walk(b, conds, blocks, seen):
        if len(out) >= limit or b in seen:
            return
        t = f.blocks[b]["t"]
        blocks = blocks + [b]
        if t["k"] == "return":
            finish(blocks, conds)
            return
        if t["k"] == "switch":
            for a, tgt in list(t["arms"]) + [("else", t["else"])]:
                c = _path_cond(prog, f, blocks, b, a if a == "else" else int(a))
                if c is False:
                    continue
                walk(tgt, conds + ([c] if c else []), blocks, seen | {b})
            return
        for n in term_succ_normal(t):
            walk(n, conds, blocks, seen | {b})
    global _COND_INLINE
    saved_ci = _COND_INLINE
    _COND_INLINE = inline
    try:
        walk(0, [], [], frozenset())
    finally:
        _COND_INLINE = saved_ci
    return out


def loop_early_exits(prog, f, header):
    """Edges that leave the loop whose header block is `header` (the block calling Iterator::next) other than
    (a) the exhausted arm of that next(), (b) into blocks from which an error / panic is inevitable.
    Returns [(from_block, to_block, condition string)]."""
    succ = f.succ()
    from_h = f.reachable(start=header)
    body = {b for b in from_h if b != header and header in f.reachable(start=b)}
    if not body:
        return []          # not a loop
    body.add(header)
    err = set(A.error_blocks(f)) | set(A.diverging_blocks(f))
    doomed = A.inevitable_closure(f, err) if err else set()
    # the block that switches on next()'s discriminant
    t = f.blocks[header]["t"]
    disc_sw = None
    b = t.get("to")
    hops = 0
    while b is not None and hops < 6:
        tb = f.blocks[b]["t"]
        if tb["k"] == "switch":
            disc_sw = b
            break
        nx = term_succ_normal(tb)
        b = nx[0] if len(nx) == 1 else None
        hops += 1
    out = []
    for u in sorted(body):
        for v in succ[u]:
            if v in body:
                continue
            if f.blocks[v].get("cleanup"):
                continue
            if u == disc_sw:
                continue
            if v in doomed or v in err:
                continue
            tu = f.blocks[u]["t"]
            cond = "?"
            if tu["k"] == "switch":
                arm = next((int(a) for a, tg in tu["arms"] if tg == v), "else")
                cond = switch_cond(prog, f, u, arm)
            elif tu["k"] == "call" and tu.get("unwind") == v:
                continue
            out.append((u, v, cond))
    return out


def check_full_scan(ctx, rule, construct, f, iter_re, what, min_loops=1):
    """instance: every `for` loop of f whose iterator tree matches iter_re is left only on exhaustion or on an error"""
    prog = ctx.prog
    loops = [c for c in f.calls() if c.callee and c.callee["name"] == "next" and re.search(iter_re, expr_tree(prog, f, c.args[0]))]
    loops = [c for c in loops if any(c.block in f.reachable(start=b) for b in f.succ()[c.block])]
    bad = [x for c in loops for x in loop_early_exits(prog, f, c.block)]
    # the same scan written as `iter.try_for_each(|x| ..)`: by definition it stops only when the closure returns an error, which has to
    # be handed on (returned or `?`) for the scan to count
    tfe = [c for c in f.calls() if c.callee and c.callee["name"] == "try_for_each" and c.callee.get("crate") == "core" and re.search(iter_re, expr_tree(prog, f, c.args[0]))]
    for c in tfe:
        d = c.dest
        handed = (d["l"] == 0 and not d.get("p")) or A.consumed(f, c.block)[0]
        if handed:
            loops = loops + [c]
        else:
            bad.append((c.block, c.block, "the result of try_for_each is dropped"))
    ctx.inst(rule, construct, len(loops) >= min_loops and not bad, "%s: the scan is left only when exhausted or on an error (no element is skipped by an early exit)" % what,
             ["%s leaves the loop at %s" % (c_, f.bloc(u)) for u, v, c_ in bad] or "%d loop(s)" % len(loops), f.loc(f.raw["span"]))


class Ordinals:
    """stable construct keys for several sites of one kind inside one function: base#1, base#2 ... in block order
    (never line numbers: unrelated edits above a site must not change its key)"""

    def __init__(self):
        self.n = {}

    def key(self, base):
        self.n[base] = self.n.get(base, 0) + 1
        return "%s#%d" % (base, self.n[base])
