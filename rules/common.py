"""Shared anchors and helpers for rule files."""
from engine import analysis as A
from engine.model import match_def, op_place

BANK = "marginfi_type_crate::types::bank::Bank"
BANKCFG = "marginfi_type_crate::types::bank_config::BankConfig"
BALANCE = "marginfi_type_crate::types::user_account::Balance"
LENDACC = "marginfi_type_crate::types::user_account::LendingAccount"
MACCOUNT = "marginfi_type_crate::types::user_account::MarginfiAccount"
GROUP = "marginfi_type_crate::types::group::MarginfiGroup"
MFI_ERR = A.MFI_ERR

# SPL / system token movement primitives (external crates)
TRANSFER_SPECS = [
    {"name": "transfer_checked", "crate": ["anchor_spl", "spl_token_2022", "spl_token"]},
    {"name": "transfer", "crate": ["anchor_spl", "spl_token", "anchor_lang"]},
    {"name": "invoke_transfer_checked"},
]
CPI_SPECS = [{"name": ["invoke", "invoke_signed", "invoke_signed_unchecked", "invoke_unchecked"], "crate": ["solana_program", "solana_cpi", "anchor_lang"]}]

SHARE_FIELDS = {(BANK, "total_asset_shares"), (BANK, "total_liability_shares"), (BALANCE, "asset_shares"),
                (BALANCE, "liability_shares")}


def is_share_write(owner, field):
    return (owner, field) in SHARE_FIELDS or (owner == BALANCE and field == "*")


def fns_with_param_type(prog, crate, ty_substr):
    out = []
    for f in prog.fns.values():
        if f.info["crate"] != crate or f.info["kind"] == "Closure":
            continue
        for i in range(1, f.argc + 1):
            if ty_substr in f.local_ty(i)["s"]:
                out.append(f)
                break
    return out


def variant_arg(ctx, f, callsite, idx, adt_suffix):
    """variant names (of enum adt_suffix) an argument may take, by provenance"""
    pv = ctx.slicer.operand(f, callsite.args[idx])
    vs = {v for (a, v) in pv.variants if a.endswith("::" + adt_suffix) or a == adt_suffix}
    return vs, pv


def acct_fields(pv, struct_key):
    """Accounts-struct fields an operand derives from"""
    return sorted({n for (o, n) in pv.fields if o == struct_key})


def loc_of(f, block):
    return f.bloc(block)


def direct_or_wrapped_calls(ctx, f, is_target_call, depth=2):
    """Blocks of f that perform a target call: directly (is_target_call(callsite) true) or by calling a
    function g (body available) every successful path of which performs one (recursively, bounded)."""
    out = []
    for c in f.calls():
        if is_target_call(f, c):
            out.append(c.block)
            continue
        if depth > 0 and c.key in ctx.prog.fns and c.callee["crate"] == "marginfi":
            g = ctx.prog.fns[c.key]
            inner = direct_or_wrapped_calls(ctx, g, is_target_call, depth - 1)
            if inner:
                ok, _ = A.must_pass(g, inner)
                if ok:
                    out.append(c.block)
    return out


# --------------------------------------------------------------------------- wiring helpers

def _has(ctx, pv, item):
    kind = item[0]
    if kind == "field":
        return pv.has_field(item[1], item[2])
    if kind == "call":
        return pv.has_call(ctx.prog, item[1])
    if kind == "const":
        return pv.has_const(item[1])
    if kind == "param":
        return item[1] in pv.params
    if kind == "op":
        return any(o.replace("WithOverflow", "") == item[1] for o in pv.ops)
    if kind == "int":
        return item[1] in pv.ints
    if kind == "variant":
        return any(v == item[2] and (a == item[1] or a.endswith("::" + item[1])) for (a, v) in pv.variants)
    raise KeyError(kind)


def _item_str(item):
    if item[0] == "call":
        sp = item[1]
        return "call:" + (sp.get("name") if isinstance(sp, dict) and isinstance(sp.get("name"), str) else str(sp))
    return ":".join(str(x) for x in item)


def wiring(ctx, rule, construct, pv, must=(), must_not=(), loc=None, what=""):
    """must-include items are enforced; must-exclude items only when the slice stayed exact."""
    missing = [_item_str(i) for i in must if not _has(ctx, pv, i)]
    present = [_item_str(i) for i in must_not if _has(ctx, pv, i)]
    exp = "%s derives from [%s]" % (what or construct, ", ".join(_item_str(i) for i in must))
    if must_not:
        exp += " and not from [%s]" % ", ".join(_item_str(i) for i in must_not)
    if missing:
        return ctx.inst(rule, construct, False, exp, "missing: %s; slice=%s" % (missing, A._pvs(pv)), loc)
    if present:
        if pv.exact:
            return ctx.inst(rule, construct, False, exp, "unexpected source: %s; slice=%s" % (present, A._pvs(pv)), loc)
        return ctx.inst(rule, construct, None, exp, "unexpected source %s but slice inexact" % present, loc)
    return ctx.inst(rule, construct, True, exp, "ok", loc)


def field_idx(prog, adt_key, name, variant=0):
    a = prog.adts[adt_key]
    for i, f in enumerate(a["variants"][variant]["fields"]):
        if f["name"] == name:
            return i
    raise KeyError("%s.%s" % (adt_key, name))


def adt_key(prog, suffix):
    ks = [k for k in prog.adts if k == suffix or k.endswith("::" + suffix)]
    if len(ks) != 1:
        raise LookupError("adt %s: %d" % (suffix, len(ks)))
    return ks[0]


def field_stores(ctx, f, owner, name):
    """[(block, stmt, prov of stored value)] for assignments whose destination's last field is (owner, name)"""
    out = []
    for bi, bb in enumerate(f.blocks):
        for s in bb["s"]:
            if "d" not in s:
                continue
            fs = [e for e in s["d"].get("p", []) if isinstance(e, dict) and "f" in e]
            if fs and fs[-1]["o"] == owner and fs[-1]["n"] == name:
                pv = A.Prov()
                ctx.slicer._rvalue(f, s["v"], pv, 0, set(), (), bi)
                out.append((bi, s, pv))
        t = bb["t"]
        if t["k"] == "call":
            fs = [e for e in t["dest"].get("p", []) if isinstance(e, dict) and "f" in e]
            if fs and fs[-1]["o"] == owner and fs[-1]["n"] == name:
                pv = A.Prov()
                ctx.slicer._call(f, t, pv, 0, set(), (), bi)
                out.append((bi, t, pv))
    return out


def agg_fields(ctx, f, adt, field):
    """[(block, prov)] of the operand building `field` in aggregates of `adt` constructed in f"""
    out = []
    for bi, bb in enumerate(f.blocks):
        for s in bb["s"]:
            v = s.get("v")
            if v and v["r"] == "agg" and v.get("ak") == "adt" and (v["adt"] == adt or v["adt"].endswith("::" + adt)):
                if field in v["fields"]:
                    o = v["a"][v["fields"].index(field)]
                    out.append((bi, ctx.slicer.operand(f, o, at=bi)))
    return out


def writers_of(prog, owner, field, crates=("marginfi", "marginfi_type_crate")):
    """functions (keys) that directly write (owner, field)"""
    out = []
    for k, f in prog.fns.items():
        if f.info["crate"] not in crates:
            continue
        w = prog.writes_direct(k)
        if (owner, field) in w:
            kinds = {kind for (_, _, kind) in w[(owner, field)]}
            out.append((k, kinds))
    return out


def defining_call(f, o, hops=0, path=()):
    """Walk back from operand o through moves, tuple/struct construction + projection, and pass-through
    adaptors (`?`, into, ok_or_else, unwrap ...) to the call terminator that produced the value.
    Returns (block, terminator) or None."""
    if hops > 16:
        return None
    p = op_place(o)
    if p is None:
        return None
    path = tuple(e["f"] for e in p.get("p", []) if isinstance(e, dict) and "f" in e) + tuple(path)
    d = A.single_def(f, p["l"])
    if d is None:
        return None
    bi, si = d
    if si == "T":
        t = f.blocks[bi]["t"]
        ci = f.dinfo(t["res"]) if t.get("res") is not None else (f.dinfo(t["raw"]) if "raw" in t else None)
        nm = ci["name"] if ci else ""
        if nm in A.SAME_PATH_CALLS and t["args"]:
            return defining_call(f, t["args"][0], hops + 1, path)
        if nm in A.UNWRAP_CALLS and t["args"]:
            return defining_call(f, t["args"][0], hops + 1, (0,) + path)
        return (bi, t, path)
    s = f.blocks[bi]["s"][si]
    v = s["v"]
    if s["d"].get("p"):
        return None
    if v["r"] in ("use", "cast"):
        return defining_call(f, v["a"][0], hops + 1, path)
    if v["r"] == "ref":
        return defining_call(f, {"c": v["pl"]}, hops + 1, path)
    if v["r"] == "agg" and path and v.get("ak") in ("tuple", "adt") and path[0] < len(v["a"]):
        return defining_call(f, v["a"][path[0]], hops + 1, path[1:])
    return None


def agg_operand(f, adt, field):
    """[(block, operand)] operands building `field` in aggregates of `adt` in f"""
    out = []
    for bi, bb in enumerate(f.blocks):
        for s in bb["s"]:
            v = s.get("v")
            if v and v["r"] == "agg" and v.get("ak") == "adt" and (v["adt"] == adt or v["adt"].endswith("::" + adt)) and field in v["fields"]:
                out.append((bi, v["a"][v["fields"].index(field)]))
    return out


def flag_edges(ctx, f, flag_const, callee_name="get_flag"):
    """[(switch block, target block, truth)] edges decided by `get_flag(_, FLAG)`"""
    out = []
    for bi, bb in enumerate(f.blocks):
        t = bb["t"]
        if t["k"] != "switch":
            continue
        arms = [(int(a), b) for a, b in t["arms"]] + [("else", t["else"])]
        for (arm, tgt) in arms:
            at = A.atom_of_edge(ctx.prog, f, bi, arm, ctx.slicer)
            if at.kind == "call" and at.callee.endswith("::" + callee_name) and len(at.args) >= 2 and at.args[1].has_const(flag_const):
                out.append((bi, tgt, at.truth))
    return out


def blocks_only_via(f, edge):
    """blocks reachable from entry only through edge (sw, tgt)"""
    sw, tgt = edge
    full = A.reach_without(f)
    wo = A.reach_without(f, removed_edges={(sw, tgt)})
    return full - wo


def writes_in_blocks(prog, f, blocks, owner_prefix="marginfi_type_crate::types::"):
    """transitive (owner, field) writes performed by the given blocks of f"""
    out = set()
    blocks = set(blocks)
    for w, sites in prog.writes_direct(f.key).items():
        if any(b in blocks for (b, _, _) in sites):
            out.add(w)
    for c in f.calls():
        if c.block in blocks:
            for k in [c.key, c.closure]:
                if k:
                    out |= prog.writes(k)
    for b, ck in f.closures_created():
        if b in blocks:
            out |= prog.writes(ck)
    return {w for w in out if w[0].startswith(owner_prefix) and not w[1].startswith("=")}


def expect_atom(ctx, rule, construct, f, variant, rel, lp, rp, desc, on_all_paths=True, extra=None, use_conds=False):
    """There is a guard error_if(rel, lhs, rhs) leading to MarginfiError::<variant> in f with lp(lhs) and rp(rhs);
    optionally evaluated on every successful path of f."""
    ev = A.error_variant_blocks(f, variant) if variant else []
    atoms = A.guard_atoms(ctx.prog, f, ev, ctx.slicer) if ev else []
    if use_conds and ev:
        for e in ev:
            atoms += A.edge_conditions_to(ctx.prog, f, e, ctx.slicer, limit=30)
    g = [a for a in atoms if a.kind == "cmp" and a.rel == rel and lp(a.lhs) and rp(a.rhs) and (extra is None or extra(a))]
    ok = bool(g)
    why = ""
    if ok and on_all_paths:
        ok = A.must_pass(f, [a.switch[0] for a in g])[0]
        if not ok:
            why = "guard can be skipped on a successful path; "
    return ctx.inst(rule, construct, ok, desc, why + ("; ".join(a.describe() for a in atoms if a.kind == "cmp")[:700] if not ok else "ok"),
                    f.bloc(g[0].switch[0]) if g else (f.bloc(ev[0]) if ev else f.loc(f.raw["span"])))


def F(owner, name):
    return lambda p: p.has_field(owner, name)


def Cn(name):
    return lambda p: p.has_const(name)


def only_field(owner, name, others):
    """has field (owner,name) and none of the sibling fields"""
    return lambda p: p.has_field(owner, name) and not any(p.has_field(owner, o) for o in others if o != name)


def call_on_all_paths(ctx, rule, construct, f, spec, desc, consumed=True):
    cs = A.direct_calls(f, spec)
    ok = bool(cs) and A.must_pass(f, [c.block for c in cs])[0] and (not consumed or all(A.consumed(f, c.block)[0] for c in cs))
    return ctx.inst(rule, construct, ok, desc, "%d call sites" % len(cs), cs[0].loc if cs else f.loc(f.raw["span"]))


def transfer_sites(ctx, h, skey):
    """SPL transfer call sites of the Bank helper methods in handler h"""
    out = []
    for c in h.calls():
        nm = c.callee["name"] if c.callee else ""
        if nm not in ("deposit_spl_transfer", "withdraw_spl_transfer"):
            continue
        a = c.args
        ent = {"call": c, "kind": nm.split("_")[0], "amount": ctx.slicer.operand(h, a[1], at=c.block),
               "bank": acct_fields(ctx.slicer.operand(h, a[0], at=c.block), skey),
               "from": acct_fields(ctx.slicer.operand(h, a[2], at=c.block), skey), "to": acct_fields(ctx.slicer.operand(h, a[3], at=c.block), skey),
               "authority": acct_fields(ctx.slicer.operand(h, a[4], at=c.block), skey), "vault_types": set(), "seeds": None}
        if nm == "withdraw_spl_transfer":
            sd = ctx.slicer.operand(h, a[7], at=c.block)
            ent["seeds"] = sd
            ent["vault_types"] = {v for (ad, v) in sd.variants if ad.endswith("BankVaultType")}
        out.append(ent)
    return out
