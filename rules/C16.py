"""C16 Account structure (structural clauses only)."""
import re
from engine import analysis as A, fde
from engine.model import op_place
from .common import *

INFO = {
    "explanation": "Decided statically: (R1) in every instruction that can create or reset a balance slot, after the last such operation every "
                   "successful path sorts the balances of that account; (R2) one function creates slots: it searches active && bank_pk ==, creates "
                   "only when none is found, enforces IntegrationPositionLimitExceeded = error_if(count >= MAX_INTEGRATION_POSITIONS(8)) for integration "
                   "tags and LendingAccountBalanceSlotsFull, and writes active=1, the bank key and the bank's asset tag; 16 slots; (R3) tag / key / active "
                   "of a slot are written only by slot creation, the reset constructor and set_active; (R4) the wrapper entry points pass the frozen "
                   "operation types and the two primitives refuse the opposite side (exhaustive operation-type tables); (R5) the tag-mixing gate is "
                   "passed (checked) in deposit, borrow, venue deposits and three times in liquidation; its scan visits every slot (an inactive slot "
                   "does not end it), its per-tag classification and both bank-tag decision tables (6x6, exhaustive); (R6) close: frozen refused, "
                   "closable = not disabled && all sides empty && not in flash loan && not in receivership, close constraint; (R7) disabled accounts "
                   "are refused before any mutation in deposit, withdraw, borrow, repay, flash-loan start/end and the six venue handlers. "
                   "Not decided: 'never a non-dust deposit and debt in one bank' as a numeric invariant.",
    "assumptions": ["the risk engine relies on descending bank-key order produced by sort_balances"],
}
TAGS = {"ASSET_TAG_DEFAULT": 0, "ASSET_TAG_SOL": 1, "ASSET_TAG_STAKED": 2, "ASSET_TAG_KAMINO": 3, "ASSET_TAG_DRIFT": 4, "ASSET_TAG_SOLEND": 5}


def default_like(t):
    return t in (0, 3, 4, 5)


def run(ctx):
    prog = ctx.prog
    am = ctx.am
    resetters, creators_ = balance_resetters(prog, BALANCE)
    slot_writers = sorted(set([k for k, kinds in writers_of(prog, LENDACC, "balances") if "assign" in kinds]) | set(creators_))
    sorters = [f for f in prog.find_fns({"name": "sort_balances", "crate": "marginfi"})]
    if len(slot_writers) != 1 or len(resetters) != 1 or len(sorters) != 1:
        ctx.missing("C16.R1", "slot creator / balance reset / sort_balances (found %d/%d/%d)" % (len(slot_writers), len(resetters), len(sorters)))
        return
    foc = prog.fns[slot_writers[0]]
    reset = resetters[0]
    sortk = sorters[0].key
    change_reach, _ = prog.fns_reaching([{"key": foc.key}, {"key": reset}])
    # ------------------------------------------------------------ R1
    n = 0
    for ixn, ent in sorted(am.instructions.items()):
        if not ent["handlers"]:
            continue
        h = ent["handlers"][0]
        if h.key not in change_reach:
            continue
        skey = ent["struct"].key
        chg = [c for c in h.calls() if c.key in change_reach]
        srt = [c for c in h.calls() if c.key == sortk]
        # account of each slot-changing call and each sort
        def accs(c):
            s = set()
            for a_ in c.args:
                s |= {x for x in acct_fields(ctx.slicer.operand(h, a_, at=c.block), skey) if "marginfi_account" in x}
            dc = defining_call(h, c.args[0]) if c.args else None
            if dc is not None:
                for a_ in dc[1]["args"]:
                    s |= {x for x in acct_fields(ctx.slicer.operand(h, a_, at=dc[0]), skey) if "marginfi_account" in x}
            return s
        probs = []
        for c in chg:
            ca = accs(c)
            ok = False
            for s_ in h.succ()[c.block]:
                good = [x.block for x in srt if (not ca) or (accs(x) & ca) or not accs(x)]
                if not A.can_succeed_avoiding(h, good, start=s_)[0]:
                    ok = True
            if not ok:
                probs.append("after the slot-changing call at %s a successful path ends without sorting %s" % (c.loc, sorted(ca) or "the account"))
        n += 1
        ctx.inst("C16.R1", "sort-after-change/" + ixn, not probs and bool(chg), "%s sorts the account's balances after the last operation that may create or reset a slot" % ixn, "; ".join(probs[:2]) or "ok (%d slot-changing calls)" % len(chg), h.loc(h.raw["span"]))
    ctx.floor("C16.R1", 13)
    srt = sorters[0]
    sb = [c for c in srt.calls() if c.callee and c.callee["name"] in ("sort_by", "sort_unstable_by", "sort_by_key")]
    okcmp = False
    for _, ck in srt.closures_created():
        cl = prog.fns.get(ck)
        if cl:
            pv = ctx.slicer.local(cl, 0)
            cmpc = [c for c in cl.calls() if c.callee and c.callee["name"] == "cmp"]
            for c in cmpc:
                a0 = ctx.slicer.operand(cl, c.args[0], at=c.block)
                a1 = ctx.slicer.operand(cl, c.args[1], at=c.block)
                okcmp = a0.has_field(BALANCE, "bank_pk") and a1.has_field(BALANCE, "bank_pk") and a0.params == {3} and a1.params == {2}
    ctx.inst("C16.R1", "sort-order", bool(sb) and okcmp, "sort_balances orders slots by descending bank key (b.bank_pk.cmp(&a.bank_pk))", "", srt.loc(srt.raw["span"]))

    # the sort covers the whole slot array: a sort of a prefix / sub-slice leaves an active balance behind a hole unsorted for good
    rng = [expr_tree(prog, srt, c.args[0], inline=1) for c in sb]
    okrng = bool(rng) and all(re.fullmatch(r"p1\.balances", t_) for t_ in rng)
    ctx.inst("C16.R1", "sort-range", okrng, "sort_balances sorts all 16 slots (the receiver of the sort is the whole balances array, not a sub-slice)", rng, srt.loc(srt.raw["span"]))

    # ------------------------------------------------------------ R2 slot creation
    expect_atom(ctx, "C16.R2", "integration-limit", foc, "IntegrationPositionLimitExceeded", "le", Cn("MAX_INTEGRATION_POSITIONS"), lambda p: p.has_call(prog, {"name": "count"}) and p.has_call(prog, {"name": "filter"}),
                "error_if(integration positions >= MAX_INTEGRATION_POSITIONS)", on_all_paths=False)
    ev = A.error_variant_blocks(foc, "IntegrationPositionLimitExceeded")
    if ev:
        conds = A.edge_conditions_to(prog, foc, ev[0], ctx.slicer, limit=30)
        g = [a for a in conds if a.kind == "call" and a.callee.endswith("::is_integration_asset_tag") and a.truth is True and a.args and a.args[0].has_field(BANKCFG, "asset_tag")]
        none_edge = [a for a in conds if a.kind == "variant" and a.lhs is not None and a.lhs.has_call(prog, {"name": "position"})]
        ctx.inst("C16.R2", "integration-limit/scope", bool(g) and bool(none_edge), "the limit applies when the bank's tag is an integration tag and no slot exists yet", [a.describe() for a in conds][:4], foc.bloc(ev[0]))
    mx = prog.const_by_name("MAX_INTEGRATION_POSITIONS")
    ctx.inst("C16.R2", "const/MAX_INTEGRATION_POSITIONS", bool(mx) and mx[0]["v"] and int(mx[0]["v"]["int"]) == 8, "MAX_INTEGRATION_POSITIONS == 8", str(mx[0]["v"]) if mx else None)
    ml = prog.const_by_name("MAX_LENDING_ACCOUNT_BALANCES")
    ctx.inst("C16.R2", "const/MAX_LENDING_ACCOUNT_BALANCES", bool(ml) and ml[0]["v"] and int(ml[0]["v"]["int"]) == 16, "16 balance slots", str(ml[0]["v"]) if ml else None)
    ctx.inst("C16.R2", "slots-full", bool(A.variant_blocks(foc, MFI_ERR, "LendingAccountBalanceSlotsFull")) or any(A.variant_blocks(prog.fns[ck], MFI_ERR, "LendingAccountBalanceSlotsFull") for _, ck in foc.closures_created() if ck in prog.fns),
             "slot creation fails with LendingAccountBalanceSlotsFull when no empty slot exists", "", foc.loc(foc.raw["span"]))
    # the count filter looks at active && integration tag of the *slot*
    okf = False
    for _, ck in foc.closures_created():
        cl = prog.fns.get(ck)
        if cl and cl.local_ty(0)["s"] == "bool":
            names = [c.callee["name"] for c in cl.calls() if c.callee]
            if "is_integration_asset_tag" in names and "is_active" in names:
                for c in cl.calls():
                    if c.callee and c.callee["name"] == "is_integration_asset_tag":
                        okf = ctx.slicer.operand(cl, c.args[0], at=c.block).has_field(BALANCE, "bank_asset_tag")
    ctx.inst("C16.R2", "integration-count-filter", okf, "integration positions counted = active slots whose own tag is an integration tag", "", foc.loc(foc.raw["span"]))
    # search predicate
    oks = 0
    for f0 in [foc] + [f for f in prog.fns.values() if (f.info.get("self_adt") or "").endswith("BankAccountWrapper") and f.name == "find"]:
        for _, ck in f0.closures_created():
            cl = prog.fns.get(ck)
            if cl and cl.local_ty(0)["s"] == "bool":
                names = [c.callee["name"] for c in cl.calls() if c.callee]
                if "is_active" in names and "eq" in names:
                    for c in cl.calls():
                        if c.callee["name"] == "eq":
                            if ctx.slicer.operand(cl, c.args[0], at=c.block).has_field(BALANCE, "bank_pk"):
                                oks += 1
    ctx.inst("C16.R2", "search-predicate", oks >= 2, "find / find_or_create look for an active slot whose bank_pk equals the bank key", "%d closures" % oks, foc.loc(foc.raw["span"]))
    for fld, must in (("active", [("int", 1)]), ("bank_pk", [("param", 1)]), ("bank_asset_tag", [("field", BANKCFG, "asset_tag"), ("param", 2)])):
        for bi, pv in agg_fields(ctx, foc, "user_account::Balance", fld):
            wiring(ctx, "C16.R2", "new-slot/" + fld, pv, must=must, loc=foc.bloc(bi), what="new slot's " + fld)
    # creation only on the None edge of the search
    for bi, bb in enumerate(foc.blocks):
        for s in bb["s"]:
            v = s.get("v")
            if v and v["r"] == "agg" and v.get("ak") == "adt" and v["adt"].endswith("user_account::Balance"):
                conds = A.edge_conditions_to(prog, foc, bi, ctx.slicer, limit=30)
                g = [a for a in conds if a.kind == "variant" and a.lhs is not None and a.lhs.has_call(prog, {"name": "position"}) and a.variants == ("in", (0,))]
                ctx.inst("C16.R2", "create-only-if-absent", bool(g), "a slot is created only when the search found none", [a.describe() for a in conds][:3], foc.bloc(bi))

    # ------------------------------------------------------------ R3 tag immutability
    for fld in ("bank_asset_tag", "bank_pk"):
        ws = [k for k, kinds in writers_of(prog, BALANCE, fld) if "assign" in kinds]
        ctx.inst("C16.R3", "writers/Balance." + fld, not ws, "Balance.%s is never assigned field-wise (only whole-slot construction)" % fld, ws, None)
    builders = sorted(k for k, f in prog.fns.items() if f.info["crate"] in ("marginfi", "marginfi_type_crate") and A.variant_blocks(f, BALANCE, None))
    okb = all(k == foc.key or prog.fns[k].name in ("empty_deactivated", "default", "zeroed", "deserialize_reader", "deserialize", "clone") for k in builders)
    # slot creation may build the value (`Balance { .. }`) or fill the free slot field by field (a complete overwrite, see model)
    ctx.inst("C16.R3", "balance-constructors", okb and (foc.key in builders or foc.key in creators_), "whole Balance values are constructed only by slot creation and the empty/deactivated constructor", builders, None)
    ws = [k for k, kinds in writers_of(prog, BALANCE, "active") if "assign" in kinds]
    sa_callers = sorted({k.split("::")[-1] for k, f in prog.fns.items() for c in f.calls() if c.key in ws})
    ctx.inst("C16.R3", "writers/Balance.active", len(ws) <= 1 and set(sa_callers) <= {"empty_deactivated"}, "Balance.active is flipped only through the deactivated constructor", "writers=%s callers=%s" % (ws, sa_callers), None)

    # ------------------------------------------------------------ R4 one-sided operations
    wrappers = [f for f in prog.fns.values() if (f.info.get("self_adt") or "").endswith("BankAccountWrapper") and f.info["crate"] == "marginfi"]
    inc = [f for f in wrappers if f.name == "increase_balance_internal"]
    dec = [f for f in wrappers if f.name == "decrease_balance_internal"]
    if len(inc) != 1 or len(dec) != 1:
        # fall back to the semantic signature (functions calling the balance-level changers)
        bal = {k for k, kinds in writers_of(prog, BALANCE, "asset_shares") if "assign" in kinds}
        cands = [f for f in wrappers if any(c.key in bal for c in f.calls())]
        inc = [f for f in cands if any("BalanceIncreaseType" in f.local_ty(i)["s"] for i in range(1, f.argc + 1))]
        dec = [f for f in cands if any("BalanceDecreaseType" in f.local_ty(i)["s"] for i in range(1, f.argc + 1))]
    if len(inc) != 1 or len(dec) != 1:
        ctx.missing("C16.R4", "increase / decrease primitives")
    else:
        inc, dec = inc[0], dec[0]
        ENTRY = {"deposit": (inc, "DepositOnly"), "deposit_no_repay": (inc, "DepositOnly"), "repay": (inc, "RepayOnly"), "deposit_ignore_deposit_cap": (inc, "BypassDepositLimit"),
                 "withdraw": (dec, "WithdrawOnly"), "borrow": (dec, "BorrowOnly"), "withdraw_ignore_borrow_cap": (dec, "BypassBorrowLimit")}
        for nm, (prim, var) in ENTRY.items():
            fs = [f for f in wrappers if f.name == nm]
            if len(fs) != 1:
                ctx.missing("C16.R4", "BankAccountWrapper::" + nm)
                continue
            cs = [c for c in fs[0].calls() if c.key == prim.key]
            enum = "BalanceIncreaseType" if prim is inc else "BalanceDecreaseType"
            vs = set()
            for c in cs:
                v_, _ = variant_arg(ctx, fs[0], c, 2, enum)
                vs |= v_
                amt = ctx.slicer.operand(fs[0], c.args[1], at=c.block)
            ctx.inst("C16.R4", "entry/" + nm, len(cs) == 1 and vs == {var} and amt.params == {2}, "BankAccountWrapper::%s -> %s(amount, %s)" % (nm, prim.name, var), sorted(vs), fs[0].loc(fs[0].raw["span"]))
        others = sorted({f.name for f in wrappers for c in f.calls() if c.key in (inc.key, dec.key)} - set(ENTRY))
        ctx.inst("C16.R4", "entry/no-others", not others, "no other wrapper method reaches the primitives", others, None)
        # opposite-side refusal tables (is_zero_with_tolerance stubbed to 'not zero' for the opposite side)
        okres = lambda i, a: fde.Adt("core::result::Result", 0, {0: fde.Cell(fde.TOP)})
        for prim, enum, exp in ((inc, "state::marginfi_account::BalanceIncreaseType", {"RepayOnly": "OperationRepayOnly", "DepositOnly": "OperationDepositOnly"}),
                                (dec, "state::marginfi_account::BalanceDecreaseType", {"WithdrawOnly": "OperationWithdrawOnly", "BorrowOnly": "OperationBorrowOnly"})):
            it0 = fde.Interp(prog)
            tbl = {}
            for v in it0.variants(enum):
                it = fde.Interp(prog, max_depth=0, max_forks=600, stubs={"is_zero_with_tolerance": lambda i, a: fde.Int(0), "is_positive_with_tolerance": lambda i, a: fde.TOP,
                                                                          "claim_emissions": okres, "get_liability_amount": okres, "get_asset_amount": okres, "get_asset_shares": okres,
                                                                          "get_liability_shares": okres, "change_asset_shares": okres, "change_liability_shares": okres, "check_utilization_ratio": okres,
                                                                          "get": okres})
                outs = it.run(prim, [fde.Ref(fde.Cell(fde.Adt(None, None, {}))), fde.TOP, it.enum_value(enum, v)])
                kinds = sorted({fde.result_kind(it, o) for o in outs if o.kind == "return"})
                errs = sorted({k[1] for k in kinds if k[0] == "Err"} - {"MathError", "?"})
                tbl[v] = errs
                want = [exp[v]] if v in exp else []
                ctx.inst("C16.R4", "one-sided/%s[%s]" % (prim.name, v), errs == want, "%s with %s and a non-zero opposite side: %s" % (prim.name, v, want or "no one-sided refusal"), errs, prim.loc(prim.raw["span"]))
            ctx.tables["one_sided/" + prim.name] = tbl
        # which amount each refusal tests
        for prim, pairs in ((inc, (("OperationRepayOnly", "max"), ("OperationDepositOnly", "min"))), (dec, (("OperationWithdrawOnly", "max"), ("OperationBorrowOnly", "min")))):
            for err, fn in pairs:
                ev = A.error_variant_blocks(prim, err)
                atoms = A.guard_atoms(prog, prim, ev, ctx.slicer) if ev else []
                g = [a for a in atoms if a.kind == "call" and a.callee.endswith("::is_zero_with_tolerance") and a.truth is False and a.args and len(a.args) > 1 and a.args[1].has_const("ZERO_AMOUNT_THRESHOLD")]
                okarg = False
                for a in g:
                    sw = a.switch[0]
                    # the tested value's defining call is min (same-side part) or max (overflow into the opposite side)
                    for c in prim.calls():
                        if c.callee and c.callee["name"] == "is_zero_with_tolerance" and c.to_block() == sw if hasattr(c, "to_block") else False:
                            pass
                    okarg = a.args[0].has_call(prog, {"name": fn}) and not a.args[0].has_call(prog, {"name": "max" if fn == "min" else "min"})
                ctx.inst("C16.R4", "one-sided-amount/" + err, bool(g) and okarg, "%s tests the %s part of the delta against ZERO_AMOUNT_THRESHOLD" % (err, "overflowing" if fn == "max" else "same-side"), [a.describe() for a in atoms][:2], prim.bloc(ev[0]) if ev else None)

    # ------------------------------------------------------------ R5 tag mixing
    vat = prog.find_fns({"name": "validate_asset_tags", "crate": "marginfi"})
    vbt = prog.find_fns({"name": "validate_bank_asset_tags", "crate": "marginfi"})
    if len(vat) != 1 or len(vbt) != 1:
        ctx.missing("C16.R5", "validate_asset_tags / validate_bank_asset_tags")
    else:
        vat, vbt = vat[0], vbt[0]
        for ixn in ("lending_account_deposit", "lending_account_borrow", "kamino_deposit", "drift_deposit", "solend_deposit"):
            try:
                ix = ctx.ix("C16.R5", ixn)
            except Exception:
                continue
            h = ix["handlers"][0]
            cs = [c for c in h.calls() if c.key == vat.key]
            ok = bool(cs) and A.must_pass(h, [c.block for c in cs])[0] and all(A.consumed(h, c.block)[0] for c in cs)
            okargs = all(acct_fields(ctx.slicer.operand(h, c.args[0], at=c.block), ix["struct"].key) == ["bank"] and "marginfi_account" in acct_fields(ctx.slicer.operand(h, c.args[1], at=c.block), ix["struct"].key) for c in cs)
            muts = A.write_blocks(prog, h, is_share_write)
            dom = all(A.set_dominates(h, [c.block for c in cs], b) for b in muts) if cs else False
            ctx.inst("C16.R5", "tag-gate/" + ixn, ok and okargs and dom, "%s passes the checked tag-mixing gate on (bank, account) before any share mutation" % ixn, "", cs[0].loc if cs else h.loc(h.raw["span"]))
        try:
            ix = ctx.ix("C16.R5", "lending_account_liquidate")
            h = ix["handlers"][0]
            skey = ix["struct"].key
            cs = [c for c in h.calls() if c.key == vat.key]
            pairs = sorted((tuple(acct_fields(ctx.slicer.operand(h, c.args[0], at=c.block), skey)), tuple(x for x in acct_fields(ctx.slicer.operand(h, c.args[1], at=c.block), skey) if "account" in x)) for c in cs)
            want = sorted([(("asset_bank",), ("liquidator_marginfi_account",)), (("liab_bank",), ("liquidatee_marginfi_account",)), (("liab_bank",), ("liquidator_marginfi_account",))])
            bc = [c for c in h.calls() if c.key == vbt.key]
            ok = pairs == want and all(A.must_pass(h, [c.block])[0] and A.consumed(h, c.block)[0] for c in cs + bc) and len(bc) == 1
            ctx.inst("C16.R5", "tag-gate/lending_account_liquidate", ok, "liquidation passes the bank/bank gate and the three (bank, account) gates", pairs, h.loc(h.raw["span"]))
        except Exception as e:
            if e.__class__.__name__ != "AnchorMissing":
                raise
        # scan visits every slot: the inactive edge returns to the iterator
        nx = [c for c in vat.calls() if c.callee and c.callee["name"] == "next"]
        okscan = False
        for bi, bb in enumerate(vat.blocks):
            t = bb["t"]
            if t["k"] != "switch":
                continue
            for arm in [int(a) for a, _ in t["arms"]] + ["else"]:
                at = A.atom_of_edge(prog, vat, bi, arm, ctx.slicer)
                if at.kind == "call" and at.callee.endswith("::is_active") and at.truth is False:
                    tgt = [b for a2, b in t["arms"] if int(a2) == arm][0] if arm != "else" else t["else"]
                    okscan = bool(nx) and any(n_.block in vat.reach_from(tgt) or n_.block == tgt for n_ in nx)
        # the same scan over `balances.iter().filter(|b| b.is_active())`: inactive slots are skipped by the adaptor; the loop must not be left early
        filt_form = False
        for n_ in nx:
            tr_ = expr_tree(prog, vat, n_.args[0], inline=1)
            if re.fullmatch(r"(?:into_iter\()?filter\(iter\(p2\.lending_account\.balances\),closure\{is_active\(a2\)\}\)\)?", tr_):
                filt_form = True
                if not okscan:
                    okscan = not loop_early_exits(prog, vat, n_.block)
        ctx.inst("C16.R5", "scan-all-slots", okscan, "an inactive slot does not end the tag scan (the loop continues with the next slot)", "filter(is_active) form" if filt_form else "", vat.loc(vat.raw["span"]))
        # iterates lending_account.balances of the account argument
        itc = [c for c in vat.calls() if c.callee and c.callee["name"] == "iter"]
        okit = any(ctx.slicer.operand(vat, c.args[0], at=c.block).has_field(LENDACC, "balances") and 2 in ctx.slicer.operand(vat, c.args[0], at=c.block).params for c in itc)
        ctx.inst("C16.R5", "scan-source", okit, "the scan iterates the account's lending_account.balances", "", vat.loc(vat.raw["span"]))
        # decision tables by constant propagation over small integer tags with a 1- and 2-slot abstract account
        bidx = field_idx(prog, BANK, "config")
        tidx = field_idx(prog, BANKCFG, "asset_tag")
        def bank_with(tag):
            return fde.Ref(fde.Cell(fde.Adt(BANK, 0, {bidx: fde.Cell(fde.Adt(BANKCFG, 0, {tidx: fde.Cell(fde.Int(tag))}))})))
        tbl = {}
        okall = True
        for ta in range(6):
            for tb in range(6):
                it = fde.Interp(prog)
                outs = it.run(vbt, [bank_with(ta), bank_with(tb)])
                ks = sorted({fde.result_kind(it, o) for o in outs})
                want = [("Err", "AssetTagMismatch")] if (default_like(ta) and tb == 2) or (ta == 2 and default_like(tb)) else [("Ok",)]
                tbl["%d/%d" % (ta, tb)] = ks[0][0] if len(ks) == 1 else "mixed"
                okall = okall and ks == want
        ctx.tables["validate_bank_asset_tags(6x6)"] = tbl
        ctx.inst("C16.R5", "bank-tag-table", okall, "bank/bank compatibility: error iff one is default-like and the other staked (36 cells)", str(tbl), vbt.loc(vbt.raw["span"]))
        a_i = field_idx(prog, BALANCE, "active")
        g_i = field_idx(prog, BALANCE, "bank_asset_tag")
        la_i = field_idx(prog, MACCOUNT, "lending_account")
        bl_i = field_idx(prog, LENDACC, "balances")

        def run_vat(btag, slots):
            cells = [fde.Cell(fde.Adt(BALANCE, 0, {a_i: fde.Cell(fde.Int(act)), g_i: fde.Cell(fde.Int(tg))})) for (act, tg) in slots]
            state = {"i": 0}

            def st_next(i, a):
                while state["i"] < len(cells):
                    c = cells[state["i"]]
                    state["i"] += 1
                    if filt_form and c.v[3][a_i].v == fde.Int(0):
                        continue          # `.filter(|b| b.is_active())` (closure content checked above): the adaptor skips inactive slots
                    return fde.Adt("core::option::Option", 1, {0: fde.Cell(fde.Ref(c))})
                return fde.Adt("core::option::Option", 0, {})
            it = fde.Interp(prog, stubs={"iter": lambda i, a: fde.Adt("iter", 0, {}), "into_iter": lambda i, a: a[0], "next": st_next, "filter": lambda i, a: a[0],
                                         "is_active": lambda i, a: (a[0][1].v[3][a_i].v if a[0][0] == "ref" and a[0][1].v[0] == "adt" and a_i in a[0][1].v[3] else fde.TOP)}, max_steps=20000)
            acc = fde.Adt(MACCOUNT, 0, {la_i: fde.Cell(fde.Adt(LENDACC, 0, {}))})
            outs = it.run(vat, [bank_with(btag), fde.Ref(fde.Cell(acc))])
            return sorted({fde.result_kind(it, o) for o in outs})
        tbl = {}
        okall = True
        okhole = True
        for bt in range(6):
            for pt in range(6):
                want = [("Err", "AssetTagMismatch")] if (default_like(bt) and pt == 2) or (bt == 2 and default_like(pt)) else [("Ok",)]
                ks = run_vat(bt, [(1, pt)])
                tbl["%d/%d" % (bt, pt)] = ks[0][0] if len(ks) == 1 else "mixed"
                okall = okall and ks == want
                ks2 = run_vat(bt, [(0, 1), (1, pt)])      # a hole in front of the position
                okhole = okhole and ks2 == want
                ks3 = run_vat(bt, [(0, pt)])              # an inactive slot's stale tag is ignored
                okhole = okhole and ks3 == [("Ok",)]
        ctx.tables["validate_asset_tags(bank tag x position tag)"] = tbl
        ctx.inst("C16.R5", "account-tag-table", okall, "bank/account compatibility: error iff the bank is default-like and a staked position exists, or the bank is staked and a default-like position exists (36 cells)", str(tbl), vat.loc(vat.raw["span"]))
        ctx.inst("C16.R5", "account-tag-table/holes", okhole, "an inactive slot neither ends the scan nor contributes its tag (72 cells)", "", vat.loc(vat.raw["span"]))
        for nm, v in TAGS.items():
            cs_ = prog.const_by_name(nm)
            ctx.inst("C16.R5", "const/" + nm, bool(cs_) and cs_[0]["v"] and int(cs_[0]["v"]["int"]) == v, "%s == %d" % (nm, v), str(cs_[0]["v"]) if cs_ else None)

    # ------------------------------------------------------------ R6 close
    try:
        ix = ctx.ix("C16.R6", "marginfi_account_close")
        h = ix["handlers"][0]
        st = ix["struct"]
        ev = A.error_variant_blocks(h, "AccountFrozen")
        atoms = A.guard_atoms(prog, h, ev, ctx.slicer) if ev else []
        g = [a for a in atoms if a.kind == "call" and a.callee.endswith("::get_flag") and a.truth is True and a.args[1].has_const("ACCOUNT_FROZEN")]
        ctx.inst("C16.R6", "close/frozen", bool(g) and A.must_pass(h, [a.switch[0] for a in g])[0], "a frozen account cannot be closed", "", h.loc(h.raw["span"]))
        ev = A.error_variant_blocks(h, "IllegalAction")
        atoms = A.guard_atoms(prog, h, ev, ctx.slicer) if ev else []
        g = [a for a in atoms if a.kind == "call" and a.callee.endswith("::can_be_closed") and a.truth is False]
        ctx.inst("C16.R6", "close/closable", bool(g) and A.must_pass(h, [a.switch[0] for a in g])[0], "close requires can_be_closed()", "", h.loc(h.raw["span"]))
        mf = st.field("marginfi_account")
        ctx.inst("C16.R6", "close/constraint", mf is not None and mf.has("close") and any(c.kind == "keyeq" and c.f == "authority" for c in mf.cons), "the account is closed by Anchor's close constraint under the authority's signature", "", "%s:%d" % (st.file, st.line))
        cbc = prog.find_fns({"name": "can_be_closed", "crate": "marginfi"})
        if len(cbc) == 1:
            f = cbc[0]
            DIS = int(prog.const_by_name("ACCOUNT_DISABLED")[0]["v"]["int"])
            FL = int(prog.const_by_name("ACCOUNT_IN_FLASHLOAN")[0]["v"]["int"])
            RC = int(prog.const_by_name("ACCOUNT_IN_RECEIVERSHIP")[0]["v"]["int"])
            okall = True
            tbl = {}
            for d in (0, 1):
                for fl in (0, 1):
                    for rc in (0, 1):
                        for empty in (0, 1):
                            def gf(i, a, d=d, fl=fl, rc=rc):
                                x = a[1][1] if fde.is_int(a[1]) else None
                                return fde.Int({DIS: d, FL: fl, RC: rc}.get(x, 0)) if x in (DIS, FL, RC) else fde.TOP
                            it = fde.Interp(prog, stubs={"get_flag": gf, "all": lambda i, a, empty=empty: fde.Int(empty), "iter": lambda i, a: fde.TOP})
                            outs = it.run(f, [fde.Ref(fde.Cell(fde.Adt(MACCOUNT, 0, {})))])
                            ks = sorted({fde.result_kind(it, o) for o in outs})
                            want = 1 if (not d and not fl and not rc and empty) else 0
                            tbl["disabled=%d,flashloan=%d,receivership=%d,empty=%d" % (d, fl, rc, empty)] = ks[0][1] if len(ks) == 1 else "mixed"
                            okall = okall and ks == [("val", want)]
            ctx.tables["can_be_closed"] = tbl
            ctx.inst("C16.R6", "close/closable-table", okall, "can_be_closed = !disabled && all balances empty && !in flash loan && !in receivership (16 cells)", str(tbl), f.loc(f.raw["span"]))
            okside = False
            for _, ck in f.closures_created():
                cl = prog.fns.get(ck)
                if cl:
                    names = [c.callee["name"] for c in cl.calls() if c.callee]
                    okside = okside or ("get_side" in names and "is_none" in names)
            ctx.inst("C16.R6", "close/all-sides-empty", okside, "emptiness = every slot has no side (get_side().is_none())", "", f.loc(f.raw["span"]))
    except Exception as e:
        if e.__class__.__name__ != "AnchorMissing":
            raise

    # ------------------------------------------------------------ R7 disabled accounts refused
    for ixn in ("lending_account_deposit", "lending_account_withdraw", "lending_account_borrow", "lending_account_repay", "lending_account_start_flashloan", "lending_account_end_flashloan",
                "kamino_deposit", "kamino_withdraw", "drift_deposit", "drift_withdraw", "solend_deposit", "solend_withdraw"):
        try:
            ix = ctx.ix("C16.R7", ixn)
        except Exception:
            continue
        h = ix["handlers"][0]
        cands = [h] + [prog.fns[c.key] for c in h.calls() if c.key in prog.fns and c.callee["crate"] == "marginfi" and c.callee["name"].startswith("check_")]
        ok = False
        for f in cands:
            ev = A.error_variant_blocks(f, "AccountDisabled")
            atoms = A.guard_atoms(prog, f, ev, ctx.slicer) if ev else []
            g = [a for a in atoms if a.kind == "call" and a.callee.endswith("::get_flag") and a.truth is True and len(a.args) > 1 and a.args[1].has_const("ACCOUNT_DISABLED")]
            if g and A.must_pass(f, [a.switch[0] for a in g])[0]:
                if f is h:
                    muts = A.write_blocks(prog, h, is_share_write)
                    ok = all(A.set_dominates(h, [a.switch[0] for a in g], b) for b in muts)
                else:
                    cs = [c for c in h.calls() if c.key == f.key]
                    ok = A.must_pass(h, [c.block for c in cs])[0] and all(A.consumed(h, c.block)[0] for c in cs)
        ctx.inst("C16.R7", "refuses-disabled/" + ixn, ok, "%s refuses a disabled account before any mutation" % ixn, "", h.loc(h.raw["span"]))
    ctx.floor("C16.R7", 12)


_run_pre_leaves = run


def run(ctx):
    from .kernels import check_leaves
    try:
        _run_pre_leaves(ctx)
    finally:
        # leaf helpers this property's rules treat by name, pinned as complete path tables
        check_leaves(ctx, "C16.K", ['account.get_flag', 'balance.is_empty', 'balance.get_side', 'balance.is_active', 'balance.set_active', 'general.is_integration_asset_tag'])
