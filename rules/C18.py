"""C18 Accepted interest curves are usable, bounded, non-decreasing (structural clauses only)."""
import re
from engine import analysis as A
from engine.model import op_place
from .common import *
from .C13 import unvalidated_writes

INFO = {
    "explanation": "Decided statically over canonical expression trees (values resolved through temporaries, `?`, into(), casts; commutative "
                   "operators normalised) and canonical branch conditions (lt/le/eq/ne): (R1) validate() and calc_interest_rate() dispatch the same "
                   "curve_type constants to the matching validator / curve and refuse any other value; (R2) the seven-point validator rejects: "
                   "padding with a rate, holes, non-increasing utils and decreasing rates for every adjacent pair of used points, zero > hundred, any used "
                   "point outside [zero, hundred]; `used` is exactly the points with util != 0 (the set the curve iterates); the legacy validator rejects "
                   "optimal outside (0,1), non-positive plateau / max, max <= plateau; extra rejections are allowed, missing ones are violations; (R3) the "
                   "curve functions: utilization is clamped to [0,1] before any use, the point filter is util != 0, every lerp call is wired "
                   "(prev_util, prev_rate, point_util, point_rate, ur) / (.., ONE, hundred_rate, ur) with util/rate conversions not mixed, the first "
                   "segment starts at (0, zero rate); (R4) lerp returns Some only as start_y when the segment is degenerate or as "
                   "start_y + (end_y-start_y)*((x-start_x)/(end_x-start_x)) under start_x < end_x, start_x <= x <= end_x, start_y <= end_y, and returns "
                   "None only for the documented reasons; (R5) rate algebra: lending = base * ur, borrowing = base * (1 + fee_ir) + fee_fixed, the u32 "
                   "conversions; (R6) every instruction that writes a curve field passes the checked validator after the write. Not decided: the numeric "
                   "statements (rounding inside the interpolation, exact equality at configured points).",
    "assumptions": ["I80F48 division of distinct u32 values by u32::MAX is strictly monotone (48 fractional bits > 32)"],
}
T = "marginfi_type_crate::types::"
IRC = T + "interest_rate::InterestRateConfig"
CURVE_FIELDS = ("zero_util_rate", "hundred_util_rate", "points", "curve_type", "optimal_utilization_rate", "plateau_interest_rate", "max_interest_rate")
ONE = "281474976710656"
UR = "min(%s,max(0,p2))" % ONE
R6_EXEMPT = {"lending_pool_clone_bank": "staging/localnet only; copies an already validated bank"}


def first_call_from(f, b, names, hops=12):
    while hops > 0:
        t = f.blocks[b]["t"]
        if t["k"] == "call":
            ci = f.dinfo(t["res"]) if t.get("res") is not None else (f.dinfo(t["raw"]) if "raw" in t else None)
            if ci and ci["name"] in names:
                return ci["name"]
        nx = term_succ_normal(t)
        if len(nx) != 1:
            return None
        b = nx[0]
        hops -= 1
    return None


def run(ctx):
    prog = ctx.prog
    IR = "marginfi::state::interest_rate::"

    def one(rule, spec, what):
        r = prog.find_fns(spec)
        if len(r) != 1:
            ctx.missing(rule, what)
            return None
        return r[0]
    val = one("C18.R1", {"name": "validate", "key_re": r"state::interest_rate::\{impl#\d+\}::validate$"}, "InterestRateConfigImpl::validate")
    v7 = one("C18.R2", {"name": "validate_seven_point", "crate": "marginfi"}, "validate_seven_point")
    vl = one("C18.R2", {"name": "validate_legacy", "crate": "marginfi"}, "validate_legacy")
    calc = one("C18.R1", {"name": "calc_interest_rate", "crate": "marginfi", "self_adt": "InterestRateCalc"}, "InterestRateCalc::calc_interest_rate")
    mpc = one("C18.R3", {"name": "interest_rate_multipoint_curve", "crate": "marginfi"}, "interest_rate_multipoint_curve")
    leg = one("C18.R3", {"name": "interest_rate_curve", "crate": "marginfi"}, "interest_rate_curve")
    lerp = one("C18.R4", {"name": "lerp", "crate": "marginfi", "self_adt": "InterestRateCalc"}, "InterestRateCalc::lerp")
    if None in (val, v7, vl, calc, mpc, leg, lerp):
        return
    cl = {k.split("::")[-1]: int(c["v"]["int"]) for k, c in prog.consts.items() if k.split("::")[-1] in ("INTEREST_CURVE_LEGACY", "INTEREST_CURVE_SEVEN_POINT") and "int" in (c["v"] or {})}
    if len(cl) != 2:
        ctx.missing("C18.R1", "INTEREST_CURVE_* constants")
        return

    # ------------------------------------------------------------ R1 dispatch agreement
    for f, names, what in ((val, {"validate_legacy": "INTEREST_CURVE_LEGACY", "validate_seven_point": "INTEREST_CURVE_SEVEN_POINT"}, "validate"),
                           (calc, {"interest_rate_curve": "INTEREST_CURVE_LEGACY", "interest_rate_multipoint_curve": "INTEREST_CURVE_SEVEN_POINT"}, "calc_interest_rate")):
        sws = [(bi, bb["t"]) for bi, bb in enumerate(f.blocks) if bb["t"]["k"] == "switch" and expr_tree(prog, f, bb["t"]["on"]) == "p1.curve_type"]
        ok = len(sws) == 1
        found = {}
        if ok:
            bi, t = sws[0]
            for a, tgt in t["arms"]:
                found[int(a)] = first_call_from(f, tgt, set(names))
            want = {cl[c]: n for n, c in names.items()}
            rets = set(f.return_blocks())
            ok = found == want and not (rets & set(f.reachable(start=t["else"])))
        ctx.inst("C18.R1", "dispatch/" + what, ok, "%s maps curve_type LEGACY->%s, SEVEN_POINT->%s and refuses (panics on) every other value" % ((what,) + tuple(sorted(names))[::1]), found, f.loc(f.raw["span"]))
    # both sub-validators' results are propagated
    for c in val.calls():
        if c.callee and c.callee["name"] in ("validate_legacy", "validate_seven_point"):
            ctx.inst("C18.R1", "validate-result-used/" + c.callee["name"], A.consumed(val, c.block)[0], "the result of %s is propagated with `?`" % c.callee["name"], "", c.loc)

    # ------------------------------------------------------------ R2 validator content
    conds = [c for c, _ in error_conditions(prog, v7)]
    condset = set(conds)
    pushes = [c for c in v7.calls() if c.callee and c.callee["name"] == "push"]
    if len(pushes) != 1:
        ctx.missing("C18.R2", "single `used.push` in validate_seven_point")
        return
    USED = expr_tree(prog, v7, pushes[0].args[0])
    PT = expr_tree(prog, v7, pushes[0].args[1])
    ctx.inst("C18.R2", "seven/iterates-all-points", PT in ("next(into_iter(enumerate(iter(p1.points)))).1", "next(into_iter(iter(p1.points)))", "next(iter(p1.points))"),
             "the validator walks every element of self.points", PT, pushes[0].loc)
    pc = set(dominating_conds(prog, v7, pushes[0].block))
    pc = {c for c in pc if not c.startswith("discr(next(")}
    allowed = {"ne(0,%s.util)" % PT, "not(phi(0|1))"}
    ctx.inst("C18.R2", "seven/used-is-nonzero-util", ("ne(0,%s.util)" % PT) in pc and pc <= allowed,
             "`used` receives exactly the points with util != 0 (the same filter the curve applies)", sorted(pc), pushes[0].loc)
    ctx.inst("C18.R2", "seven/padding-has-no-rate", ("ne(0,%s.rate)" % PT) in condset, "a util == 0 slot with a non-zero rate is rejected", conds, v7.loc(v7.raw["span"]))
    # the padding-rate check sits under util == 0
    sw = [s for c, s in error_conditions(prog, v7) if c == "ne(0,%s.rate)" % PT]
    if sw:
        dc = dominating_conds(prog, v7, sw[0])
        ctx.inst("C18.R2", "seven/padding-check-under-util-zero", ("eq(0,%s.util)" % PT) in dc, "the padding check applies to util == 0 slots", dc, v7.bloc(sw[0]))
    # holes: seen_padding flag
    sp = [s for c, s in error_conditions(prog, v7) if c == "phi(0|1)"]
    okh = False
    if len(sp) == 1:
        t = v7.blocks[sp[0]]["t"]
        l = op_place(t["on"])["l"]
        src = l
        d = A.single_def(v7, l)
        if d and d[1] != "T":
            vv = v7.blocks[d[0]]["s"][d[1]]["v"]
            if vv["r"] == "use" and op_place(vv["a"][0]) is not None:
                src = op_place(vv["a"][0])["l"]
        sets = []
        for (bi, si) in v7.local_defs().get(src, []):
            if si == "T":
                sets.append(("call", bi))
                continue
            vv = v7.blocks[bi]["s"][si]["v"]
            sets.append((expr_tree(prog, v7, vv["a"][0]) if vv["r"] == "use" else vv["r"], bi))
        ones = [b for v_, b in sets if v_ == "1"]
        zeros = [b for v_, b in sets if v_ == "0"]
        okh = len(ones) >= 1 and len(zeros) == 1 and len(sets) == len(ones) + 1 and all(("eq(0,%s.util)" % PT) in dominating_conds(prog, v7, b) for b in ones) \
            and ("ne(0,%s.util)" % PT) in dominating_conds(prog, v7, sp[0])
        # every util == 0 path that continues the loop sets the flag: the only exits of the util==0 region are the error and blocks after a set
        hdr = [bi for bi, bb in enumerate(v7.blocks) if bb["t"]["k"] == "switch" and switch_cond(prog, v7, bi, "else") == "eq(0,%s.util)" % PT]
        if okh and len(hdr) == 1:
            z_entry = v7.blocks[hdr[0]]["t"]["else"]
            # from the util==0 entry, can we get back to the loop head (the block calling next) without passing a set-to-1 block?
            nxt = [c.block for c in v7.calls() if c.callee and c.callee["name"] == "next" and PT.startswith("next(") and expr_tree(prog, v7, {"c": c.dest}).startswith(PT.split(".1")[0][:20])]
            r = A.reach_without(v7, removed_blocks=set(ones), start=z_entry)
            okh = not (set(nxt) & r)
    ctx.inst("C18.R2", "seven/no-holes", okh, "after a padding slot every later slot must be padding (flag set on every padding slot, checked on every used slot)", "", v7.loc(v7.raw["span"]))
    IDXS = ["next(into_iter(Range::Range{1,len(%s)}))" % USED]

    def pair(fld, rel):
        for IDX in IDXS:
            if "%s(index(%s,%s).%s,index(%s,sub(%s,1)).%s)" % (rel, USED, IDX, fld, USED, IDX, fld) in condset:
                return True
        W = "next(into_iter(windows(%s,2)))" % USED
        if "%s(index(%s,1).%s,index(%s,0).%s)" % (rel, W, fld, W, fld) in condset:
            return True
        # `for pair in used.windows(2)` (optionally enumerated) with pair[0] / pair[1]
        for c in condset:
            m = re.fullmatch(r"%s\((.+)\[1\]\.%s,(.+)\[0\]\.%s\)" % (rel, fld, fld), c)
            if m and m.group(1) == m.group(2) and re.fullmatch(r"next\(into_iter\((?:enumerate\()?windows\(%s,2\)\)?\)\)(?:\.1)?" % re.escape(USED), m.group(1)):
                return True
        return False
    ctx.inst("C18.R2", "seven/utils-strictly-increasing", pair("util", "le"), "for every adjacent pair of used points: reject if curr.util <= prev.util (loop 1..used.len())", [c for c in conds if ".util" in c and "index" in c], v7.loc(v7.raw["span"]))
    ctx.inst("C18.R2", "seven/rates-non-decreasing", pair("rate", "lt"), "for every adjacent pair of used points: reject if curr.rate < prev.rate", [c for c in conds if ".rate" in c and "index" in c], v7.loc(v7.raw["span"]))
    ctx.inst("C18.R2", "seven/zero-le-hundred", "lt(p1.hundred_util_rate,p1.zero_util_rate)" in condset, "reject if hundred_util_rate < zero_util_rate", conds, v7.loc(v7.raw["span"]))
    # per-point bounds: quantified form or (sound) endpoint form
    okb = False
    why = ""
    for c in conds:
        m = re.fullmatch(r"not\(all\(iter\((.+)\),closure\{(.*)\}\)\)", c)
        anyform = False
        if not m:
            m = re.fullmatch(r"any\(iter\((.+)\),closure\{(.*)\}\)", c)      # reject if any point is outside: the negated predicate
            anyform = bool(m)
        if m and m.group(1) == USED:
            caps = split_call("x(" + m.group(2) + ")")[1]
            clos = [g for g in prog.fns.values() if g.info["kind"] == "Closure" and g.info.get("closure_of") == v7.key]
            for g in clos:
                paths = bool_paths(prog, g)
                # the single path on which the point is *accepted* (all-form: closure true; any-form: closure false)
                tp = [(cs, r) for cs, r in paths if r != ("1" if anyform else "0")]
                if len(tp) != 1:
                    continue
                cs, r = tp[0]
                conj = set(cs)
                sc = split_call(r) if r else None
                if r and r != ("0" if anyform else "1"):
                    conj.add(norm_cond(r, not anyform))

                def subst(x):
                    for i, cap in enumerate(caps):
                        x = x.replace("p1.%d" % i, cap)
                    return x
                conj = {subst(x) for x in conj}
                why = sorted(conj)
                if conj >= {"le(p1.zero_util_rate,p2.rate)", "le(p2.rate,p1.hundred_util_rate)"}:
                    okb = True
    fl = [c for c in conds if re.fullmatch(r"lt\((.*[^\w]first\(.*|first\(.*),p1\.zero_util_rate\)", c) or re.fullmatch(r"lt\(index\(%s,0\)\.rate,p1\.zero_util_rate\)" % re.escape(USED), c)]
    ll = [c for c in conds if re.fullmatch(r"lt\(p1\.hundred_util_rate,(.*[^\w]last\(.*|last\(.*)\)", c)]
    v7clos = [ret_tree(prog, g) for g in prog.fns.values() if g.info["kind"] == "Closure" and g.info.get("closure_of") == v7.key]
    if not all(x in ("p2.rate", "p1.rate") or x.startswith("phi(0|le(") for x in v7clos):
        fl = []
    if fl and ll and pair("rate", "lt"):
        okb = True
        why = fl + ll
    ctx.inst("C18.R2", "seven/points-within-zero-hundred", okb, "every used point satisfies zero <= rate <= hundred (all-points form, or first/last form given monotone rates)", why or conds, v7.loc(v7.raw["span"]))
    # legacy
    lconds = {c for c, _ in error_conditions(prog, vl)}
    for want, what in (("le(p1.optimal_utilization_rate,0)", "optimal <= 0"), ("le(%s,p1.optimal_utilization_rate)" % ONE, "optimal >= 1"), ("le(p1.plateau_interest_rate,0)", "plateau <= 0"),
                       ("le(p1.max_interest_rate,0)", "max <= 0"), ("le(p1.max_interest_rate,p1.plateau_interest_rate)", "max <= plateau")):
        ctx.inst("C18.R2", "legacy/reject-" + what.replace(" ", ""), want in lconds, "validate_legacy rejects " + what, sorted(lconds), vl.loc(vl.raw["span"]))

    # ------------------------------------------------------------ R3 curves
    clos = [g for g in prog.fns.values() if g.info["kind"] == "Closure" and g.info.get("closure_of") == mpc.key]
    filt_ok = len(clos) == 1 and ret_tree(prog, clos[0]) == "ne(0,util(p2))"
    ctx.inst("C18.R3", "multipoint/filter-util-nonzero", filt_ok, "the curve skips exactly the util == 0 slots", [ret_tree(prog, g) for g in clos], mpc.loc(mpc.raw["span"]))
    for nm, want in (("util", "p1.util"), ("rate", "p1.rate")):
        g = prog.find_fns({"name": nm, "self_adt": "RatePoint"})
        ctx.inst("C18.R3", "ratepoint-getter/" + nm, len(g) == 1 and ret_tree(prog, g[0]) == want, "RatePoint::%s() returns self.%s" % (nm, nm), [ret_tree(prog, x) for x in g], g[0].loc(g[0].raw["span"]) if g else None)
    PTC = "next(into_iter(filter(iter(p1.points),closure{})))"
    PU = "util_from_u32(util(%s))" % PTC
    PR = "rate_from_u32(rate(%s))" % PTC
    prevu = "phi(0|%s)" % PU
    prevr = "phi(%s|rate_from_u32(p1.zero_util_rate))" % PR
    lcalls = [c for c in mpc.calls() if c.key == lerp.key]
    trees = [[expr_tree(prog, mpc, a) for a in c.args] for c in lcalls]

    def normphi(s):
        m = re.fullmatch(r"phi\((.*)\)", s)
        if not m:
            return s
        return "phi(%s)" % "|".join(sorted(split_call("x(" + m.group(1).replace("|", ",") + ")")[1]))
    trees = [[normphi(x) for x in tr] for tr in trees]
    want_loop = [prevu, normphi(prevr), PU, PR, UR]
    want_last = [prevu, normphi(prevr), ONE, "rate_from_u32(p1.hundred_util_rate)", UR]
    ctx.inst("C18.R3", "multipoint/lerp-wiring-inner", want_loop in trees, "inner segments: lerp(prev_util, prev_rate, point_util, point_rate, clamped ur), first segment from (0, zero rate)", trees, mpc.loc(mpc.raw["span"]))
    ctx.inst("C18.R3", "multipoint/lerp-wiring-last", want_last in trees, "last segment: lerp(prev_util, prev_rate, ONE, hundred rate, clamped ur)", trees, mpc.loc(mpc.raw["span"]))
    rdefs = mpc.local_defs().get(0, [])
    only = bool(rdefs) and all(si == "T" and mpc.blocks[bi]["t"]["k"] == "call" and mpc.blocks[bi]["t"].get("res") is not None and mpc.dinfo(mpc.blocks[bi]["t"]["res"])["key"] == lerp.key for bi, si in rdefs)
    ctx.inst("C18.R3", "multipoint/only-lerp-results", len(lcalls) == 2 and only, "the curve returns nothing but the two lerp results", ret_tree(prog, mpc)[:200], mpc.loc(mpc.raw["span"]))
    for c, tr in zip(lcalls, trees):
        if tr == want_loop:
            dc = dominating_conds(prog, mpc, c.block)
            ctx.inst("C18.R3", "multipoint/segment-selection", "le(%s,%s)" % (UR, PU) in dc and len([x for x in dc if not x.startswith("discr(")]) == 1, "a segment is used iff clamped ur <= its end util (first match in ascending order)", dc, c.loc)
    # clamp: every use of the raw utilization parameter goes through max(0).min(1)
    for f, nm in ((mpc, "multipoint"), (leg, "legacy")):
        uses = []
        for bi, bb in enumerate(f.blocks):
            for s in bb["s"]:
                v = s.get("v")
                if v:
                    for a in v.get("a", []):
                        p = op_place(a)
                        if p is not None and p["l"] == 2:
                            uses.append(bi)
            t = bb["t"]
            if t["k"] == "call":
                for a in t["args"]:
                    p = op_place(a)
                    if p is not None and p["l"] == 2:
                        uses.append(bi)
        # all uses of p2 must flow only into the clamp
        allt = []
        for c in f.calls():
            for a in c.args:
                allt.append(expr_tree(prog, f, a))
        for bi, bb in enumerate(f.blocks):
            if bb["t"]["k"] == "switch":
                allt.append(expr_tree(prog, f, bb["t"]["on"]))
        raw_use = [x for x in allt if re.search(r"(?<![\w.])p2(?![\w.])", x.replace(UR, "UR").replace("max(0,p2)", "M"))]
        raw_use = [x for x in raw_use if x != "p2" or True]
        # the only allowed raw appearance is as the argument of max(0, .)
        bad = [x for x in raw_use if x not in ("p2",) ]
        direct = [c for c in f.calls() if any(expr_tree(prog, f, a) == "p2" for a in c.args) and not (c.callee and c.callee["name"] == "max")
                  and not (c.callee and c.callee["name"] == "clamp" and mk_call("clamp", [expr_tree(prog, f, a) for a in c.args]) == UR)]
        sw_raw = [bi for bi, bb in enumerate(f.blocks) if bb["t"]["k"] == "switch" and re.search(r"(?<![\w.])p2(?![\w.])", expr_tree(prog, f, bb["t"]["on"]).replace(UR, "UR"))]
        ctx.inst("C18.R3", "clamp/" + nm, not bad and not direct and not sw_raw and any(UR in x for x in allt),
                 "%s curve: utilization is clamped to [0, 1] (ur.max(0).min(1)) before every comparison and arithmetic use" % nm,
                 (bad or [f.bloc(b) for b in sw_raw] or [c.loc for c in direct] or "no clamp")[:3] if (bad or direct or sw_raw or not any(UR in x for x in allt)) else "ok", f.loc(f.raw["span"]))
    # legacy formula
    lp = bool_paths(prog, leg)
    some = sorted((tuple(c for c in cs if not c.startswith("discr(")), r) for cs, r in lp if r and not r.startswith("from_residual"))
    U = "UR"
    canon = sorted((tuple(c.replace(UR, U).replace("p2", U) if UR not in c else c.replace(UR, U) for c in cs), (r.replace(UR, U) if UR in r else r.replace("p2", U))) for cs, r in some)
    O, P, M = "p1.optimal_utilization_rate", "p1.plateau_interest_rate", "p1.max_interest_rate"
    want = sorted([(("le(UR,%s)" % O,), "checked_mul(checked_div(UR,%s),%s)" % (O, P)),
                   (("lt(%s,UR)" % O,), "checked_add(%s,checked_mul(checked_div(sub(UR,%s),sub(%s,%s)),sub(%s,%s)))" % (P, O, ONE, O, M, P))])
    canon2 = []
    for cs, r in canon:
        sc = split_call(r)
        if sc and sc[0] in COMMUTATIVE:
            r = "%s(%s)" % (sc[0], ",".join(sorted(sc[1])))
        canon2.append((cs, r))
    want2 = []
    for cs, r in want:
        sc = split_call(r)
        if sc and sc[0] in COMMUTATIVE:
            r = "%s(%s)" % (sc[0], ",".join(sorted(sc[1])))
        want2.append((cs, r))
    ctx.inst("C18.R3", "legacy/formula", sorted(canon2) == sorted(want2), "legacy: ur <= optimal ? ur/optimal*plateau : plateau + (ur-optimal)/(1-optimal)*(max-plateau), all checked", canon2, leg.loc(leg.raw["span"]))

    # ------------------------------------------------------------ R4 lerp
    paths = bool_paths(prog, lerp)
    INTERP = "Option::Some{add(checked_mul(div(sub(p5,p1),sub(p3,p1)),sub(p4,p2)),p2)}"
    need = {"lt(p1,p3)", "le(p1,p5)", "le(p5,p3)", "le(p2,p4)"}
    none_reasons = ("lt(p5,p1)", "lt(p3,p5)", "lt(p4,p2)")
    bad = []
    n_interp = 0
    for cs, r in paths:
        cs_ = set(cs)
        if r == INTERP:
            n_interp += 1
            if not cs_ >= need:
                bad.append("interpolation without %s" % sorted(need - cs_))
        elif r == "Option::Some{p2}":
            if not ({"le(p3,p1)", "is_zero(sub(p3,p1))", "eq(p1,p3)"} & cs_):
                bad.append("start_y returned for a non-degenerate segment under %s" % cs)
        elif r == "Option::None{}":
            if not (set(none_reasons) & cs_):
                bad.append("None returned under %s" % cs)
        elif r and r.startswith("from_residual(checked_mul("):
            pass
        else:
            bad.append("unexpected result %s under %s" % (r, cs))
    ctx.inst("C18.R4", "lerp/paths", not bad and n_interp >= 1, "lerp: Some(start_y) only on a degenerate segment; Some(start_y + (end_y-start_y)*((x-start_x)/(end_x-start_x))) only under start_x<end_x, start_x<=x<=end_x, start_y<=end_y; None only when x is outside the segment, the segment decreases, or the product overflows",
             bad[:3] or "%d paths" % len(paths), lerp.loc(lerp.raw["span"]))

    # ------------------------------------------------------------ R5 rate algebra
    for nm, want in (("rate_from_u32", "mul(10,div(p1,4294967295))"), ("util_from_u32", "div(p1,4294967295)")):
        g = prog.find_fns({"name": nm, "crate": "marginfi", "self_adt": "InterestRateCalc"})
        ctx.inst("C18.R5", "conv/" + nm, len(g) == 1 and ret_tree(prog, g[0]) == want, "%s(x) = %s" % (nm, want), [ret_tree(prog, x) for x in g], g[0].loc(g[0].raw["span"]) if g else None)
    rt = ret_tree(prog, calc)
    m = re.fullmatch(r"Option::Some\{ComputedInterestRates::ComputedInterestRates\{(.*)\}\}", rt)
    okc = False
    parts = []
    if m:
        parts = split_call("x(" + m.group(1) + ")")[1]
        flds = None
        for bb in calc.blocks:
            for s in bb["s"]:
                v = s.get("v")
                if v and v["r"] == "agg" and v.get("ak") == "adt" and v["adt"].endswith("ComputedInterestRates"):
                    flds = v["fields"]
        if flds and len(flds) == len(parts):
            d = dict(zip(flds, parts))
            BASE = d.get("base_rate_apr")
            G = "get_fees(p1)."
            FI = mk_call("add", [G + "group_fee_rate", G + "insurance_fee_rate", G + "protocol_fee_rate"])
            FF = mk_call("add", [G + "group_fee_fixed", G + "insurance_fee_fixed", G + "protocol_fee_fixed"])
            wb = mk_call("checked_add", [FF, mk_call("checked_mul", [mk_call("checked_add", [ONE, FI]), BASE or "?"])])
            okc = BASE == "phi(interest_rate_curve(p1,p2)|interest_rate_multipoint_curve(p1,p2))" and d.get("lending_rate_apr") == mk_call("checked_mul", ["p2", BASE]) and d.get("borrowing_rate_apr") == wb
    ctx.inst("C18.R5", "rates/lending-borrowing", okc, "base = curve(ur); lending = base * ur; borrowing = base * (1 + sum of rate fees) + sum of fixed fees (checked)", parts[:3], calc.loc(calc.raw["span"]))
    g = prog.find_fns({"name": "calc_fee_rate", "crate": "marginfi"})
    ctx.inst("C18.R5", "rates/calc_fee_rate", len(g) == 1 and set(split_call("x(" + re.sub(r"^phi\((.*)\)$", r"\1", ret_tree(prog, g[0])).replace("|", ",") + ")")[1]) == {"Option::Some{p3}", "checked_add(checked_mul(p1,p2),p3)"},
             "fee rate = base * rate_fee + fixed_fee (or fixed_fee when rate_fee is zero)", [ret_tree(prog, x) for x in g], g[0].loc(g[0].raw["span"]) if g else None)

    # ------------------------------------------------------------ R6 validate after every curve write
    vreach, _ = prog.fns_reaching({"key": val.key})
    wp = lambda o, n: (o == IRC and n in CURVE_FIELDS) or (o, n) in ((BANKCFG, "=interest_rate_config"), (BANK, "*"), (BANK, "=config"))
    n6 = 0
    for ixn, ent in sorted(ctx.am.instructions.items()):
        if not ent["handlers"]:
            continue
        h = ent["handlers"][0]
        ws = prog.writes(h.key)
        if not any(wp(*w) for w in ws):
            continue
        if ixn in R6_EXEMPT:
            ctx.inst("C18.R6", "validate-after-curve-write/" + ixn, True, "exempt: " + R6_EXEMPT[ixn], "exempt (table)", h.loc(h.raw["span"]))
            continue
        bad, hasv, hasw = unvalidated_writes(prog, h, wp, vreach, val.key)
        unchecked = []
        for k in prog.reach(h.key):
            g = prog.fns.get(k)
            if g is not None and g.info["crate"] == "marginfi":
                unchecked += [c.loc for c in g.calls() if c.key == val.key and not A.consumed(g, c.block)[0]]
        n6 += 1
        ctx.inst("C18.R6", "validate-after-curve-write/" + ixn, hasv and not bad and not unchecked,
                 "every write of an interest-curve field in %s is followed by the checked curve validator on all successful paths" % ixn,
                 "no validator call" if not hasv else (bad[0][1] if bad else ("unchecked at %s" % unchecked if unchecked else "ok")), h.loc(h.raw["span"]))
    for c in v7.calls():
        if c.callee and c.callee["name"] == "next":
            bad = loop_early_exits(prog, v7, c.block)
            it = expr_tree(prog, v7, c.args[0])
            ctx.inst("C18.R2", "seven/loop-visits-everything/" + ("points" if "p1.points" in it and "Range" not in it else "pairs"), not bad,
                     "the validation loop over %s is left only when exhausted or on an error" % it[:60], ["%s leaves the loop at %s" % (cc, v7.bloc(u)) for u, v_, cc in bad] or "ok", c.loc)
    live = [x for c in mpc.calls() if c.callee and c.callee["name"] == "next" for x in loop_early_exits(prog, mpc, c.block)]
    ctx.inst("C18.R2", "loop-rule-liveness", len(live) == 1 and live[0][2].startswith("le(" + UR), "positive control for the loop-exit rule: the curve's segment search does leave its loop early (on ur <= point util) and the rule sees exactly that exit",
             [x[2][:80] for x in live], mpc.loc(mpc.raw["span"]))
    ctx.floor("C18.R6", 8)
    ctx.floor("C18.R2", 12)
    ctx.floor("C18.R3", 8)
    # accrual consumes the calculator result checked (an undefined rate fails the instruction rather than being skipped)
    acc = prog.find_fns({"name": "calc_interest_rate_accrual_state_changes", "crate": "marginfi"})
    for f in acc:
        cs = [c for c in f.calls() if c.key == calc.key]
        ctx.inst("C18.R5", "accrual/uses-calculator", len(cs) == 1 and A.consumed(f, cs[0].block)[0] and expr_tree(prog, f, cs[0].args[1]) == "checked_div(p3,p2)",
                 "accrual evaluates the curve at liabilities / assets and propagates an undefined rate as failure", [expr_tree(prog, f, a) for c in cs for a in c.args], f.loc(f.raw["span"]))
