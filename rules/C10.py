"""C10 Receivership liquidation bracket (structural clauses only)."""
import hashlib
from engine import analysis as A
from engine.model import op_place
from .common import *

INFO = {
    "explanation": "Decided statically: (R1) the introspection routine passes all six validators on every successful path with checked results and the "
                   "start-before-last atom; start_liquidation / start_deleverage call it with their own start/end discriminator pair; end handlers pass "
                   "the stack-height (not-CPI) check; inside the validators every comparison against an expected discriminator uses the first eight "
                   "bytes of the instruction data and the program id; (R2) tables: the exclusive allow-list resolves (by discriminator = "
                   "sha256('global:<name>')[..8]) to exactly {start, end, init-record, withdraw, repay, kamino withdraw, drift withdraw}; allowed program ids "
                   "and allowed leading instructions are the frozen sets; (R3) flag ownership: IN_RECEIVERSHIP is set only by the start routine and "
                   "cleared only by the end routine on all its successful paths (likewise IN_DELEVERAGE), the receiver is recorded at start and cleared "
                   "at end; start / end account constraints and the end's receiver binding; (R4) start/end guards: ignore_healthy false (liquidation) / "
                   "true (deleverage) at start; end: WorseHealthPostLiquidation = error_if(pre > post), close-out exemption = pre *asset* equity < "
                   "LIQUIDATION_CLOSEOUT_DOLLAR_THRESHOLD (5), LiquidationPremiumTooHigh = error_if(seized > repaid * max(1+fee, 1+0.05)) skipped only on "
                   "that edge; snapshot and seized/repaid wiring; (R5) inside-bracket restrictions of sibling instructions. Not decided: language "
                   "inclusion over arbitrary transaction shapes, end-state numeric inequalities.",
    "assumptions": ["Solana instructions-sysvar semantics (load_instruction_at_checked, get_stack_height)", "Anchor dispatches on the first 8 data bytes"],
}
LR = "marginfi_type_crate::types::liquidation_record::LiquidationRecord"
LC = "marginfi_type_crate::types::liquidation_record::LiquidationCache"
INSTR = "solana_instruction::Instruction"

EXCLUSIVE_EXPECT = {"marginfi_account_init_liq_record", "lending_account_withdraw", "lending_account_repay", "kamino_withdraw", "drift_withdraw"}
ALLOWED_PROGRAM_CONSTS = {"marginfi::COMPUTE_PROGRAM_KEY", "id_crate::ID", "kamino_mocks::ID", "marginfi::DRIFT_PROGRAM_ID", "marginfi::JUP_KEY", "marginfi::TITAN_KEY", "marginfi::ASSOCIATED_TOKEN_KEY"}


def _name(f, t):
    ci = f.dinfo(t["res"]) if t.get("res") is not None else (f.dinfo(t["raw"]) if "raw" in t else None)
    return ci["name"] if ci else ""


def run(ctx):
    prog = ctx.prog
    am = ctx.am
    h2n = {hashlib.sha256(("global:" + n).encode()).digest()[:8].hex(): n for n in am.instructions}
    disc = {}
    for k, c in prog.consts.items():
        if "::ix_discriminators::" in k:
            v = c["v"]
            hx = (v.get("mem") or {}).get("hex") if v else None
            disc[k.split("::")[-1]] = hx
    # ------------------------------------------------------------ R2 discriminator table
    for nm, hx in sorted(disc.items()):
        ctx.inst("C10.R2", "discriminator/" + nm, hx in h2n, "ix_discriminators::%s is the Anchor discriminator of an existing instruction" % nm, "%s -> %s" % (hx, h2n.get(hx)), None)
    ctx.floor("C10.R2", 10)
    try:
        vi = ctx.fn("C10.R1", {"name": "validate_instructions", "crate": "marginfi"})
    except Exception:
        return
    # ------------------------------------------------------------ R1
    need = ["load_and_validate_instructions", "validate_ix_first", "validate_ix_last", "validate_ixes_exclusive", "validate_not_cpi_by_stack_height", "validate_not_cpi_with_sysvar"]
    for nm in need:
        call_on_all_paths(ctx, "C10.R1", "validator/" + nm, vi, {"name": nm, "crate": "marginfi"}, "every successful introspection passes the checked %s" % nm)
    ev = A.error_variant_blocks(vi, "StartNotFirst")
    atoms = A.guard_atoms(prog, vi, ev, ctx.slicer) if ev else []
    g = [a for a in atoms if a.kind == "cmp" and a.rel == "le" and a.rhs.has_call(prog, {"name": "validate_not_cpi_with_sysvar"}) and a.lhs.has_call(prog, {"name": "len"})]
    ctx.inst("C10.R1", "start-before-last", bool(g) and A.must_pass(vi, [a.switch[0] for a in g])[0], "error_if(current index >= number of instructions - 1)", [a.describe() for a in atoms][:3], vi.loc(vi.raw["span"]))

    def cnames(pv):
        return {k.split("::")[-1] for k in pv.consts}
    calls = {c.callee["name"]: c for c in vi.calls() if c.callee and c.callee["name"] in need}
    # argument wiring of the validators
    if "validate_ix_first" in calls:
        c = calls["validate_ix_first"]
        a = [ctx.slicer.operand(vi, x, at=c.block) for x in c.args]
        ok = a[0].has_call(prog, {"name": "load_and_validate_instructions"}) and a[1].params == {2} and a[2].params == {3}
        ctx.inst("C10.R1", "first/args", ok, "validate_ix_first(loaded ixes, program_id, start discriminator, allowed leading ixs)", "", c.loc)
        lead = a[3]
        want = {hashlib.sha256(("global:" + n).encode()).digest()[:8].hex(): n for n in ("refresh_reserve", "refresh_obligation", "update_spot_market_cumulative_interest")}
        want[disc.get("INIT_LIQUIDATION_RECORD")] = "marginfi_account_init_liq_record"
        got = {x for x in lead.cvals if len(x) == 16}
        progs = {k.split("::")[0] + "::" + k.split("::")[-1] for k in lead.consts if k.endswith("::ID") or k.endswith("_ID")}
        ok = got == set(want) and not lead.params
        ctx.inst("C10.R2", "allowed-leading-ixs", ok, "only Kamino refresh reserve/obligation, Drift spot-market interest update and init-liquidation-record may precede the start",
                 "discriminators=%s programs=%s" % (sorted(want.get(x, x) for x in got), sorted(progs)), c.loc)
    if "validate_ix_last" in calls:
        c = calls["validate_ix_last"]
        a = [ctx.slicer.operand(vi, x, at=c.block) for x in c.args]
        ctx.inst("C10.R1", "last/args", a[0].has_call(prog, {"name": "load_and_validate_instructions"}) and a[1].params == {2} and a[2].params == {4}, "validate_ix_last(loaded ixes, program_id, end discriminator)", "", c.loc)
    if "validate_ixes_exclusive" in calls:
        c = calls["validate_ixes_exclusive"]
        a = [ctx.slicer.operand(vi, x, at=c.block) for x in c.args]
        names = {h2n.get(disc.get(n)) for n in cnames(a[2]) if n in disc}
        ok = names == EXCLUSIVE_EXPECT and a[2].params == {3, 4} and a[1].params == {2}
        ctx.inst("C10.R2", "exclusive-allow-list", ok, "only start, end, init-record, withdraw, repay, kamino withdraw and drift withdraw of this program may appear in the bracket",
                 "resolved instructions: %s params=%s" % (sorted(str(x) for x in names), sorted(a[2].params)), c.loc)
    if "load_and_validate_instructions" in calls:
        c = calls["load_and_validate_instructions"]
        a = ctx.slicer.operand(vi, c.args[1], at=c.block)
        ids = {k.split("::")[0] + "::" + k.split("::")[-1] for k in a.consts}
        ok = ids == ALLOWED_PROGRAM_CONSTS and ("core::option::Option", "Some") in a.variants and ("core::option::Option", "None") not in a.variants
        ctx.inst("C10.R2", "allowed-programs", ok, "transaction may only contain instructions of the frozen program set (passed as Some(..))", sorted(ids), c.loc)
        ctx.inst("C10.R1", "sysvar-arg", ctx.slicer.operand(vi, c.args[0], at=c.block).params == {1}, "instructions are loaded from the sysvar handed to the routine", "", c.loc)
    # callers pass their own pair, after the snapshot
    for ixn, s, e in (("start_liquidation", "START_LIQUIDATION", "END_LIQUIDATION"), ("start_deleverage", "START_DELEVERAGE", "END_DELEVERAGE")):
        try:
            ix = ctx.ix("C10.R1", ixn)
        except Exception:
            continue
        h = ix["handlers"][0]
        skey = ix["struct"].key
        cs = [c for c in h.calls() if c.key == vi.key]
        probs = []
        if len(cs) != 1:
            probs.append("%d calls to the introspection routine" % len(cs))
        else:
            c = cs[0]
            a = [ctx.slicer.operand(h, x, at=c.block) for x in c.args]
            if cnames(a[2]) != {s} or cnames(a[3]) != {e}:
                probs.append("discriminators passed: %s / %s" % (sorted(cnames(a[2])), sorted(cnames(a[3]))))
            if acct_fields(a[0], skey) != ["instruction_sysvar"]:
                probs.append("sysvar argument %s" % acct_fields(a[0], skey))
            if not a[1].has_field("anchor_lang::context::Context", "program_id"):
                probs.append("program id is not ctx.program_id")
            if not A.must_pass(h, [c.block])[0] or not A.consumed(h, c.block)[0]:
                probs.append("introspection can be skipped or its result is dropped")
            sr = [x for x in h.calls() if x.callee and x.callee["name"] == "start_receivership"]
            if not sr or not A.must_pass(h, [x.block for x in sr])[0] or not all(A.consumed(h, x.block)[0] for x in sr):
                probs.append("snapshot routine not on every successful path / unchecked")
        sv = ix["struct"].field("instruction_sysvar")
        if sv is None or not any(c.kind == "address" and "sysvar::instructions::id" in c.expr.replace(" ", "") for c in sv.cons):
            probs.append("instruction_sysvar is not address-constrained to the instructions sysvar")
        ctx.inst("C10.R1", "start/" + ixn, not probs, "%s validates the transaction shape with its own start/end discriminators on the real instructions sysvar" % ixn, "; ".join(probs) or "ok", h.loc(h.raw["span"]))
    for ixn in ("end_liquidation", "end_deleverage"):
        try:
            h = ctx.handler("C10.R1", ixn)
        except Exception:
            continue
        call_on_all_paths(ctx, "C10.R1", "end-not-cpi/" + ixn, h, {"name": "validate_not_cpi_by_stack_height"}, "%s refuses to run via CPI" % ixn)
    # discriminator comparisons use data[0..8] and the program id
    for fn, hash_param in (("validate_ix_first", 3), ("validate_ix_last", 3), ("validate_ixes_exclusive", 3)):
        fs = prog.find_fns({"name": fn, "crate": "marginfi"})
        if len(fs) != 1:
            ctx.missing("C10.R1", fn)
            continue
        f = fs[0]
        scope = [f]
        grew_ = True
        while grew_:           # closures of f, transitively (a comparison closure nested in a try_for_each / for_each closure)
            grew_ = False
            keys_ = {g_.key for g_ in scope}
            for g_ in prog.fns.values():
                if g_.info.get("closure_of") in keys_ and g_.key not in keys_:
                    scope.append(g_)
                    grew_ = True
        ncmp = 0
        bad = []
        for g_ in scope:
            for bi, bb in enumerate(g_.blocks):
                t = bb["t"]
                if t["k"] != "call" or _name(g_, t) not in ("eq", "ne") or len(t["args"]) != 2:
                    continue
                pa = [ctx.slicer.operand(g_, x, at=bi) for x in t["args"]]
                is_hash = [hash_param in p.params or (g_ is not f and 2 in p.params and not p.fields) for p in pa]
                is_data = [p.has_field(INSTR, "data") for p in pa]
                if any(is_data) and any(is_hash) or (g_ is not f and any(is_data)):
                    ncmp += 1
                    d = pa[is_data.index(True)]
                    sliced = d.has_call(prog, {"name": "index"}) and {0, 8} <= d.ints and ("core::ops::range::Range", "Range") in d.variants
                    if not sliced:
                        bad.append(g_.bloc(bi))
        # closure comparing `h == discrim` where discrim is a captured slice: the captured operand is sliced in the parent
        for pf in scope:
            for bi, bb in enumerate(pf.blocks):
                for s in bb["s"]:
                    v = s.get("v")
                    if v and v["r"] == "agg" and v.get("ak") == "closure":
                        cl = prog.fns.get(pf.dinfo(v["def"])["key"])
                        if cl is None or not any(_name(cl, b2["t"]) in ("eq", "ne") for b2 in cl.blocks if b2["t"]["k"] == "call"):
                            continue
                        for o in v["a"]:
                            d = ctx.slicer.operand(pf, o, at=bi)
                            if d.has_field(INSTR, "data"):
                                ncmp += 1
                                if not (d.has_call(prog, {"name": "index"}) and {0, 8} <= d.ints and ("core::ops::range::Range", "Range") in d.variants):
                                    bad.append(pf.bloc(bi))
        ctx.inst("C10.R1", "discriminator-compare/" + fn, ncmp >= 1 and not bad, "every comparison of instruction data against an expected discriminator uses exactly data[0..8]",
                 "comparisons=%d not-sliced=%s" % (ncmp, bad), f.loc(f.raw["span"]))
    vl = prog.find_fns({"name": "validate_ix_last", "crate": "marginfi"})
    if len(vl) == 1:
        f = vl[0]
        ev = A.error_variant_blocks(f, "EndNotLast")
        atoms = A.guard_atoms(prog, f, ev, ctx.slicer) if ev else []
        pid = [a for a in atoms if a.kind == "cmp" and a.rel == "ne" and ((a.lhs.has_field(INSTR, "program_id") and a.rhs.params == {2}) or (a.rhs.has_field(INSTR, "program_id") and a.lhs.params == {2}))]
        dsc = [a for a in atoms if a.kind == "cmp" and a.rel == "ne" and ((a.lhs.has_field(INSTR, "data") and 3 in a.rhs.params) or (a.rhs.has_field(INSTR, "data") and 3 in a.lhs.params))]
        ln = [a for a in atoms if a.kind == "cmp" and a.rel == "lt" and a.lhs.has_field(INSTR, "data") and 8 in a.rhs.ints]
        lastc = [c for c in f.calls() if c.callee and c.callee["name"] == "last"]
        for nm, g_ in (("program-id", pid), ("discriminator", dsc), ("length", ln)):
            ctx.inst("C10.R1", "last/" + nm, bool(g_) and A.must_pass(f, [a.switch[0] for a in g_])[0], "the last instruction's %s is checked on every successful path (EndNotLast)" % nm, [a.describe() for a in atoms][:4] if not g_ else "ok", f.loc(f.raw["span"]))
        ctx.inst("C10.R1", "last/uses-last", bool(lastc), "the instruction examined is the last of the transaction", "", f.loc(f.raw["span"]))
    vf = prog.find_fns({"name": "validate_ix_first", "crate": "marginfi"})
    if len(vf) == 1:
        f = vf[0]
        ev = A.error_variant_blocks(f, "StartRepeats")
        conds = []
        for e_ in ev:
            conds += A.guard_atoms(prog, f, [e_], ctx.slicer) + A.edge_conditions_to(prog, f, e_, ctx.slicer, limit=30)
        pid = [a for a in conds if a.kind == "cmp" and a.rel == "eq" and ((a.lhs.has_field(INSTR, "program_id") and 2 in a.rhs.params) or (a.rhs.has_field(INSTR, "program_id") and 2 in a.lhs.params))]
        dsc = [a for a in conds if a.kind == "cmp" and a.rel == "eq" and ((a.lhs.has_field(INSTR, "data") and 3 in a.rhs.params) or (a.rhs.has_field(INSTR, "data") and 3 in a.lhs.params))]
        ctx.inst("C10.R1", "start-repeats", bool(ev) and bool(pid) and bool(dsc), "a second instruction with this program id and the start discriminator is rejected (StartRepeats)",
                 [a.describe() for a in conds if a.kind == "cmp"][:4], f.bloc(ev[0]) if ev else None)
        ev2 = A.error_variant_blocks(f, "StartNotFirst")
        ctx.inst("C10.R1", "start-not-first", len(ev2) >= 2, "a non-allowed first instruction, a short instruction or a missing start are rejected (StartNotFirst)", "%d sites" % len(ev2), f.loc(f.raw["span"]))
        # compute-budget skip compares the program id with COMPUTE_PROGRAM_KEY only
    # ------------------------------------------------------------ R3 flag ownership
    def flag_calls(name, flag):
        out = []
        for k, f in prog.fns.items():
            if f.info["crate"] != "marginfi":
                continue
            for c in f.calls():
                if c.callee and c.callee["name"] == name and (c.callee.get("self_adt") or "").endswith("MarginfiAccount") and len(c.args) > 1:
                    if ctx.slicer.operand(f, c.args[1], at=c.block).has_const(flag):
                        out.append((f, c))
        return out
    sr = prog.find_fns({"name": "start_receivership", "crate": "marginfi"})
    er = prog.find_fns({"name": "end_receivership", "crate": "marginfi"})
    if len(sr) != 1 or len(er) != 1:
        ctx.missing("C10.R3", "start_receivership / end_receivership")
        return
    sr, er = sr[0], er[0]
    for nm, flag, owner in (("set_flag", "ACCOUNT_IN_RECEIVERSHIP", sr.key), ("unset_flag", "ACCOUNT_IN_RECEIVERSHIP", er.key)):
        fc = flag_calls(nm, flag)
        okown = {f.key for f, _ in fc} == {owner}
        f0 = prog.fns[owner]
        okall = A.must_pass(f0, [c.block for f, c in fc if f.key == owner])[0] if fc else False
        ctx.inst("C10.R3", "%s(%s)" % (nm, flag), okown and okall, "%s(%s) happens only in %s and on all its successful paths" % (nm, flag, owner.split("::")[-1]), sorted({f.key for f, _ in fc}), fc[0][1].loc if fc else None)
    sdh = am.ix("start_deleverage")["handlers"][0] if am.ix("start_deleverage") else None
    edh = am.ix("end_deleverage")["handlers"][0] if am.ix("end_deleverage") else None
    if sdh and edh:
        for nm, owner in (("set_flag", sdh), ("unset_flag", edh)):
            fc = flag_calls(nm, "ACCOUNT_IN_DELEVERAGE")
            okown = {f.key for f, _ in fc} == {owner.key}
            okall = A.must_pass(owner, [c.block for f, c in fc if f.key == owner.key])[0] if fc else False
            ctx.inst("C10.R3", "%s(ACCOUNT_IN_DELEVERAGE)" % nm, okown and okall, "%s(ACCOUNT_IN_DELEVERAGE) happens only in %s and on all its successful paths" % (nm, owner.name), sorted({f.key for f, _ in fc}), None)
    # routines called from exactly their handlers
    for f0, expect in ((sr, {"start_liquidation", "start_deleverage"}), (er, {"end_liquidation", "end_deleverage"})):
        callers = {k for k, f in prog.fns.items() if any(c.key == f0.key for c in f.calls())}
        ok = callers == {am.ix(n)["handlers"][0].key for n in expect if am.ix(n)}
        ctx.inst("C10.R3", "callers/" + f0.name, ok, "%s is called only by %s" % (f0.name, sorted(expect)), sorted(callers), None)
        for k in callers:
            f = prog.fns[k]
            cs = [c for c in f.calls() if c.key == f0.key]
            ctx.inst("C10.R3", "call-checked/%s@%s" % (f0.name, f.name), A.must_pass(f, [c.block for c in cs])[0] and all(A.consumed(f, c.block)[0] for c in cs), "%s runs the checked %s on every successful path" % (f.name, f0.name), "", cs[0].loc)
    # receiver
    for ixn, src in (("start_liquidation", "liquidation_receiver"), ("start_deleverage", "risk_admin")):
        ix = am.ix(ixn)
        if not ix:
            continue
        h = ix["handlers"][0]
        st_ = field_stores(ctx, h, LR, "liquidation_receiver")
        ok = len(st_) == 1 and acct_fields(st_[0][2], ix["struct"].key) == [src] and A.must_pass(h, [st_[0][0]])[0]
        ctx.inst("C10.R3", "receiver-recorded/" + ixn, ok, "%s records %s as the receiver" % (ixn, src), [acct_fields(x[2], ix["struct"].key) for x in st_], h.loc(h.raw["span"]))
    st_ = field_stores(ctx, er, LR, "liquidation_receiver")
    ok = len(st_) == 1 and not st_[0][2].params and (st_[0][2].has_call(prog, {"name": "default"})) and A.must_pass(er, [st_[0][0]])[0]
    ctx.inst("C10.R3", "receiver-cleared", ok, "the end routine resets the receiver to the default key on every successful path", [A._pvs(x[2]) for x in st_], er.loc(er.raw["span"]))
    # constraints
    def pred_of(st, fld):
        f = st.field(fld)
        return [c.expr.replace(" ", "") for c in (f.cons if f else []) if c.kind == "pred"]
    START_P = "!marginfi_account.load()?.get_flag(ACCOUNT_IN_RECEIVERSHIP)&&!marginfi_account.load()?.get_flag(ACCOUNT_IN_FLASHLOAN)&&!marginfi_account.load()?.get_flag(ACCOUNT_DISABLED)"
    END_P = "marginfi_account.load()?.get_flag(ACCOUNT_IN_RECEIVERSHIP)&&!marginfi_account.load()?.get_flag(ACCOUNT_IN_FLASHLOAN)&&!marginfi_account.load()?.get_flag(ACCOUNT_DISABLED)"
    for ixn, want in (("start_liquidation", START_P), ("start_deleverage", START_P), ("end_liquidation", END_P), ("end_deleverage", END_P)):
        ix = am.ix(ixn)
        if not ix:
            ctx.missing("C10.R3", ixn)
            continue
        st = ix["struct"]
        ps = [p.replace("(", "").replace(")", "") for p in pred_of(st, "marginfi_account")]
        ws = [w_.replace("(", "").replace(")", "") for w_ in want.split("&&")]      # every conjunct is its own normalised constraint
        ctx.inst("C10.R3", "account-state/" + ixn, all(w_ in ps for w_ in ws), "%s requires %s" % (ixn, "a clean account (no receivership/flash loan/disabled)" if ixn.startswith("start") else "an account in receivership (not in flash loan, not disabled)"), ps, "%s:%d" % (st.file, st.line))
        mf = st.field("marginfi_account")
        rb = [c for c in (mf.cons if mf else []) if c.kind == "keyeq" and c.f == "liquidation_record" and c.b == "liquidation_record"]
        ctx.inst("C10.R3", "record-bound/" + ixn, bool(rb), "the liquidation record is the account's own record", "", "%s:%d" % (st.file, st.line))
    el = am.ix("end_liquidation")
    if el:
        st = el["struct"]
        rf = st.field("liquidation_record")
        kb = [c for c in (rf.cons if rf else []) if c.kind == "keyeq" and c.f == "liquidation_receiver" and c.b == "liquidation_receiver"]
        sf = st.field("liquidation_receiver")
        ctx.inst("C10.R3", "end-liquidation/receiver-signs", bool(kb) and sf is not None and sf.ctor == "Signer", "only the recorded receiver (a Signer) can end the liquidation", "", "%s:%d" % (st.file, st.line))
    for ixn in ("start_deleverage", "end_deleverage"):
        ix = am.ix(ixn)
        if not ix:
            continue
        st = ix["struct"]
        gb = [c for f, c in st.all_constraints() if c.kind == "keyeq" and c.a == "group" and c.f == "risk_admin" and c.b == "risk_admin"]
        ab = [c for f, c in st.all_constraints() if c.kind == "keyeq" and c.a == "marginfi_account" and c.f == "group" and c.b == "group"]
        sf = st.field("risk_admin")
        ok = bool(gb) and bool(ab) and sf is not None and sf.ctor == "Signer"
        if ixn == "end_deleverage":
            ok = ok and any(c.kind == "keyeq" and c.a == "liquidation_record" and c.f == "liquidation_receiver" and c.b == "risk_admin" and not getattr(c, "neg", False) for f, c in st.all_constraints())
        ctx.inst("C10.R3", "risk-admin/" + ixn, ok, "%s: group.risk_admin signs, the account belongs to that group%s" % (ixn, ", the record's receiver is the risk admin" if ixn == "end_deleverage" else ""), "", "%s:%d" % (st.file, st.line))

    # ------------------------------------------------------------ R4 guards
    pre = {"name": "check_pre_liquidation_condition_and_get_account_health"}
    for f0 in (sr, er):
        pc = [c for c in f0.calls() if match_def(c.callee, pre)]
        probs = []
        if len(pc) != 1:
            probs.append("%d maintenance-health checks" % len(pc))
        else:
            c = pc[0]
            ih = ctx.slicer.operand(f0, c.args[3], at=c.block)
            bk = ctx.slicer.operand(f0, c.args[1], at=c.block)
            if ih.params != {4} or ih.calls or ih.ints:
                probs.append("ignore_healthy is not the routine's parameter")
            if ("core::option::Option", "None") not in bk.variants or ("core::option::Option", "Some") in bk.variants:
                probs.append("bank argument is not None")
            if not A.must_pass(f0, [c.block])[0] or not A.consumed(f0, c.block)[0]:
                probs.append("check skipped or unchecked")
        ctx.inst("C10.R4", "maint-check/" + f0.name, not probs, "%s evaluates the maintenance-health condition with the caller's ignore_healthy" % f0.name, "; ".join(probs) or "ok", f0.loc(f0.raw["span"]))
    for ixn, f0, want in (("start_liquidation", sr, 0), ("start_deleverage", sr, 1), ("end_deleverage", er, 1)):
        ix = am.ix(ixn)
        if not ix:
            continue
        h = ix["handlers"][0]
        for c in h.calls():
            if c.key == f0.key:
                pv = ctx.slicer.operand(h, c.args[3], at=c.block)
                ctx.inst("C10.R4", "ignore-healthy/" + ixn, pv.ints == {want} and not pv.params and not pv.fields, "%s passes ignore_healthy = %s" % (ixn, bool(want)), A._pvs(pv), c.loc)
    if el:
        h = el["handlers"][0]
        for c in h.calls():
            if c.key == er.key:
                # ignore_healthy = pre_assets_equity < LIQUIDATION_CLOSEOUT_DOLLAR_THRESHOLD
                dcx = defining_call(h, c.args[3])
                d = (dcx[0], "T") if dcx is not None else None
                ok = False
                found = "shape not recognised"
                if d and d[1] == "T":
                    t = h.blocks[d[0]]["t"]
                    if _name(h, t) in ("lt", "gt", "le", "ge") and len(t["args"]) == 2:
                        a0 = ctx.slicer.operand(h, t["args"][0], at=d[0])
                        a1 = ctx.slicer.operand(h, t["args"][1], at=d[0])
                        nm = _name(h, t)
                        if nm in ("gt", "ge"):
                            a0, a1 = a1, a0
                            nm = {"gt": "lt", "ge": "le"}[nm]
                        ok = nm == "lt" and a0.has_field(LC, "asset_value_equity") and not a0.has_field(LC, "liability_value_equity") and not a0.has_call(prog, {"name": "sub"}) and not a0.has_call(prog, {"name": "checked_sub"}) \
                            and a1.has_const("LIQUIDATION_CLOSEOUT_DOLLAR_THRESHOLD") and not a1.fields
                        found = "%s(%s, %s)" % (nm, A._pvs(a0), A._pvs(a1))
                ctx.inst("C10.R4", "closeout-exemption", ok, "the close-out exemption is exactly (pre-liquidation *asset* equity < LIQUIDATION_CLOSEOUT_DOLLAR_THRESHOLD)", found, c.loc)
        thr = prog.const_by_name("LIQUIDATION_CLOSEOUT_DOLLAR_THRESHOLD")
        got = int(thr[0]["v"]["int"]) / float(1 << 48) if thr and thr[0]["v"] and "int" in thr[0]["v"] else None
        ctx.inst("C10.R4", "const/closeout", got == 5.0, "LIQUIDATION_CLOSEOUT_DOLLAR_THRESHOLD == 5", str(got))
        mn = prog.const_by_name("LIQUIDATION_BONUS_FEE_MINIMUM")
        got = int(mn[0]["v"]["int"]) / float(1 << 48) if mn and mn[0]["v"] and "int" in mn[0]["v"] else None
        ctx.inst("C10.R4", "const/min-bonus", got is not None and abs(got - 0.05) < 1e-9, "LIQUIDATION_BONUS_FEE_MINIMUM == 0.05", str(got))
        ev = A.error_variant_blocks(h, "LiquidationPremiumTooHigh")
        atoms = A.guard_atoms(prog, h, ev, ctx.slicer) if ev else []
        conds = A.edge_conditions_to(prog, h, ev[0], ctx.slicer, limit=30) if ev else []
        g = [a for a in atoms if a.kind == "cmp" and a.rel == "lt" and a.lhs.has_call(prog, {"name": "mul"}) and a.lhs.has_call(prog, {"name": "max"}) and a.lhs.has_const("LIQUIDATION_BONUS_FEE_MINIMUM")
             and a.lhs.has_field("FeeState", "liquidation_max_fee") and a.lhs.has_call(prog, {"name": "end_receivership"}) and a.rhs.has_call(prog, {"name": "end_receivership"}) and not a.rhs.has_call(prog, {"name": "mul"})]
        ctx.inst("C10.R4", "premium-atom", len(g) == 1, "error_if(seized > repaid * max(1 + max fee, 1 + minimum bonus))", [a.describe() for a in atoms][:2], h.bloc(ev[0]) if ev else None)
        if g:
            # operands: seized = component 0, repaid = component 2 of the end routine's result
            sw = g[0].switch[0]
            # skipped only on the exemption edge
            ex = [a for a in A.edge_conditions_to(prog, h, sw, ctx.slicer, limit=30) if a.kind in ("bool", "call", "cmp")]
            can, w = A.can_succeed_avoiding(h, [sw])
            skipok = False
            if can:
                # the avoiding path must use an edge whose condition is the exemption bool being true
                edges = set()
                for bi, bb in enumerate(h.blocks):
                    t = bb["t"]
                    if t["k"] != "switch":
                        continue
                    p = op_place(t["on"])
                    if not p or p.get("p"):
                        continue
                    pv = ctx.slicer.local(h, p["l"], at=bi)
                    if pv.has_const("LIQUIDATION_CLOSEOUT_DOLLAR_THRESHOLD") and h.local_ty(p["l"])["s"] == "bool":
                        for (v, b) in t["arms"]:
                            pass
                        edges |= {(bi, b) for b in A.term_succ(t)}
                can2, _ = A.can_succeed_avoiding(h, [sw], removed_edges=edges)
                skipok = bool(edges) and not can2
            ctx.inst("C10.R4", "premium-skip-only-exempt", (not can) or skipok, "the premium cap is skipped only through the close-out exemption branch", "", h.bloc(sw))
    # end routine wiring
    ev = A.error_variant_blocks(er, "WorseHealthPostLiquidation")
    atoms = A.guard_atoms(prog, er, ev, ctx.slicer) if ev else []
    g = [a for a in atoms if a.kind == "cmp" and a.rel == "lt" and a.lhs.has_call(prog, pre) and not a.lhs.has_field(LC, "asset_value_maint") and a.rhs.has_field(LC, "asset_value_maint") and a.rhs.has_field(LC, "liability_value_maint")
         and not a.rhs.has_field(LC, "asset_value_equity")]
    ctx.inst("C10.R4", "not-worse-atom", len(g) == 1 and A.must_pass(er, [g[0].switch[0]])[0], "error_if(pre maintenance health > post maintenance health) on every successful end", [a.describe() for a in atoms][:2], er.bloc(ev[0]) if ev else None)
    # exact operands of the not-worse comparison: post = the check's health component, pre = snapshot assets - snapshot liabilities
    okx = False
    for c in er.calls():
        if c.callee and c.callee["name"] in ("gt", "lt", "ge", "le") and len(c.args) == 2:
            dcs = [defining_call(er, a_) for a_ in c.args]
            nms = [er.dinfo(d_[1]["res"] if d_[1].get("res") is not None else d_[1]["raw"])["name"] if d_ else None for d_ in dcs]
            if "check_pre_liquidation_condition_and_get_account_health" in nms and "sub" in nms:
                post_i = nms.index("check_pre_liquidation_condition_and_get_account_health")
                okx = tuple(dcs[post_i][2]) == (0, 0) and ((c.callee["name"] == "gt" and post_i == 1) or (c.callee["name"] == "lt" and post_i == 0))
    ctx.inst("C10.R4", "not-worse-operands", okx, "the comparison is exactly pre_health > post_health with post_health the check's own health value and pre_health = snapshot assets - liabilities", "", er.loc(er.raw["span"]))
    s0 = ctx.slicer.local(er, 0, path=(0, 0))
    s2 = ctx.slicer.local(er, 0, path=(0, 2))
    ok0 = s0.has_field(LC, "asset_value_equity") and not s0.has_field(LC, "liability_value_equity") and s0.has_call(prog, {"name": "get_account_health_components"}) and s0.has_call(prog, {"name": "sub"})
    ok2 = s2.has_field(LC, "liability_value_equity") and not s2.has_field(LC, "asset_value_equity") and s2.has_call(prog, {"name": "get_account_health_components"}) and s2.has_call(prog, {"name": "sub"})
    ctx.inst("C10.R4", "seized-repaid-wiring", ok0 and ok2, "seized = pre asset equity - post asset equity; repaid = pre liability equity - post liability equity", "seized=%s repaid=%s" % (A._pvs(s0), A._pvs(s2)), er.loc(er.raw["span"]))
    for c in er.calls():
        if c.callee and c.callee["name"] == "get_account_health_components":
            vs, _ = variant_arg(ctx, er, c, 1, "RiskRequirementType")
            ctx.inst("C10.R4", "end/equity-components", vs == {"Equity"}, "seized/repaid are measured in Equity terms", sorted(vs), c.loc)
    # snapshot wiring at start
    snap = {"asset_value_maint": (pre, (0, 1)), "liability_value_maint": (pre, (0, 2))}
    for fld in ("asset_value_maint", "liability_value_maint", "asset_value_equity", "liability_value_equity"):
        st_ = field_stores(ctx, sr, LC, fld)
        ok = len(st_) == 1
        if ok:
            pv = st_[0][2]
            if fld.endswith("_maint"):
                ok = pv.has_call(prog, pre) and not pv.has_call(prog, {"name": "get_account_health_components"}) or pv.has_call(prog, pre)
                dc = defining_call(sr, st_[0][1]["v"]["a"][0]) if "v" in st_[0][1] and st_[0][1]["v"].get("a") else None
            else:
                ok = pv.has_call(prog, {"name": "get_account_health_components"})
            aspec, lspec = {"name": "calc_weighted_asset_value"}, {"name": "calc_weighted_liab_value"}
            if fld.startswith("asset"):
                ok = ok and pv.has_call(prog, aspec) and not pv.has_call(prog, lspec)
            else:
                ok = ok and pv.has_call(prog, lspec) and not pv.has_call(prog, aspec)
        ctx.inst("C10.R4", "snapshot/" + fld, ok, "the start snapshot stores the matching component in %s" % fld, [A._pvs(x[2]) for x in st_][:1], sr.loc(sr.raw["span"]))

    # ------------------------------------------------------------ R5 sibling restrictions inside / around the bracket
    ZERO_W = "!(marginfi_account.load()?.get_flag(ACCOUNT_IN_RECEIVERSHIP)&&bank.load()?.config.asset_weight_init.into()==I80F48::ZERO)"
    for ixn in ("lending_account_withdraw", "kamino_withdraw", "drift_withdraw", "solend_withdraw"):
        ix = am.ix(ixn)
        if not ix:
            ctx.missing("C10.R5", ixn)
            continue
        ps = pred_of(ix["struct"], "bank")
        ctx.inst("C10.R5", "no-zero-weight-withdraw/" + ixn, ZERO_W in ps, "%s refuses zero-weight collateral while the account is in receivership" % ixn, ps[-1:] if ps else [], "%s:%d" % (ix["struct"].file, ix["struct"].line))
    # instructions that must refuse an account in receivership
    def handler_refuses(h, depth=1):
        for bi, bb in enumerate(h.blocks):
            t = bb["t"]
            if t["k"] != "switch":
                continue
            for arm in [int(a) for a, _ in t["arms"]] + ["else"]:
                at = A.atom_of_edge(prog, h, bi, arm, ctx.slicer)
                if at.kind == "call" and at.callee.endswith("::get_flag") and at.truth is True and len(at.args) > 1 and at.args[1].has_const("ACCOUNT_IN_RECEIVERSHIP"):
                    tgt = [b for a2, b in t["arms"] if int(a2) == arm][0] if arm != "else" else t["else"]
                    if not A.can_succeed_avoiding(h, [], start=tgt)[0] and A.must_pass(h, [bi])[0]:
                        return True
        if depth > 0:
            for c in h.calls():
                if c.key in prog.fns and c.callee["crate"] == "marginfi" and A.must_pass(h, [c.block])[0] and A.consumed(h, c.block)[0]:
                    if handler_refuses(prog.fns[c.key], depth - 1):
                        return True
        return False
    for ixn, accts in (("lending_account_deposit", ["marginfi_account"]), ("lending_account_borrow", ["marginfi_account"]), ("kamino_deposit", ["marginfi_account"]), ("drift_deposit", ["marginfi_account"]),
                       ("solend_deposit", ["marginfi_account"]), ("lending_account_start_flashloan", ["marginfi_account"]), ("transfer_to_new_account", ["old_marginfi_account"]),
                       ("transfer_to_new_account_pda", ["old_marginfi_account"]), ("lending_account_liquidate", ["liquidator_marginfi_account", "liquidatee_marginfi_account"]),
                       ("lending_pool_handle_bankruptcy", ["marginfi_account"])):
        ix = am.ix(ixn)
        if not ix:
            ctx.missing("C10.R5", ixn)
            continue
        for ac in accts:
            ps = pred_of(ix["struct"], ac)
            byc = any(p.replace("(", "").replace(")", "") == "!%s.load?.get_flagACCOUNT_IN_RECEIVERSHIP" % ac for p in ps) or any(("!%s.load()?.get_flag(ACCOUNT_IN_RECEIVERSHIP)" % ac) in p and "||" not in p for p in ps)
            byh = handler_refuses(ix["handlers"][0]) if len(accts) == 1 else False
            # is_signer_authorized(.., false) also refuses a stranger but not the authority; the explicit flag test is required
            ctx.inst("C10.R5", "refuses-receivership/%s/%s" % (ixn, ac), byc or byh, "%s refuses an account that is in receivership" % ixn, "constraint=%s handler=%s" % (byc, byh), "%s:%d" % (ix["struct"].file, ix["struct"].line))
    ctx.floor("C10.R5", 14)


_run_pre_leaves = run


def run(ctx):
    from .kernels import check_leaves
    try:
        _run_pre_leaves(ctx)
    finally:
        # leaf helpers this property's rules treat by name, pinned as complete path tables
        check_leaves(ctx, "C10.K", ['account.get_flag', 'account.set_flag', 'account.unset_flag'])


_run_pre_scan = run


def run(ctx):
    try:
        _run_pre_scan(ctx)
    finally:
        for nm, it in (("validate_ix_first", r"iter\(p1\)"), ("validate_ixes_exclusive", r"iter\(p1\)")):
            for f in ctx.prog.find_fns({"name": nm, "crate": "marginfi"}):
                check_full_scan(ctx, "C10.R1", "full-scan/" + nm, f, it, "%s examines every instruction of the transaction it is given" % nm)
