"""C13 Accepted configurations are coherent (structural clauses only)."""
from engine import analysis as A
from engine.model import op_place
from .common import *

INFO = {
    "explanation": "Decided statically: (R1) validate-after-write: in every instruction whose write-set meets the validated BankConfig fields "
                   "(weights, risk tier, oracle max age) every such write is followed on all successful paths by the checked BankConfig validator; "
                   "in every instruction that writes e-mode entries / settings or liability weights of an existing bank, the write is followed by the "
                   "checked e-mode entry validation against that same bank's config and the group's two leverage caps; (R2) validator content as "
                   "canonical guard atoms: BankConfig::validate (9 atoms + interest validator + isolated => zero weights + oracle age), the e-mode "
                   "entry validator (weights, two leverage caps wired init->init / maint->maint, duplicate check), calculate_max_leverage, group "
                   "configure leverage bounds; (R3) killed state terminal (shared with C07.R5). Not decided: 'initially healthy => maintenance "
                   "healthy' as arithmetic over weights.",
    "assumptions": ["numeric meaning of the accepted weight ranges is not evaluated"],
}
T = "marginfi_type_crate::types::"
WEIGHTS = ["asset_weight_init", "asset_weight_maint", "liability_weight_init", "liability_weight_maint"]
VALIDATED = lambda o, n: o == BANKCFG and n in WEIGHTS + ["risk_tier", "oracle_max_age"]
EMS = T + "emode::EmodeSettings"
# entries of a *bank's* e-mode settings (EmodeEntry / EmodeConfig values alone are risk-engine scratch copies) or its liability weights
EMODE_W = lambda o, n: (o, n) == (EMS, "emode_config") or (o, n) == (BANK, "=emode") or (o == BANKCFG and n in ("liability_weight_init", "liability_weight_maint"))


def unvalidated_writes(prog, f, wpred, vreach, vkey, depth=3):
    """write blocks of f (matching wpred, transitively) after which a successful path reaches the end without a
    validator call; a block that both writes and validates (a call into a function doing both) is checked recursively."""
    wb = set(A.write_blocks(prog, f, wpred))
    vb = set(c.block for c in f.calls() if c.key in vreach or (c.closure and c.closure in vreach))
    bad = []
    for b in sorted(wb):
        if b in vb:
            c = [c for c in f.calls() if c.block == b]
            if c and c[0].key in prog.fns and c[0].key != vkey and depth > 0:
                g = prog.fns[c[0].key]
                sub, _, _ = unvalidated_writes(prog, g, wpred, vreach, vkey, depth - 1)
                if sub:
                    bad.append((b, "inside %s: %s" % (g.name, sub[0][1])))
            continue
        for s in f.succ()[b]:
            if A.can_succeed_avoiding(f, vb, start=s)[0]:
                bad.append((b, "write at %s can reach the end without validation" % f.bloc(b)))
                break
    return bad, bool(vb), bool(wb)
EE = T + "emode::EmodeEntry"

R1_EXEMPT = {"lending_pool_clone_bank": "staging/localnet only (diverges elsewhere); copies an already-validated bank",
             "marginfi_account_init_liq_record": "n/a"}
EMODE_EXEMPT = {
    "lending_pool_add_bank": "new bank: e-mode empty", "lending_pool_add_bank_with_seed": "new bank: e-mode empty", "lending_pool_add_bank_permissionless": "new bank: e-mode empty",
    "lending_pool_add_bank_kamino": "new bank: e-mode empty", "lending_pool_add_bank_drift": "new bank: e-mode empty", "lending_pool_add_bank_solend": "new bank: e-mode empty",
    "lending_pool_clone_bank": "staging/localnet only", "start_liquidation": "risk-engine scratch copies (reconcile)", "end_liquidation": "risk-engine scratch copies",
    "start_deleverage": "risk-engine scratch copies", "end_deleverage": "risk-engine scratch copies",
}


def _run(ctx):
    prog = ctx.prog
    bv = prog.find_fns({"name": "validate", "crate": "marginfi", "self_adt": "BankConfig"})
    ev_ = prog.find_fns({"name": "validate_entries_with_liability_weights", "crate": "marginfi", "self_adt": "EmodeSettings"})
    if len(bv) != 1 or len(ev_) != 1:
        ctx.missing("C13.R1", "BankConfig::validate / EmodeSettings::validate_entries_with_liability_weights")
        return
    bv, emv = bv[0], ev_[0]
    bv_reach, _ = prog.fns_reaching({"key": bv.key})
    emv_reach, _ = prog.fns_reaching({"key": emv.key})
    # ------------------------------------------------------------ R1
    n1 = n2 = 0
    for ixn, ent in sorted(ctx.am.instructions.items()):
        if not ent["handlers"]:
            continue
        h = ent["handlers"][0]
        ws = prog.writes(h.key)
        if any(VALIDATED(*w) for w in ws) or (BANK, "*") in ws:
            if ixn in R1_EXEMPT:
                ctx.inst("C13.R1", "validate-after-write/" + ixn, True, "exempt: " + R1_EXEMPT[ixn], "exempt (table)", h.loc(h.raw["span"]))
                continue
            wp = lambda o, n: VALIDATED(o, n) or (o, n) == (BANK, "*")
            bad, hasv, hasw = unvalidated_writes(prog, h, wp, bv_reach, bv.key)
            unchecked = []
            for k in prog.reach(h.key):
                g = prog.fns.get(k)
                if g is not None and g.info["crate"] == "marginfi":
                    unchecked += [c.loc for c in g.calls() if c.key == bv.key and not A.consumed(g, c.block)[0]]
            n1 += 1
            ctx.inst("C13.R1", "validate-after-write/" + ixn, hasv and hasw and not bad and not unchecked,
                     "every write of weights / tier / oracle age in %s is followed by the checked BankConfig validator on all successful paths" % ixn,
                     ("no validator call" if not hasv else (bad[0][1] if bad else ("unchecked at %s" % unchecked if unchecked else "ok"))), h.loc(h.raw["span"]))
        if any(EMODE_W(*w) for w in ws):
            if ixn in EMODE_EXEMPT:
                ctx.inst("C13.R1", "emode-validate-after-write/" + ixn, True, "exempt: " + EMODE_EXEMPT[ixn], "exempt (table)", h.loc(h.raw["span"]))
                continue
            skey = ent["struct"].key
            vcalls = [c for c in h.calls() if c.key == emv.key]
            bad, hasv, hasw = unvalidated_writes(prog, h, EMODE_W, emv_reach, emv.key)
            probs = []
            if not hasv:
                probs.append("no e-mode entry validation")
            elif bad:
                probs.append(bad[0][1])
            for c in vcalls:
                selfp = ctx.slicer.operand(h, c.args[0], at=c.block)
                cfgp = ctx.slicer.operand(h, c.args[1], at=c.block)
                i_p = ctx.slicer.operand(h, c.args[2], at=c.block)
                m_p = ctx.slicer.operand(h, c.args[3], at=c.block)
                sb = [x for x in acct_fields(selfp, skey)]
                cb = [x for x in acct_fields(cfgp, skey)]
                if not selfp.has_field(BANK, "emode") or not cfgp.has_field(BANK, "config") or sb != cb or len(sb) != 1:
                    probs.append("validation is not `bank.emode` against the same bank's `config` (%s vs %s)" % (sb, cb))
                if not (i_p.has_field(GROUP, "emode_max_init_leverage") and not i_p.has_field(GROUP, "emode_max_maint_leverage")):
                    probs.append("init cap argument is not group.emode_max_init_leverage")
                if not (m_p.has_field(GROUP, "emode_max_maint_leverage") and not m_p.has_field(GROUP, "emode_max_init_leverage")):
                    probs.append("maint cap argument is not group.emode_max_maint_leverage")
                if not A.consumed(h, c.block)[0]:
                    probs.append("validation result unchecked")
                # the validated bank is the written bank
                wbank = set()
                for w, sites in prog.writes_direct(h.key).items():
                    pass
            n2 += 1
            ctx.inst("C13.R1", "emode-validate-after-write/" + ixn, not probs,
                     "every write of e-mode settings or liability weights in %s is followed by the checked entry validation against the same bank and the group's caps" % ixn,
                     "; ".join(probs) or "ok", vcalls[0].loc if vcalls else h.loc(h.raw["span"]))
    ctx.floor("C13.R1", 12)

    # ------------------------------------------------------------ R2 validator content
    W = lambda n: only_field(BANKCFG, n, WEIGHTS)
    Z = lambda p: (p.has_const("ZERO") or 0 in p.ints) and not p.fields
    ONE = lambda p: p.has_const("ONE") and not p.fields and not any(o.startswith("Add") for o in p.ops) and not p.has_call(prog, {"name": "add"})
    TWO = lambda p: p.has_const("ONE") and not p.fields and (p.has_call(prog, {"name": "add"}) or any(o.startswith("Add") for o in p.ops))
    IC = "InvalidConfig"
    expect_atom(ctx, "C13.R2", "cfg/asset_init>=0", bv, IC, "lt", W("asset_weight_init"), Z, "error_if(asset_weight_init < 0)")
    expect_atom(ctx, "C13.R2", "cfg/asset_init<=1", bv, IC, "lt", ONE, W("asset_weight_init"), "error_if(asset_weight_init > 1)")
    expect_atom(ctx, "C13.R2", "cfg/asset_maint<=2", bv, IC, "lt", TWO, W("asset_weight_maint"), "error_if(asset_weight_maint > 2)")
    expect_atom(ctx, "C13.R2", "cfg/asset_maint>=init", bv, IC, "lt", W("asset_weight_maint"), W("asset_weight_init"), "error_if(asset_weight_maint < asset_weight_init)")
    expect_atom(ctx, "C13.R2", "cfg/liab_init>=1", bv, IC, "lt", W("liability_weight_init"), ONE, "error_if(liability_weight_init < 1)")
    expect_atom(ctx, "C13.R2", "cfg/liab_maint<=init", bv, IC, "lt", W("liability_weight_init"), W("liability_weight_maint"), "error_if(liability_weight_maint > liability_weight_init)")
    expect_atom(ctx, "C13.R2", "cfg/liab_maint>=1", bv, IC, "lt", W("liability_weight_maint"), ONE, "error_if(liability_weight_maint < 1)")
    expect_atom(ctx, "C13.R2", "cfg/oracle_age", bv, "InvalidOracleSetup", "lt", F(BANKCFG, "oracle_max_age"), Cn("ORACLE_MIN_AGE"), "error_if(oracle_max_age < ORACLE_MIN_AGE)")
    # isolated => both asset weights zero: the two `!= 0` guards are evaluated on every path that takes the Isolated edge
    ev = A.error_variant_blocks(bv, IC)
    atoms = A.guard_atoms(prog, bv, ev, ctx.slicer) if ev else []
    for fld in ("asset_weight_init", "asset_weight_maint"):
        g = [a for a in atoms if a.kind == "cmp" and a.rel == "ne" and ((W(fld)(a.lhs) and Z(a.rhs)) or (W(fld)(a.rhs) and Z(a.lhs)))]
        ok = False
        if g:
            conds = A.edge_conditions_to(prog, bv, g[0].switch[0], ctx.slicer)
            iso = [a for a in conds if (a.kind == "cmp" and a.rel == "eq" and (a.lhs.has_field(BANKCFG, "risk_tier") or a.rhs.has_field(BANKCFG, "risk_tier"))) or
                   (a.kind == "variant" and a.lhs is not None and a.lhs.has_field(BANKCFG, "risk_tier"))]
            # every successful path over the isolated edge passes this guard
            ok = bool(iso)
            for a in iso:
                sw, arm, tgt = a.switch
                if A.can_succeed_avoiding(bv, [g[0].switch[0]], start=tgt)[0]:
                    ok = False
        ctx.inst("C13.R2", "cfg/isolated=>%s==0" % fld, ok, "on an Isolated bank error_if(%s != 0)" % fld, [a.describe() for a in atoms if a.kind == "cmp" and a.rel == "ne"][:3], bv.loc(bv.raw["span"]))
    call_on_all_paths(ctx, "C13.R2", "cfg/interest-validator", bv, {"name": "validate", "self_adt": "InterestRateConfig"}, "BankConfig::validate runs the checked interest-rate validator on every successful path")
    # e-mode entry validator
    BE = "BadEmodeConfig"
    EW = lambda n: only_field(EE, n, ["asset_weight_init", "asset_weight_maint"])
    expect_atom(ctx, "C13.R2", "emode/asset_init>=0", emv, BE, "lt", EW("asset_weight_init"), Z, "error_if(entry.asset_weight_init < 0)", on_all_paths=False)
    expect_atom(ctx, "C13.R2", "emode/maint>=init", emv, BE, "lt", EW("asset_weight_maint"), EW("asset_weight_init"), "error_if(entry.asset_weight_maint < entry.asset_weight_init)", on_all_paths=False)
    cml = prog.find_fns({"name": "calculate_max_leverage", "crate": "marginfi"})
    lc = [c for c in emv.calls() if c.callee and c.callee["name"] == "calculate_max_leverage"]
    gw = {"name": "get_weight"}
    def weight_variant(f, operand, at):
        dc = defining_call(f, operand)
        if dc is None:
            return None, None
        ci = f.dinfo(dc[1]["res"] if dc[1].get("res") is not None else dc[1]["raw"])
        if ci["name"] != "get_weight":
            return None, None
        cs = [c for c in f.calls() if c.block == dc[0]][0]
        rq, _ = variant_arg(ctx, f, cs, 1, "RequirementType")
        sd, _ = variant_arg(ctx, f, cs, 2, "BalanceSide")
        return rq, sd
    seen = {}
    for c in lc:
        a0 = ctx.slicer.operand(emv, c.args[0], at=c.block)
        rq, sd = weight_variant(emv, c.args[1], c.block)
        kind = "init" if EW("asset_weight_init")(a0) else ("maint" if EW("asset_weight_maint")(a0) else "?")
        seen[kind] = (c, rq, sd)
    for kind, want in (("init", "Initial"), ("maint", "Maintenance")):
        ent = seen.get(kind)
        ok = ent is not None and ent[1] == {want} and ent[2] == {"Liabilities"} and A.consumed(emv, ent[0].block)[0]
        ctx.inst("C13.R2", "emode/leverage-%s-args" % kind, ok, "max leverage (%s) = f(entry.asset_weight_%s, bank %s liability weight)" % (kind, kind, want),
                 "requirement=%s side=%s" % (sorted(ent[1]) if ent and ent[1] else None, sorted(ent[2]) if ent and ent[2] else None) if ent else "call not found", ent[0].loc if ent else emv.loc(emv.raw["span"]))
    for kind, pidx in (("init", 3), ("maint", 4)):
        def lev(p, kind=kind):
            return p.has_call(prog, {"name": "calculate_max_leverage"}) and p.has_field(EE, "asset_weight_" + kind) and not p.has_field(EE, "asset_weight_" + ("maint" if kind == "init" else "init"))
        expect_atom(ctx, "C13.R2", "emode/leverage-%s<=cap" % kind, emv, BE, "lt", lambda p, pidx=pidx: pidx in p.params and p.has_call(prog, {"name": "u32_to_basis"}) and not ({3, 4} - {pidx}) & p.params, lev,
                    "error_if(max leverage (%s) > group cap (%s))" % (kind, kind), on_all_paths=False)
    call_on_all_paths(ctx, "C13.R2", "emode/dupes", emv, {"name": "check_dupes"}, "the entry validator runs the checked duplicate-tag test on every successful path")
    if len(cml) == 1:
        f = cml[0]
        P1 = lambda p: p.params == {1}
        P2 = lambda p: p.params == {2}
        expect_atom(ctx, "C13.R2", "leverage/LW>0", f, BE, "le", P2, Z, "error_if(liability weight <= 0)")
        expect_atom(ctx, "C13.R2", "leverage/CW<LW", f, BE, "le", P2, P1, "error_if(collateral weight >= liability weight)")
        pv = ctx.slicer.local(f, 0, path=(0,))
        ctx.inst("C13.R2", "leverage/formula", pv.has_const("ONE") and pv.has_call(prog, {"name": "checked_div"}) and pv.params == {1, 2}, "leverage = 1 / (1 - CW/LW)", A._pvs(pv), f.loc(f.raw["span"]))
    else:
        ctx.missing("C13.R2", "calculate_max_leverage")
    try:
        gc = ctx.handler("C13.R2", "marginfi_group_configure")
        HUND = lambda p: 100 in p.ints
        INIT = lambda p: 9 in p.params and 10 not in p.params
        MAINT = lambda p: 10 in p.params and 9 not in p.params
        # parameters 9/10 are emode_max_init_leverage / emode_max_maint_leverage (ctx is #1)
        pn = {gc.varname(i): i for i in range(1, gc.argc + 1)}
        ii, mi = pn.get("emode_max_init_leverage"), pn.get("emode_max_maint_leverage")
        if ii is None or mi is None:
            ctx.missing("C13.R2", "leverage parameters of marginfi_group_configure")
        else:
            INIT = lambda p: (ii in p.params or p.has_const("DEFAULT_INIT_MAX_EMODE_LEVERAGE")) and mi not in p.params and not p.has_const("DEFAULT_MAINT_MAX_EMODE_LEVERAGE")
            MAINT = lambda p: (mi in p.params or p.has_const("DEFAULT_MAINT_MAX_EMODE_LEVERAGE")) and ii not in p.params and not p.has_const("DEFAULT_INIT_MAX_EMODE_LEVERAGE")
            expect_atom(ctx, "C13.R2", "group/init>=1", gc, BE, "lt", INIT, ONE, "error_if(init leverage cap < 1)")
            expect_atom(ctx, "C13.R2", "group/init<=100", gc, BE, "lt", HUND, INIT, "error_if(init leverage cap > 100)")
            expect_atom(ctx, "C13.R2", "group/maint>=1", gc, BE, "lt", MAINT, ONE, "error_if(maint leverage cap < 1)")
            expect_atom(ctx, "C13.R2", "group/maint<=100", gc, BE, "lt", HUND, MAINT, "error_if(maint leverage cap > 100)")
            expect_atom(ctx, "C13.R2", "group/init<maint", gc, BE, "le", MAINT, INIT, "error_if(init leverage cap >= maint leverage cap)")
            for fld, pred in (("emode_max_init_leverage", INIT), ("emode_max_maint_leverage", MAINT)):
                for bi, s, pv in field_stores(ctx, gc, GROUP, fld):
                    ctx.inst("C13.R2", "group/store-" + fld, pred(pv) and pv.has_call(prog, {"name": "basis_to_u32"}), "group.%s := basis_to_u32(validated value)" % fld, A._pvs(pv), gc.bloc(bi))
    except Exception as e:
        if e.__class__.__name__ != "AnchorMissing":
            raise
    ctx.floor("C13.R2", 24)

    # ------------------------------------------------------------ R3 killed state (shared with C07.R5)
    cfgfn = prog.find_fns({"name": "configure", "crate": "marginfi", "self_adt": "Bank"})
    if len(cfgfn) == 1:
        cf = cfgfn[0]
        killed = lambda p: any(a.endswith("BankOperationalState") and v == "KilledByBankruptcy" for (a, v) in p.variants)
        for bi, s, pv in field_stores(ctx, cf, BANKCFG, "operational_state"):
            conds = A.edge_conditions_to(prog, cf, bi, ctx.slicer)
            new_ne = [a for a in conds if a.kind == "cmp" and a.rel == "ne" and ((2 in a.lhs.params and killed(a.rhs)) or (2 in a.rhs.params and killed(a.lhs)))]
            cur_ne = [a for a in conds if a.kind == "cmp" and a.rel == "ne" and ((a.lhs.has_field(BANKCFG, "operational_state") and 2 not in a.lhs.params and killed(a.rhs)) or
                                                                                 (a.rhs.has_field(BANKCFG, "operational_state") and 2 not in a.rhs.params and killed(a.lhs)))]
            ctx.inst("C13.R3", "configure/cannot-set-killed", bool(new_ne), "no admin can put a bank into KilledByBankruptcy", "", cf.bloc(bi))
            ctx.inst("C13.R3", "configure/cannot-leave-killed", bool(cur_ne), "no admin can take a bank out of KilledByBankruptcy", "", cf.bloc(bi))
    else:
        ctx.missing("C13.R3", "Bank::configure")


def run(ctx):
    from .kernels import check_kernels
    try:
        _run(ctx)
    finally:
        # numeric kernels this property's formulas rest on, pinned as canonical expression trees
        check_kernels(ctx, "C13.K", ['calculate_max_leverage'])
        _validator_loops(ctx)


def _validator_loops(ctx):
    """C13.R2: the e-mode entry validator examines every entry: no slot (empty or not) ends the scan early."""
    prog = ctx.prog
    fs = prog.find_fns({"name": "validate_entries_with_liability_weights", "crate": "marginfi", "self_adt": "EmodeSettings"})
    if len(fs) != 1:
        ctx.missing("C13.R2", "validate_entries_with_liability_weights")
        return
    f = fs[0]
    loops = [c for c in f.calls() if c.callee and c.callee["name"] == "next" and expr_tree(prog, f, c.args[0]) in ("into_iter(p1.emode_config.entries)", "into_iter(iter(p1.emode_config.entries))", "iter(p1.emode_config.entries)")]
    # the same scan written with an iterator adaptor: `.iter().filter(|e| !e.is_empty())` skips exactly the empty slots
    filt = [c for c in f.calls() if c.callee and c.callee["name"] == "next" and
            re.fullmatch(r"(?:into_iter\()?filter\(iter\(p1\.emode_config\.entries\),closure\{not\(is_empty\(a2\)\)\}\)\)?", expr_tree(prog, f, c.args[0], inline=1))]
    loops = loops + filt
    bad = [x for c in loops for x in loop_early_exits(prog, f, c.block)]
    ctx.inst("C13.R2", "emode/validator-visits-every-entry", len(loops) == 1 and not bad,
             "the per-entry checks run for every slot of emode_config.entries: the loop is left only when the iterator is exhausted or on an error",
             ["%s leaves the loop at %s" % (c, f.bloc(u)) for u, v, c in bad] or ("%d loops over the entries" % len(loops)), f.loc(f.raw["span"]))
    # empty entries are skipped, not validated: the skip edge returns to the loop header
    sk = [bi for bi, bb in enumerate(f.blocks) if bb["t"]["k"] == "switch" and switch_cond(prog, f, bi, "else").startswith("is_empty(next(")]
    ctx.inst("C13.R2", "emode/validator-skips-only-empty", len(sk) + len(filt) == 1, "the only entries not validated are the empty ones (tag 0)", "%d is_empty tests" % len(sk), f.loc(f.raw["span"]))
