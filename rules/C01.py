"""C01 Bank solvency (structural clauses only)."""
from engine import analysis as A
from engine.model import op_place
from .common import *

INFO = {
    "explanation": "Decided statically: (R1) rounding direction of every whole-token amount that leaves or enters the liquidity vault on a full withdrawal / "
                   "full repayment / fee collection (floor / ceil / integer part of min(outstanding, available liquidity)); (R2) booking <-> transfer "
                   "pairing in deposit, withdraw, borrow, repay: after a share mutation every successful path performs the matching token transfer in the "
                   "right direction between the user's account and the vault bound to the bank, with an amount derived from the booked amount; the only "
                   "exceptions are the reasoned table rows (risk-admin token-less repay-all on flagged banks; withdraw clamp on TOKENLESS_REPAYMENTS_COMPLETE "
                   "banks); (R3) who may sign with a vault authority: the functions using each BankVaultType variant are the frozen sets; (R4) fee "
                   "collection wiring: each bucket, its transfer amount and its destination belong together and the bucket is reduced by exactly the "
                   "transferred amount; (R6) origination fee: the debt booked on a borrow is amount + fee and the fee buckets receive parts of that same fee. "
                   "Liquidation fee wiring is decided by C05.R5, accrual conservation wiring by C06.R2/R3. Not decided: the solvency inequality over "
                   "histories, magnitudes of the rounding allowance, Token-2022 fee arithmetic.",
    "assumptions": ["SPL token program moves exactly the requested amount (minus the mint's own transfer fee)", "venue pass-through banks are out of scope of C01"],
}
LIQ_USERS = {"cpi_drift_deposit", "cpi_transfer_to_destination", "cpi_withdraw_from_position", "cpi_init_user", "cpi_init_user_stats", "cpi_update_user_pool_id", "cpi_drift_withdraw",
             "cpi_kamino_deposit", "cpi_harvest_rewards", "cpi_transfer_obligation_owner_to_destination", "cpi_init_farms", "cpi_init_obligation", "cpi_init_user_metadata",
             "lending_account_borrow", "lending_account_liquidate", "lending_account_withdraw", "lending_pool_collect_bank_fees", "cpi_solend_deposit", "cpi_solend_withdraw",
             "cpi_transfer_liquidity_vault_to_destination", "clone"}
INS_USERS = {"lending_pool_withdraw_insurance", "lending_pool_handle_bankruptcy", "clone"}
FEE_USERS = {"lending_pool_withdraw_fees", "lending_pool_withdraw_fees_permissionless", "clone"}


def run(ctx):
    prog = ctx.prog
    am = ctx.am
    # ------------------------------------------------------------ R2 booking <-> transfer
    ctx.floor("C01.R2", 4)
    spec = {
        "lending_account_deposit": ("deposit", ["deposit"], ["signer_token_account"], ["liquidity_vault"], None),
        "lending_account_repay": ("deposit", ["repay", "repay_all"], ["signer_token_account"], ["liquidity_vault"], None),
        "lending_account_withdraw": ("withdraw", ["withdraw", "withdraw_all"], ["liquidity_vault"], ["destination_token_account"], "Liquidity"),
        "lending_account_borrow": ("withdraw", ["borrow"], ["liquidity_vault"], ["destination_token_account"], "Liquidity"),
    }
    for ixn, (kind, booked, frm, to, vt) in spec.items():
        try:
            ix = ctx.ix("C01.R2", ixn)
        except Exception:
            continue
        h = ix["handlers"][0]
        st = ix["struct"]
        skey = st.key
        ts = [t for t in transfer_sites(ctx, h, skey)]
        bc = [c for c in h.calls() if c.callee and c.callee["name"] in booked and (c.callee.get("self_adt") or "").endswith("BankAccountWrapper")]
        probs = []
        if len(ts) != 1:
            probs.append("%d token transfers (expected 1)" % len(ts))
        if not bc:
            probs.append("booking call not found")
        if not probs:
            t = ts[0]
            if t["kind"] != kind:
                probs.append("transfer direction is %s" % t["kind"])
            if t["from"] != frm or t["to"] != to:
                probs.append("transfer goes %s -> %s" % (t["from"], t["to"]))
            if t["bank"] != ["bank"]:
                probs.append("transfer issued on %s" % t["bank"])
            if vt and t["vault_types"] != {vt}:
                probs.append("signed with %s seeds" % sorted(t["vault_types"]))
            if vt and (t["authority"] != ["bank_liquidity_vault_authority"] or not t["seeds"].has_field(BANK, "liquidity_vault_authority_bump") or "bank" not in acct_fields(t["seeds"], skey)):
                probs.append("authority / bump / bank key of the signer seeds are not the bank's liquidity authority")
            if not vt and t["authority"] not in (["authority"], ["signer"]):
                probs.append("deposit authority is %s" % t["authority"])
            # the vault is the bank's own
            vf = st.field("liquidity_vault")
            bound = any(c.kind == "keyeq" and c.a == "bank" and c.f == "liquidity_vault" and c.b == "liquidity_vault" for f, c in st.all_constraints())
            if not bound:
                probs.append("liquidity_vault is not bound to bank.liquidity_vault")
            # amount: transferred derives from what was booked
            amt = t["amount"]
            for c in bc:
                nm = c.callee["name"]
                if nm in ("repay_all", "withdraw_all"):
                    if not amt.has_call(prog, {"name": nm}):
                        probs.append("transferred amount does not derive from the %s result" % nm)
                else:
                    b = ctx.slicer.operand(h, c.args[1], at=c.block)
                    if not (b.params & amt.params):
                        probs.append("booked (%s) and transferred amounts do not share the instruction argument" % nm)
                    if b.has_call(prog, {"name": "min"}) and not amt.has_call(prog, {"name": "min"}):
                        probs.append("booked amount is clamped but the transferred one is not")
            # Token-2022 gross-up: the grossed-up value and the fallback are the same booked quantity
            from .C02 import root_parity
            for c in h.calls():
                if c.callee and c.callee["name"] == "unwrap_or" and len(c.args) == 2:
                    a0 = ctx.slicer.operand(h, c.args[0], at=c.block)
                    if not a0.has_call(prog, {"name": "calculate_pre_fee_spl_deposit_amount"}):
                        continue
                    r0 = root_parity(h, c.args[1])
                    roots = set()
                    for bi_, bb_ in enumerate(h.blocks):
                        for s_ in bb_["s"]:
                            v_ = s_.get("v")
                            if v_ and v_["r"] == "agg" and v_.get("ak") == "closure":
                                cl = prog.fns.get(h.dinfo(v_["def"])["key"])
                                if cl is not None and any(cc.callee and cc.callee["name"] == "calculate_pre_fee_spl_deposit_amount" for cc in cl.calls()):
                                    for o_ in v_["a"]:
                                        # closures capture by reference: look through the borrow
                                        p_ = op_place(o_)
                                        d_ = A.single_def(h, p_["l"]) if p_ and not p_.get("p") else None
                                        if d_ and d_[1] != "T" and h.blocks[d_[0]]["s"][d_[1]]["v"]["r"] == "ref":
                                            roots.add(root_parity(h, {"c": h.blocks[d_[0]]["s"][d_[1]]["v"]["pl"]}))
                                        roots.add(root_parity(h, o_))
                    if roots and r0 not in roots:
                        probs.append("the transfer-fee gross-up is applied to a different value than its fallback (%s vs %s)" % (r0[0], sorted(str(x[0]) for x in roots)))
            if ixn == "lending_account_borrow" and amt.has_field("InterestRateConfig", "protocol_origination_fee"):
                probs.append("the origination fee leaves the vault with the borrowed amount")
            # after every share mutation a successful path reaches the transfer, except over the reasoned edges
            muts = A.write_blocks(prog, h, is_share_write)
            rem_edges = set()
            if ixn == "lending_account_repay":
                # token-less edge: signer == risk_admin && TOKENLESS_REPAYMENTS_ALLOWED && repay_all  (all three required)
                tl = [(sw, tgt) for (sw, tgt, truth) in flag_edges(ctx, h, "TOKENLESS_REPAYMENTS_ALLOWED") if truth is True]
                ok_tl = False
                for (sw, tgt) in tl:
                    conds = A.edge_conditions_to(prog, h, sw, ctx.slicer, limit=40)
                    ra = [a for a in conds if a.kind == "cmp" and a.rel == "eq" and (a.lhs.has_field(GROUP, "risk_admin") or a.rhs.has_field(GROUP, "risk_admin")) and
                          ("authority" in acct_fields(a.lhs, skey) + acct_fields(a.rhs, skey))]
                    if ra:
                        ok_tl = True
                        rem_edges.add((sw, tgt))
                if tl and not ok_tl:
                    probs.append("the token-less branch is not guarded by signer == group.risk_admin")
                # and repay_all on that edge: the skip must also require the repay_all flag
                skip_ok = False
                for (sw, tgt) in rem_edges:
                    # from tgt, reaching the end without the transfer must pass a switch on the repay_all bool being true
                    can, w = A.can_succeed_avoiding(h, [t["call"].block], start=tgt)
                    if can:
                        bools = []
                        for b_ in w:
                            tt = h.blocks[b_]["t"]
                            if tt["k"] == "switch":
                                p = op_place(tt["on"])
                                if p and not p.get("p"):
                                    pvx = ctx.slicer.local(h, p["l"], at=b_)
                                    if 3 in pvx.params and not pvx.fields - {("core::option::Option::Some", "0")}:
                                        bools.append(b_)
                        skip_ok = bool(bools)
                if rem_edges and not skip_ok:
                    probs.append("the token-less skip does not require repay_all")
            for m in muts:
                bad = False
                for s in h.succ()[m]:
                    if A.can_succeed_avoiding(h, [t["call"].block], start=s, removed_edges=rem_edges)[0]:
                        bad = True
                if bad:
                    probs.append("after the share mutation at %s a successful path ends without the token transfer" % h.bloc(m))
                    break
            if not A.consumed(h, t["call"].block)[0]:
                probs.append("transfer result unchecked")
        ctx.inst("C01.R2", "booking-transfer/" + ixn, not probs, "%s: the booked change is matched by one checked token transfer %s -> %s of a derived amount on every successful path" % (ixn, frm, to), "; ".join(probs) or "ok", h.loc(h.raw["span"]))
    # withdraw clamp only on TOKENLESS_REPAYMENTS_COMPLETE
    try:
        h = ctx.handler("C01.R2", "lending_account_withdraw")
        mins = [c for c in h.calls() if c.callee and c.callee["name"] == "min"]
        ok = True
        for c in mins:
            conds = A.edge_conditions_to(prog, h, c.block, ctx.slicer, limit=40)
            g = [a for a in conds if a.kind == "call" and a.callee.endswith("::get_flag") and a.truth is True and len(a.args) > 1 and a.args[1].has_const("TOKENLESS_REPAYMENTS_COMPLETE")]
            ok = ok and bool(g)
        ctx.inst("C01.R2", "withdraw-clamp-exception", ok and len(mins) <= 1, "the paid amount is clamped to the vault balance only on banks flagged TOKENLESS_REPAYMENTS_COMPLETE", "%d clamps" % len(mins), h.loc(h.raw["span"]))
    except Exception as e:
        if e.__class__.__name__ != "AnchorMissing":
            raise
    # ------------------------------------------------------------ R3 who may use each vault authority
    adt = [k for k in prog.adts if k.endswith("::BankVaultType")]
    if len(adt) == 1:
        for v, allowed in (("Liquidity", LIQ_USERS), ("Insurance", INS_USERS), ("Fee", FEE_USERS)):
            users = sorted(f.name for k, f in prog.fns.items() if f.info["crate"] == "marginfi" and A.variant_blocks(f, adt[0], v))
            extra = sorted(set(users) - allowed)
            ctx.inst("C01.R3", "vault-authority-users/" + v, not extra and len(users) >= 3, "only the reviewed functions build %s-vault signer seeds" % v, "unexpected: %s" % extra if extra else "%d functions" % len(users), None)
    else:
        ctx.missing("C01.R3", "BankVaultType")
    # every program-held-bank transfer site (Bank helper methods) is in the reviewed table
    table = {("lending_account_borrow", "withdraw", "Liquidity"), ("lending_account_deposit", "deposit", ""), ("lending_account_liquidate", "withdraw", "Liquidity"),
             ("lending_account_repay", "deposit", ""), ("lending_account_withdraw", "withdraw", "Liquidity"), ("lending_pool_collect_bank_fees", "withdraw", "Liquidity"),
             ("lending_pool_handle_bankruptcy", "withdraw", "Insurance"), ("lending_pool_withdraw_fees", "withdraw", "Fee"), ("lending_pool_withdraw_fees_permissionless", "withdraw", "Fee"),
             ("lending_pool_withdraw_insurance", "withdraw", "Insurance")}
    got = set()
    for n, e in am.instructions.items():
        for k in prog.reach(e["handlers"][0].key):
            f = prog.fns.get(k)
            if f is None or f.info["crate"] != "marginfi":
                continue
            for t in transfer_sites(ctx, f, e["struct"].key):
                got.add((n, t["kind"], "".join(sorted(t["vault_types"]))))
    ctx.inst("C01.R3", "transfer-site-table", got == table, "the set of (instruction, direction, vault authority) token-transfer sites equals the reviewed table", "unexpected: %s missing: %s" % (sorted(got - table), sorted(table - got)), None)

    # ------------------------------------------------------------ R4 fee collection
    try:
        ix = ctx.ix("C01.R4", "lending_pool_collect_bank_fees")
        h = ix["handlers"][0]
        skey = ix["struct"].key
        ts = transfer_sites(ctx, h, skey)
        dest_of = {"collected_insurance_fees_outstanding": "insurance_vault", "collected_group_fees_outstanding": "fee_vault", "collected_program_fees_outstanding": "fee_ata"}
        buckets = list(dest_of)
        for b, dst in dest_of.items():
            others = [x for x in buckets if x != b]
            tt = [t for t in ts if t["to"] == [dst]]
            probs = []
            if len(tt) != 1:
                probs.append("%d transfers to %s" % (len(tt), dst))
            else:
                t = tt[0]
                a = t["amount"]
                if not (a.has_field(BANK, b) and a.has_call(prog, {"name": "int"}) and a.has_call(prog, {"name": "min"}) and any(n == "amount" for (_, n) in a.fields)):
                    probs.append("amount is not int(min(outstanding %s, available liquidity))" % b)
                # a later bucket's amount legitimately depends on earlier ones through the remaining liquidity; the *bucket read* must be its own
                dc = defining_call(h, t["call"].args[1])
                if t["from"] != ["liquidity_vault"] or t["vault_types"] != {"Liquidity"} or t["authority"] != ["liquidity_vault_authority"]:
                    probs.append("source / authority: %s %s %s" % (t["from"], sorted(t["vault_types"]), t["authority"]))
                if not A.must_pass(h, [t["call"].block])[0] or not A.consumed(h, t["call"].block)[0]:
                    probs.append("transfer skipped or unchecked")
            st_ = field_stores(ctx, h, BANK, b)
            if len(st_) != 1:
                probs.append("%d stores to the bucket" % len(st_))
            else:
                pv = st_[0][2]
                if not (pv.has_field(BANK, b) and pv.has_call(prog, {"name": "checked_sub"}) and pv.has_call(prog, {"name": "int"})):
                    probs.append("bucket is not reduced by the transferred integer part")
            ctx.inst("C01.R4", "collect/" + b, not probs, "%s: transfer int(min(outstanding, available)) liquidity vault -> %s and reduce the bucket by it" % (b, dst), "; ".join(probs) or "ok", h.loc(h.raw["span"]))
        # each min() pairs one bucket with the available liquidity
        mins = [c for c in h.calls() if c.callee and c.callee["name"] == "min"]
        okm = len(mins) == 3
        seen = set()
        for c in mins:
            pa = [ctx.slicer.operand(h, x, at=c.block) for x in c.args]
            bk = {b for b in buckets if pa[0].has_field(BANK, b) and not any(n == "amount" for (_, n) in pa[0].fields)}
            okm = okm and len(bk) == 1 and any(n == "amount" for (_, n) in pa[1].fields)
            seen |= bk
        ctx.inst("C01.R4", "collect/min-pairs", okm and seen == set(buckets), "each of the three transfers is limited by min(that bucket, remaining available liquidity)", sorted(seen), h.loc(h.raw["span"]))
    except Exception as e:
        if e.__class__.__name__ != "AnchorMissing":
            raise
    # ------------------------------------------------------------ R6 origination fee
    try:
        ix = ctx.ix("C01.R6", "lending_account_borrow")
        h = ix["handlers"][0]
        bc = [c for c in h.calls() if c.callee and c.callee["name"] == "borrow" and (c.callee.get("self_adt") or "").endswith("BankAccountWrapper")]
        fee = lambda p: p.has_field("InterestRateConfig", "protocol_origination_fee") and p.has_call(prog, {"name": "checked_mul"})
        withfee = [c for c in bc if fee(ctx.slicer.operand(h, c.args[1], at=c.block))]
        nofee = [c for c in bc if not fee(ctx.slicer.operand(h, c.args[1], at=c.block))]
        ok = len(withfee) == 1 and len(nofee) == 1
        if ok:
            pv = ctx.slicer.operand(h, withfee[0].args[1], at=withfee[0].block)
            ok = pv.has_call(prog, {"name": "add"}) and 2 in pv.params
            conds = A.edge_conditions_to(prog, h, nofee[0].block, ctx.slicer, limit=40)
            z = [a for a in conds if a.kind == "call" and a.callee.endswith("::is_zero") and a.truth is True]
            ok = ok and bool(z)
        ctx.inst("C01.R6", "borrow/debt-includes-fee", ok, "the debt booked is amount + origination fee (and plain amount only when the fee rate is zero)", "%d/%d booking calls" % (len(withfee), len(nofee)), h.loc(h.raw["span"]))
        for b, extra in (("collected_group_fees_outstanding", None), ("collected_program_fees_outstanding", "program_fee_rate")):
            st_ = field_stores(ctx, h, BANK, b)
            okb = bool(st_)
            for bi, s, pv in st_:
                okb = okb and pv.has_field(BANK, b) and fee(pv) and (pv.has_call(prog, {"name": "saturating_add"}) or pv.has_call(prog, {"name": "checked_add"}))
                if extra:
                    okb = okb and pv.has_field("FeeStateCache", extra)
            ctx.inst("C01.R6", "borrow/fee-bucket/" + b, okb, "%s += (part of) the same origination fee" % b, [A._pvs(x[2]) for x in st_][:1], h.loc(h.raw["span"]))
        # program part + group part = fee: group gets fee - program part
        st_ = field_stores(ctx, h, BANK, "collected_group_fees_outstanding")
        okp = any(x[2].has_call(prog, {"name": "saturating_sub"}) or x[2].has_call(prog, {"name": "checked_sub"}) or x[2].has_call(prog, {"name": "sub"}) for x in st_)
        ctx.inst("C01.R6", "borrow/fee-split", okp, "group bucket receives the fee minus the program's share", "", h.loc(h.raw["span"]))
    except Exception as e:
        if e.__class__.__name__ != "AnchorMissing":
            raise
    # ------------------------------------------------------------ R7 accrued fees are only what borrowers are charged (same construct as C06.R3)
    cr = prog.find_fns({"name": "calc_interest_rate", "crate": "marginfi", "self_adt": "InterestRateCalc"})
    if len(cr) == 1:
        cr = cr[0]
        fees = adt_key(prog, "state::interest_rate::Fees")
        calc = adt_key(prog, "state::interest_rate::InterestRateCalc")
        for fld, rate, fixed in (("group_fee_apr", "group_fee_rate", "group_fee_fixed"), ("insurance_fee_apr", "insurance_fee_rate", "insurance_fee_fixed"), ("protocol_fee_apr", "protocol_fee_rate", "protocol_fee_fixed")):
            for bi, pv in agg_fields(ctx, cr, "ComputedInterestRates", fld):
                ok = pv.has_field(fees, rate) and pv.has_field(fees, fixed)
                ctx.inst("C01.R7", "fee-apr-from-charged-fees/" + fld, ok, "%s is computed from the same gated fee pair that enters the borrowing rate" % fld, A._pvs(pv), cr.bloc(bi))
        for bi, pv in agg_fields(ctx, cr, "ComputedInterestRates", "borrowing_rate_apr"):
            ok = all(pv.has_field(fees, x) for x in ("group_fee_rate", "group_fee_fixed", "insurance_fee_rate", "insurance_fee_fixed", "protocol_fee_rate", "protocol_fee_fixed"))
            ctx.inst("C01.R7", "borrow-rate-includes-all-fees", ok, "the borrowing rate charges all three fee pairs", A._pvs(pv), cr.bloc(bi))
    else:
        ctx.missing("C01.R7", "InterestRateCalc::calc_interest_rate")
    # ------------------------------------------------------------ R1 rounding (shared with C03.R1) - evaluated here as well
    from . import C03
    wrappers = [f for f in prog.fns.values() if (f.info.get("self_adt") or "").endswith("BankAccountWrapper") and f.info["crate"] == "marginfi"]
    for nm, rnd, bad in (("withdraw_all", "checked_floor", "checked_ceil"), ("repay_all", "checked_ceil", "checked_floor")):
        fs = [f for f in wrappers if f.name == nm]
        if len(fs) != 1:
            # semantic fallback handled by C03; anchor here is the wrapper method used by the handlers above
            ctx.missing("C01.R1", "BankAccountWrapper::" + nm)
            continue
        pv = ctx.slicer.local(fs[0], 0, path=(0,))
        wiring(ctx, "C01.R1", "rounding/" + nm, pv, must=[("call", {"name": rnd})], must_not=[("call", {"name": bad})], loc=fs[0].loc(fs[0].raw["span"]), what="whole tokens moved by " + nm)
