"""C05 Classic liquidation (structural clauses only)."""
from engine import analysis as A
from engine.model import op_place
from .common import *

INFO = {
    "explanation": "Decided statically: (R1) ordering in lending_account_liquidate: the pre-condition check (liability bank given, "
                   "ignore_healthy=false) dominates the four balance legs; after the legs every successful path passes the post-condition "
                   "check (fed with the pre-check's health) and the liquidator's initial-health gate; all results checked; (R2) guard atoms: "
                   "HealthyAccount, ExhaustedLiability, TooSeverePayoff, TooSevereLiquidation, WorseHealthPostLiquidation, "
                   "NoLiabilitiesInLiabilityBank, AssetsInLiabilityBank, OverliquidationAttempt, ZeroLiquidationAmount, "
                   "SameAssetAndLiabilityBanks, zero-price guards; (R3) both liquidation checks evaluate Maintenance; (R4) fee constants 0.025/0.025; "
                   "(R5) wiring: collateral priced RealTime/Low, debt priced RealTime/High at the debt bank's confidence; liquidator's debt-bank "
                   "leg sized with the liquidator fee only, liquidatee's repay with both fees, insurance fee = their difference split into whole "
                   "tokens (vault transfer, liquidity->insurance, Liquidity seeds of the debt bank) and fraction (outstanding insurance fees); "
                   "each leg on the right bank/account with the caller's asset_amount; cap-ignoring primitives used only here; (R6) account "
                   "constraints. Not decided: numeric exactness of the 95/97.5/2.5 split, strict improvement for all inputs.",
    "assumptions": ["calc_value / calc_amount arithmetic", "risk engine numeric correctness (C04)"],
}
LIQ = "lending_account_liquidate"


def _run(ctx):
    prog = ctx.prog
    try:
        ix = ctx.ix("C05.R1", LIQ)
    except Exception:
        return
    h = ix["handlers"][0]
    st = ix["struct"]
    skey = st.key

    def calls_named(name, self_adt=None):
        return [c for c in h.calls() if c.callee and c.callee["name"] == name and (self_adt is None or (c.callee.get("self_adt") or "").endswith(self_adt))]
    pre = calls_named("check_pre_liquidation_condition_and_get_account_health")
    post = calls_named("check_post_liquidation_condition_and_get_account_health")
    gate = calls_named("check_account_init_health")
    legs = [c for c in h.calls() if c.callee and c.callee["name"] in ("withdraw_ignore_borrow_cap", "deposit_ignore_deposit_cap", "repay", "withdraw", "deposit", "borrow")
            and (c.callee.get("self_adt") or "").endswith("BankAccountWrapper")]
    # ------------------------------------------------------------------ R1
    probs = []
    if len(pre) != 1 or len(post) != 1 or len(gate) != 1:
        probs.append("expected exactly one pre check, post check and liquidator gate (found %d/%d/%d)" % (len(pre), len(post), len(gate)))
    if len(legs) != 4:
        probs.append("expected 4 balance legs, found %d" % len(legs))
    if not probs:
        pb, qb, gb = pre[0].block, post[0].block, gate[0].block
        for c in legs:
            if not A.set_dominates(h, [pb], c.block):
                probs.append("leg at %s not dominated by the pre-condition check" % c.loc)
        for c in legs:
            for tgt_blocks, nm in (([qb], "post-condition check"), ([gb], "liquidator gate")):
                bad = False
                for s in h.succ()[c.block]:
                    if A.can_succeed_avoiding(h, tgt_blocks, start=s)[0]:
                        bad = True
                if bad:
                    probs.append("after the leg at %s a successful path skips the %s" % (c.loc, nm))
        if not A.consumed(h, pb)[0]:
            probs.append("pre-check result unchecked")
        if not A.consumed(h, qb)[0]:
            probs.append("post-check result unchecked")
        if not A.consumed(h, gb, path=(0,))[0]:
            probs.append("liquidator gate result unchecked")
        # pre-check args
        a_bank = ctx.slicer.operand(h, pre[0].args[1], at=pb)
        if ("core::option::Option", "Some") not in a_bank.variants or "liab_bank" not in acct_fields(a_bank, skey) or ("core::option::Option", "None") in a_bank.variants:
            probs.append("pre-check is not given Some(liab bank key)")
        ih = ctx.slicer.operand(h, pre[0].args[3], at=pb)
        if ih.ints != {0} or ih.params or ih.fields:
            probs.append("pre-check ignore_healthy is not the constant false (%s)" % A._pvs(ih))
        # post-check receives the pre-check health (tuple field 0)
        ph = ctx.slicer.operand(h, post[0].args[2], at=qb)
        if not ph.has_call(prog, {"name": "check_pre_liquidation_condition_and_get_account_health"}):
            probs.append("post-check is not given the pre-check's health")
        dcp = defining_call(h, post[0].args[2])
        pb_ok = dcp is not None and dcp[0] == pb and tuple(dcp[2]) == (0, 0)
        if not pb_ok:
            probs.append("post-check health argument is not component 0 of the pre-check result")
        lk = ctx.slicer.operand(h, post[0].args[1], at=qb)
        if "liab_bank" not in acct_fields(lk, skey):
            probs.append("post-check bank is not the liability bank")
        # engines on the liquidatee, gate on the liquidator
        for c in (pre[0], post[0]):
            sv = ctx.slicer.operand(h, c.args[0], at=c.block)
            if "liquidatee_marginfi_account" not in acct_fields(sv, skey) or "liquidator_marginfi_account" in acct_fields(sv, skey):
                probs.append("liquidation check at %s is not evaluated on the liquidatee" % c.loc)
        gv = ctx.slicer.operand(h, gate[0].args[0], at=gb)
        if "liquidator_marginfi_account" not in acct_fields(gv, skey) or "liquidatee_marginfi_account" in acct_fields(gv, skey):
            probs.append("init-health gate is not evaluated on the liquidator")
        # engines built with the flash-loan refusing constructor
        for c in calls_named("new", "RiskEngine"):
            pass
    ctx.inst("C05.R1", "ordering", not probs, "pre-check dominates the four legs; post-check and liquidator gate follow them on every successful path; results checked; arguments wired",
             "; ".join(probs) or "ok", h.loc(h.raw["span"]))

    # ------------------------------------------------------------------ R2 atoms
    ctx.floor("C05.R2", 11)
    aspec, lspec = {"name": "calc_weighted_asset_value"}, {"name": "calc_weighted_liab_value"}

    def health_like(p):
        return p.has_call(prog, {"name": "checked_sub"}) and p.has_call(prog, {"name": "get_account_health_components"})

    def zeroish(p):
        return (0 in p.ints or p.has_const("ZERO")) and not p.params and not p.calls
    pref = prog.find_fns({"name": "check_pre_liquidation_condition_and_get_account_health", "crate": "marginfi"})
    postf = prog.find_fns({"name": "check_post_liquidation_condition_and_get_account_health", "crate": "marginfi"})
    if len(pref) == 1:
        f = pref[0]
        ev = A.error_variant_blocks(f, "HealthyAccount")
        atoms = (A.guard_atoms(prog, f, ev, ctx.slicer) + A.edge_conditions_to(prog, f, ev[0], ctx.slicer)) if ev else []
        g = [a for a in atoms if a.kind == "cmp" and a.rel == "lt" and zeroish(a.lhs) and health_like(a.rhs)]
        ign = [a for a in atoms if a.kind == "bool" and a.lhs is not None and 4 in a.lhs.params and a.truth is False]
        ctx.inst("C05.R2", "HealthyAccount", bool(g) and bool(ign), "error_if(health > 0 && !ignore_healthy)", [a.describe() for a in atoms][:5], f.bloc(ev[0]) if ev else None)
        # the error is reached whenever healthy && !ignore: must-pass of the guard switch
        if g:
            ok, w = A.must_pass(f, [g[0].switch[0]])
            ctx.inst("C05.R2", "HealthyAccount/on-all-paths", ok, "health guard evaluated on every successful path", "", f.bloc(g[0].switch[0]))
        for e, side, want_truth in (("NoLiabilitiesInLiabilityBank", "Liabilities", True), ("AssetsInLiabilityBank", "Assets", False)):
            ev = A.error_variant_blocks(f, e)
            atoms = A.guard_atoms(prog, f, ev, ctx.slicer) if ev else []
            g = [a for a in atoms if a.kind == "call" and a.callee.endswith("::is_empty") and a.truth is want_truth and
                 any(v == side for (ad, v) in (a.args[1].variants if len(a.args) > 1 else []))]
            ctx.inst("C05.R2", e, bool(g), "error_if(%sliability-bank balance.is_empty(%s))" % ("" if want_truth else "!", side), [a.describe() for a in atoms][:3], f.bloc(ev[0]) if ev else None)
        for c in f.calls():
            if c.callee and c.callee["name"] == "get_account_health_components":
                vs, _ = variant_arg(ctx, f, c, 1, "RiskRequirementType")
                ctx.inst("C05.R3", "pre-requirement", vs == {"Maintenance"}, "pre-liquidation check evaluates Maintenance", sorted(vs), c.loc)
        fl = A.error_variant_blocks(f, "AccountInFlashloan")
        ctx.inst("C05.R2", "pre/flashloan-refusal", bool(fl), "pre-liquidation check refuses accounts in a flash loan", "", f.loc(f.raw["span"]))
        # health = assets - liabs
        hv = ctx.slicer.local(f, 0, path=(0, 0))
    else:
        ctx.missing("C05.R2", "pre-liquidation check")
    if len(postf) == 1:
        f = postf[0]
        for e, side, want_truth in (("ExhaustedLiability", "Liabilities", True), ("TooSeverePayoff", "Assets", False)):
            ev = A.error_variant_blocks(f, e)
            atoms = A.guard_atoms(prog, f, ev, ctx.slicer) if ev else []
            g = [a for a in atoms if a.kind == "call" and a.callee.endswith("::is_empty") and a.truth is want_truth and
                 any(v == side for (ad, v) in (a.args[1].variants if len(a.args) > 1 else []))]
            ok, _ = A.must_pass(f, [a.switch[0] for a in g]) if g else (False, None)
            ctx.inst("C05.R2", e, bool(g) and ok, "error_if(%sliability-bank balance.is_empty(%s)) on every successful path" % ("" if want_truth else "!", side), [a.describe() for a in atoms][:3], f.bloc(ev[0]) if ev else None)
        ev = A.error_variant_blocks(f, "TooSevereLiquidation")
        atoms = A.guard_atoms(prog, f, ev, ctx.slicer) if ev else []
        g = [a for a in atoms if a.kind == "cmp" and a.rel == "lt" and zeroish(a.lhs) and health_like(a.rhs)]
        ok, _ = A.must_pass(f, [a.switch[0] for a in g]) if g else (False, None)
        ctx.inst("C05.R2", "TooSevereLiquidation", bool(g) and ok, "error_if(post health > 0) on every successful path", [a.describe() for a in atoms][:3], f.bloc(ev[0]) if ev else None)
        ev = A.error_variant_blocks(f, "WorseHealthPostLiquidation")
        atoms = A.guard_atoms(prog, f, ev, ctx.slicer) if ev else []
        g = [a for a in atoms if a.kind == "cmp" and a.rel == "le" and health_like(a.lhs) and a.rhs.params == {3} and not a.rhs.calls]
        ok, _ = A.must_pass(f, [a.switch[0] for a in g]) if g else (False, None)
        ctx.inst("C05.R2", "WorseHealthPostLiquidation", bool(g) and ok, "error_if(post health <= pre health) on every successful path", [a.describe() for a in atoms][:3], f.bloc(ev[0]) if ev else None)
        for c in f.calls():
            if c.callee and c.callee["name"] == "get_account_health_components":
                vs, _ = variant_arg(ctx, f, c, 1, "RiskRequirementType")
                ctx.inst("C05.R3", "post-requirement", vs == {"Maintenance"}, "post-liquidation check evaluates Maintenance", sorted(vs), c.loc)
        # returned health = assets - liabs of that computation
        for cs in [c for c in f.calls() if c.callee and c.callee["name"] == "checked_sub"]:
            a0 = ctx.slicer.operand(f, cs.args[0], at=cs.block)
            a1 = ctx.slicer.operand(f, cs.args[1], at=cs.block)
            ctx.inst("C05.R2", "post/health=assets-liabs", a0.has_call(prog, aspec) and not a0.has_call(prog, lspec) and a1.has_call(prog, lspec) and not a1.has_call(prog, aspec),
                     "health = assets.checked_sub(liabilities)", "", cs.loc)
    else:
        ctx.missing("C05.R2", "post-liquidation check")
    if len(pref) == 1:
        f = pref[0]
        for cs in [c for c in f.calls() if c.callee and c.callee["name"] == "checked_sub"]:
            a0 = ctx.slicer.operand(f, cs.args[0], at=cs.block)
            a1 = ctx.slicer.operand(f, cs.args[1], at=cs.block)
            ctx.inst("C05.R2", "pre/health=assets-liabs", a0.has_call(prog, aspec) and not a0.has_call(prog, lspec) and a1.has_call(prog, lspec) and not a1.has_call(prog, aspec),
                     "health = assets.checked_sub(liabilities)", "", cs.loc)
    # handler-level atoms
    ev = A.error_variant_blocks(h, "OverliquidationAttempt")
    atoms = A.guard_atoms(prog, h, ev, ctx.slicer) if ev else []
    g = [a for a in atoms if a.kind == "cmp" and a.rel == "lt" and a.lhs.has_call(prog, {"name": "get_asset_amount"}) and a.lhs.has_field(BALANCE, "asset_shares") and 2 in a.rhs.params and not a.rhs.fields - {("(x)", "")} or False]
    g = [a for a in atoms if a.kind == "cmp" and a.rel == "lt" and a.lhs.has_call(prog, {"name": "get_asset_amount"}) and a.lhs.has_field(BALANCE, "asset_shares") and 2 in a.rhs.params and not a.rhs.has_call(prog, {"name": "get_asset_amount"})]
    ok, _ = A.must_pass(h, [a.switch[0] for a in g]) if g else (False, None)
    ctx.inst("C05.R2", "OverliquidationAttempt", bool(g) and ok, "error_if(liquidatee collateral balance < asset_amount) on every successful path", [a.describe() for a in atoms][:3], h.bloc(ev[0]) if ev else None)
    ev = A.error_variant_blocks(h, "ZeroLiquidationAmount")
    atoms = A.guard_atoms(prog, h, ev, ctx.slicer) if ev else []
    g = [a for a in atoms if a.kind == "cmp" and a.rel == "le" and a.lhs.params == {2} and 0 in a.rhs.ints]
    ok, _ = A.must_pass(h, [a.switch[0] for a in g]) if g else (False, None)
    ctx.inst("C05.R2", "ZeroLiquidationAmount", bool(g) and ok, "error_if(asset_amount <= 0)", [a.describe() for a in atoms][:3], h.bloc(ev[0]) if ev else None)
    ev = A.error_variant_blocks(h, "SameAssetAndLiabilityBanks")
    atoms = A.guard_atoms(prog, h, ev, ctx.slicer) if ev else []
    g = [a for a in atoms if a.kind == "cmp" and a.rel == "eq" and {"asset_bank", "liab_bank"} <= set(acct_fields(a.lhs, skey) + acct_fields(a.rhs, skey)) and acct_fields(a.lhs, skey) != acct_fields(a.rhs, skey)]
    ok, _ = A.must_pass(h, [a.switch[0] for a in g]) if g else (False, None)
    ctx.inst("C05.R2", "SameAssetAndLiabilityBanks", bool(g) and ok, "error_if(asset_bank.key() == liab_bank.key())", [a.describe() for a in atoms][:3], h.bloc(ev[0]) if ev else None)

    # ------------------------------------------------------------------ R4 constants
    for nm in ("LIQUIDATION_LIQUIDATOR_FEE", "LIQUIDATION_INSURANCE_FEE"):
        cs = prog.const_by_name(nm)
        got = int(cs[0]["v"]["int"]) / float(1 << 48) if cs and cs[0]["v"] and "int" in cs[0]["v"] else None
        ctx.inst("C05.R4", "const/" + nm, got is not None and abs(got - 0.025) < 1e-9, "%s == 0.025" % nm, str(got))

    # ------------------------------------------------------------------ R5 wiring
    # prices
    lowf = prog.find_fns({"name": "fetch_asset_price_for_bank_low_bias", "crate": "marginfi"})
    for f in lowf:
        for c in f.calls():
            if c.callee and c.callee["name"] == "get_price_of_type":
                vs, pv = variant_arg(ctx, f, c, 2, "PriceBias")
                ts, _ = variant_arg(ctx, f, c, 1, "OraclePriceType")
                ctx.inst("C05.R5", "asset-price-fetch", vs == {"Low"} and ts == {"RealTime"}, "collateral price helper = (RealTime, Some(Low))", "bias=%s type=%s" % (sorted(vs), sorted(ts)), c.loc)
    gp = calls_named("get_price_of_type")
    okd = False
    for c in gp:
        vs, pv = variant_arg(ctx, h, c, 2, "PriceBias")
        ts, _ = variant_arg(ctx, h, c, 1, "OraclePriceType")
        conf = ctx.slicer.operand(h, c.args[3], at=c.block)
        feed = ctx.slicer.operand(h, c.args[0], at=c.block)
        okd = vs == {"High"} and ts == {"RealTime"} and conf.has_field(BANKCFG, "oracle_max_confidence") and acct_fields(conf, skey) == ["liab_bank"] and "liab_bank" in acct_fields(feed, skey) and "asset_bank" not in acct_fields(feed, skey)
        ctx.inst("C05.R5", "debt-price", okd, "debt price = liab bank feed, (RealTime, Some(High)), liab bank's max confidence", "bias=%s type=%s feed-banks=%s" % (sorted(vs), sorted(ts), acct_fields(feed, skey)), c.loc)
    if not gp:
        ctx.missing("C05.R5", "debt price fetch in liquidate")
    lp = calls_named("fetch_asset_price_for_bank_low_bias")
    for c in lp:
        b = ctx.slicer.operand(h, c.args[1], at=c.block)
        ctx.inst("C05.R5", "asset-price", acct_fields(b, skey) == ["asset_bank"], "collateral price fetched low-biased for the asset bank", acct_fields(b, skey), c.loc)
    if not lp:
        ctx.missing("C05.R5", "low-bias asset price fetch")
    # legs: (callee name, bank field, account field, amount predicate)
    fee_l, fee_i = "LIQUIDATION_LIQUIDATOR_FEE", "LIQUIDATION_INSURANCE_FEE"
    leg_found = {}
    for c in legs:
        w = defining_call(h, c.args[0])
        bankf, accf = [], []
        if w is not None and len(w[1]["args"]) == 3 and h.dinfo(w[1]["res"] if w[1].get("res") is not None else w[1]["raw"])["name"] in ("find", "find_or_create"):
            # wrapper provenance: BankAccountWrapper::find / find_or_create(bank key, bank, lending account)
            kf = acct_fields(ctx.slicer.operand(h, w[1]["args"][0], at=w[0]), skey)
            bankf = acct_fields(ctx.slicer.operand(h, w[1]["args"][1], at=w[0]), skey)
            accf = acct_fields(ctx.slicer.operand(h, w[1]["args"][2], at=w[0]), skey)
            if kf != bankf:
                bankf = sorted(set(kf) | set(bankf))
        amt = ctx.slicer.operand(h, c.args[1], at=c.block)
        leg_found[(c.callee["name"], tuple(bankf), tuple(accf))] = (c, amt)
    exp_legs = [
        ("withdraw_ignore_borrow_cap", ("liab_bank",), ("liquidator_marginfi_account",), "liquidator-debt-leg",
         lambda a: a.has_const(fee_l) and not a.has_const(fee_i) and a.has_call(prog, {"name": "calc_amount"}) and a.has_call(prog, {"name": "calc_value"})),
        ("withdraw_ignore_borrow_cap", ("asset_bank",), ("liquidatee_marginfi_account",), "liquidatee-collateral-leg",
         lambda a: 2 in a.params and not a.has_const(fee_l) and not a.has_call(prog, {"name": "calc_amount"})),
        ("deposit_ignore_deposit_cap", ("asset_bank",), ("liquidator_marginfi_account",), "liquidator-collateral-leg",
         lambda a: 2 in a.params and not a.has_const(fee_l) and not a.has_call(prog, {"name": "calc_amount"})),
        ("repay", ("liab_bank",), ("liquidatee_marginfi_account",), "liquidatee-debt-leg",
         lambda a: a.has_const(fee_l) and a.has_const(fee_i) and a.has_call(prog, {"name": "calc_amount"}) and a.has_call(prog, {"name": "calc_value"})),
    ]
    for nm, bf, af, label, pred in exp_legs:
        ent = leg_found.get((nm, bf, af))
        if ent is None:
            ctx.inst("C05.R5", label, False, "%s on (%s, %s)" % (nm, bf[0], af[0]), "legs found: %s" % sorted(k for k in leg_found), h.loc(h.raw["span"]))
            continue
        c, amt = ent
        ctx.inst("C05.R5", label, pred(amt), "%s on (%s, %s) with the expected amount wiring" % (nm, bf[0], af[0]), A._pvs(amt), c.loc)
    # calc_amount / calc_value argument wiring
    _ords5 = Ordinals()
    for c in calls_named("calc_amount"):
        v = ctx.slicer.operand(h, c.args[0], at=c.block)
        pr = ctx.slicer.operand(h, c.args[1], at=c.block)
        dec = ctx.slicer.operand(h, c.args[2], at=c.block)
        okp = pr.has_call(prog, {"name": "get_price_of_type"}) and not pr.has_call(prog, {"name": "fetch_asset_price_for_bank_low_bias"})
        okdec = "liab_bank" in acct_fields(dec, skey) and "asset_bank" not in acct_fields(dec, skey)
        ctx.inst("C05.R5", _ords5.key("calc_amount"), v.has_call(prog, {"name": "calc_value"}) and okp and okdec, "debt quantity = calc_amount(collateral value, high debt price, debt bank decimals)",
                 "price-ok=%s decimals-bank=%s" % (okp, acct_fields(dec, skey)), c.loc)
    for c in calls_named("calc_value"):
        a0 = ctx.slicer.operand(h, c.args[0], at=c.block)
        pr = ctx.slicer.operand(h, c.args[1], at=c.block)
        dec = ctx.slicer.operand(h, c.args[2], at=c.block)
        okp = pr.has_call(prog, {"name": "fetch_asset_price_for_bank_low_bias"}) and not pr.has_call(prog, {"name": "get_price_of_type"}) or \
            (pr.has_call(prog, {"name": "fetch_asset_price_for_bank_low_bias"}) and acct_fields(pr, skey) == ["asset_bank"])
        okdec = "asset_bank" in acct_fields(dec, skey) and "liab_bank" not in acct_fields(dec, skey)
        ctx.inst("C05.R5", _ords5.key("calc_value"), 2 in a0.params and okp and okdec, "collateral value = calc_value(asset_amount, low asset price, asset bank decimals, discount)",
                 "price-ok=%s decimals-bank=%s" % (okp, acct_fields(dec, skey)), c.loc)
    # insurance fee: difference, split into whole tokens (transfer) and fraction (bucket)
    tr = calls_named("withdraw_spl_transfer")
    if len(tr) != 1:
        ctx.inst("C05.R5", "insurance-transfer", False, "exactly one insurance-fee transfer", "%d" % len(tr), h.loc(h.raw["span"]))
    else:
        c = tr[0]
        amt = ctx.slicer.operand(h, c.args[1], at=c.block)
        frm = acct_fields(ctx.slicer.operand(h, c.args[2], at=c.block), skey)
        to = acct_fields(ctx.slicer.operand(h, c.args[3], at=c.block), skey)
        auth = acct_fields(ctx.slicer.operand(h, c.args[4], at=c.block), skey)
        seeds = ctx.slicer.operand(h, c.args[7], at=c.block)
        vs = {v for (a, v) in seeds.variants if a.endswith("BankVaultType")}
        bankv = acct_fields(ctx.slicer.operand(h, c.args[0], at=c.block), skey)
        probs = []
        if not (amt.has_call(prog, {"name": "checked_to_num"}) and amt.has_const(fee_l) and amt.has_const(fee_i) and amt.has_call(prog, {"name": "sub"})):
            probs.append("amount is not checked_to_num(liquidator amount - liquidatee amount): %s" % A._pvs(amt))
        if frm != ["bank_liquidity_vault"]:
            probs.append("source %s" % frm)
        if to != ["bank_insurance_vault"]:
            probs.append("destination %s" % to)
        if auth != ["bank_liquidity_vault_authority"]:
            probs.append("authority %s" % auth)
        if vs != {"Liquidity"} or "liab_bank" not in acct_fields(seeds, skey) or not seeds.has_field(BANK, "liquidity_vault_authority_bump"):
            probs.append("seeds %s of %s" % (sorted(vs), acct_fields(seeds, skey)))
        if "liab_bank" not in bankv:
            probs.append("transfer issued by %s" % bankv)
        if not A.must_pass(h, [c.block])[0] or not A.consumed(h, c.block)[0]:
            probs.append("transfer can be skipped or its result is unchecked")
        ctx.inst("C05.R5", "insurance-transfer", not probs, "whole insurance fee moves liquidity vault -> insurance vault of the debt bank, Liquidity seeds", "; ".join(probs) or "ok", c.loc)
    st_ = field_stores(ctx, h, BANK, "collected_insurance_fees_outstanding")
    ok = False
    for bi, s, pv in st_:
        ok = pv.has_call(prog, {"name": "frac"}) and pv.has_field(BANK, "collected_insurance_fees_outstanding") and pv.has_call(prog, {"name": "checked_add"}) and pv.has_const(fee_i) and \
            "liab_bank" in acct_fields(ctx.slicer.operand(h, {"c": {"l": s["d"]["l"]}}, at=bi), skey) if "d" in s else False
        ctx.inst("C05.R5", "insurance-dust", ok, "debt bank's outstanding insurance fees += frac(insurance fee)", A._pvs(pv), h.bloc(bi))
    if not st_:
        ctx.missing("C05.R5", "store to collected_insurance_fees_outstanding in liquidate")
    # cap-ignoring primitives are used only by this handler
    for nm in ("withdraw_ignore_borrow_cap", "deposit_ignore_deposit_cap"):
        users = sorted({k for k, f in prog.fns.items() if any(c.callee and c.callee["name"] == nm for c in f.calls())})
        ctx.inst("C05.R5", "only-liquidate-uses/" + nm, users == [h.key], "%s is called only by lending_account_liquidate" % nm, users, None)

    # ------------------------------------------------------------------ R6 constraints
    def preds(fname):
        f = st.field(fname)
        return [c.expr.replace(" ", "") for c in (f.cons if f else []) if c.kind == "pred"]
    lq = preds("liquidator_marginfi_account")
    le = preds("liquidatee_marginfi_account")
    ctx.inst("C05.R6", "liquidator-not-receivership", "!liquidator_marginfi_account.load()?.get_flag(ACCOUNT_IN_RECEIVERSHIP)" in lq, "liquidator must not be in receivership", lq, "%s:%d" % (st.file, st.line))
    ctx.inst("C05.R6", "liquidatee-not-receivership", "!liquidatee_marginfi_account.load()?.get_flag(ACCOUNT_IN_RECEIVERSHIP)" in le, "liquidatee must not be in receivership", le, "%s:%d" % (st.file, st.line))
    ctx.inst("C05.R6", "liquidator-authorized", "is_signer_authorized(&liquidator_marginfi_account.load()?,group.load()?.admin,authority.key(),false)" in lq and
             "account_not_frozen_for_authority(&liquidator_marginfi_account.load()?,authority.key())" in lq, "liquidator authorised with allow_receivership = false and frozen rule", lq, "%s:%d" % (st.file, st.line))
    for fld in ("asset_bank", "liab_bank", "liquidator_marginfi_account", "liquidatee_marginfi_account"):
        f = st.field(fld)
        b = [c for c in (f.cons if f else []) if c.kind == "keyeq" and c.f == "group" and c.b == "group"]
        ctx.inst("C05.R6", "group-bound/" + fld, bool(b), "%s bound to the instruction's group" % fld, "", "%s:%d" % (st.file, st.line))
    for fld, seed in (("bank_liquidity_vault_authority", "LIQUIDITY_VAULT_AUTHORITY_SEED"), ("bank_liquidity_vault", "LIQUIDITY_VAULT_SEED"), ("bank_insurance_vault", "INSURANCE_VAULT_SEED")):
        f = st.field(fld)
        sd = [c for c in (f.cons if f else []) if c.kind == "seeds"]
        ok = bool(sd) and len(sd[0].seeds) == 2 and sd[0].seeds[0].replace(" ", "").startswith(seed + ".") and sd[0].seeds[1].replace(" ", "").startswith("liab_bank.key()")
        ctx.inst("C05.R6", "pda/" + fld, ok, "%s = PDA[%s, liab_bank]" % (fld, seed), sd[0].seeds if sd else None, "%s:%d" % (st.file, st.line))


def run(ctx):
    from .kernels import check_kernels
    try:
        _run(ctx)
    finally:
        # numeric kernels this property's formulas rest on, pinned as canonical expression trees
        check_kernels(ctx, "C05.K", ['calc_amount', 'calc_value'])
