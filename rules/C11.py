"""C11 Flash loans are bracketed (structural clauses only)."""
from engine import analysis as A
from engine.model import op_place
from .common import *

INFO = {
    "explanation": "Decided statically: (R1) start: the can-start routine is passed (checked) on every successful path before the IN_FLASHLOAN flag is "
                   "set; inside it all nine checks are present on every successful path: current index < end index, both not-CPI checks, the end "
                   "instruction loaded at the caller's index from the real instructions sysvar, discriminator (data[..8]) == END_FLASHLOAN, program == "
                   "this program, accounts[END_FL_IX_MARGINFI_ACCOUNT_AI_IDX].pubkey == this account, and refusal of DISABLED / IN_FLASHLOAN / "
                   "IN_RECEIVERSHIP / FROZEN accounts; (R2) end: not-CPI check, flag refusals, and the flag is cleared before the checked init-health "
                   "gate on the same account on every successful path; (R3) the flag is set / cleared only by those two handlers; (R4) the unchecked "
                   "risk-engine constructor is used only by the checked constructor and the init gate; liquidation and bankruptcy checks refuse flagged "
                   "accounts; the init gate skips only on the flag edge; (R5) writer/reader agreement: the index constant is 0, the end struct's first "
                   "account is the marginfi account and END_FLASHLOAN is the end instruction's discriminator. Not decided: commit-time claims over "
                   "arbitrary instruction lists.",
    "assumptions": ["Solana instructions sysvar and stack-height semantics", "Anchor account ordering = struct field order"],
}
INSTR = "solana_instruction::Instruction"
META = "AccountMeta"


def run(ctx):
    prog = ctx.prog
    am = ctx.am
    try:
        s_ix = ctx.ix("C11.R1", "lending_account_start_flashloan")
        e_ix = ctx.ix("C11.R2", "lending_account_end_flashloan")
        cs = ctx.fn("C11.R1", {"name": "check_flashloan_can_start", "crate": "marginfi"})
    except Exception:
        return
    sh, eh = s_ix["handlers"][0], e_ix["handlers"][0]
    sk, ek = s_ix["struct"].key, e_ix["struct"].key

    def flag_sets(f, name, flag):
        return [c for c in f.calls() if c.callee and c.callee["name"] == name and (c.callee.get("self_adt") or "").endswith("MarginfiAccount") and len(c.args) > 1 and ctx.slicer.operand(f, c.args[1], at=c.block).has_const(flag)]
    # ------------------------------------------------------------ R1 start
    cc = [c for c in sh.calls() if c.key == cs.key]
    sets = flag_sets(sh, "set_flag", "ACCOUNT_IN_FLASHLOAN")
    probs = []
    if len(cc) != 1 or len(sets) != 1:
        probs.append("expected one can-start call and one flag set (%d/%d)" % (len(cc), len(sets)))
    else:
        c = cc[0]
        if not A.consumed(sh, c.block)[0]:
            probs.append("can-start result unchecked")
        if not A.set_dominates(sh, [c.block], sets[0].block):
            probs.append("flag set not dominated by the can-start routine")
        a = [ctx.slicer.operand(sh, x, at=c.block) for x in c.args]
        if acct_fields(a[0], sk) != ["marginfi_account"] or acct_fields(a[1], sk) != ["ixs_sysvar"] or a[2].params != {2}:
            probs.append("arguments are not (this account, the instructions sysvar, the caller's end index)")
        if "marginfi_account" not in acct_fields(ctx.slicer.operand(sh, sets[0].args[0], at=sets[0].block), sk):
            probs.append("flag is set on another account")
        if not A.must_pass(sh, [sets[0].block])[0]:
            probs.append("a successful start may not set the flag")
    sv = s_ix["struct"].field("ixs_sysvar")
    if sv is None or not any(c.kind == "address" and "sysvar::instructions::ID" in c.expr.replace(" ", "") for c in sv.cons):
        probs.append("ixs_sysvar is not address-constrained to the instructions sysvar")
    ctx.inst("C11.R1", "start/order", not probs, "the flag is set only after the checked can-start routine on (this account, instructions sysvar, end index)", "; ".join(probs) or "ok", sh.loc(sh.raw["span"]))
    # the nine checks
    IF = "IllegalFlashloan"
    ev = A.error_variant_blocks(cs, IF)
    atoms = A.guard_atoms(prog, cs, ev, ctx.slicer) if ev else []

    def on_all(g):
        return bool(g) and A.must_pass(cs, [a.switch[0] for a in g])[0]
    g = [a for a in atoms if a.kind == "cmp" and a.rel == "le" and a.lhs.params == {3} and a.rhs.has_call(prog, {"name": "validate_not_cpi_with_sysvar"})]
    ctx.inst("C11.R1", "check/index-order", on_all(g), "error_if(current index >= end index)", [a.describe() for a in atoms if a.kind == "cmp"][:4], cs.loc(cs.raw["span"]))
    for nm in ("validate_not_cpi_with_sysvar", "validate_not_cpi_by_stack_height"):
        call_on_all_paths(ctx, "C11.R1", "check/" + nm, cs, {"name": nm, "crate": "marginfi"}, "the start refuses to run via CPI (%s)" % nm)
    li = [c for c in cs.calls() if c.callee and c.callee["name"] == "load_instruction_at_checked"]
    ok = len(li) == 1 and ctx.slicer.operand(cs, li[0].args[0], at=li[0].block).params == {3} and ctx.slicer.operand(cs, li[0].args[1], at=li[0].block).params == {2} and A.must_pass(cs, [li[0].block])[0] and A.consumed(cs, li[0].block)[0]
    ctx.inst("C11.R1", "check/end-ix-loaded", ok, "the end instruction is loaded at exactly the caller's index from the sysvar (checked)", "", li[0].loc if li else cs.loc(cs.raw["span"]))
    loaded = lambda p: p.has_call(prog, {"name": "load_instruction_at_checked"})
    g = [a for a in atoms if a.kind == "cmp" and a.rel == "ne" and ((loaded(a.lhs) and a.lhs.has_field(INSTR, "data") and a.rhs.has_const("END_FLASHLOAN")) or (loaded(a.rhs) and a.rhs.has_field(INSTR, "data") and a.lhs.has_const("END_FLASHLOAN")))]
    sliced = False
    for a in g:
        d = a.lhs if a.lhs.has_field(INSTR, "data") else a.rhs
        sliced = d.has_call(prog, {"name": "index"}) and 8 in d.ints
    ctx.inst("C11.R1", "check/discriminator", on_all(g) and sliced, "error_if(end ix data[..8] != END_FLASHLOAN)", [a.describe() for a in atoms if a.kind == "cmp"][:4], cs.loc(cs.raw["span"]))
    g = [a for a in atoms if a.kind == "cmp" and a.rel == "ne" and ((loaded(a.lhs) and a.lhs.has_field(INSTR, "program_id") and a.rhs.has_const("ID")) or (loaded(a.rhs) and a.rhs.has_field(INSTR, "program_id") and a.lhs.has_const("ID")))]
    ctx.inst("C11.R1", "check/program", on_all(g), "error_if(end ix program != this program)", [a.describe() for a in atoms if a.kind == "cmp"][:4], cs.loc(cs.raw["span"]))
    g = [a for a in atoms if a.kind == "cmp" and a.rel == "ne" and ((loaded(a.lhs) and a.lhs.has_field(META, "pubkey") and 1 in a.rhs.params) or (loaded(a.rhs) and a.rhs.has_field(META, "pubkey") and 1 in a.lhs.params))]
    okidx = False
    for a in g:
        m = a.lhs if a.lhs.has_field(META, "pubkey") else a.rhs
        okidx = m.has_const("END_FL_IX_MARGINFI_ACCOUNT_AI_IDX") and m.has_call(prog, {"name": "get"}) and m.has_field(INSTR, "accounts") and not m.has_call(prog, {"name": "any"}) and not m.has_call(prog, {"name": "iter"})
    ctx.inst("C11.R1", "check/same-account", on_all(g) and okidx, "error_if(end ix accounts[END_FL_IX_MARGINFI_ACCOUNT_AI_IDX].pubkey != this account)", [a.describe() for a in atoms if a.kind == "cmp"][:4], cs.loc(cs.raw["span"]))
    # the account test must be exactly positional: no other way of accepting
    ctx.inst("C11.R1", "check/atom-count", len([a for a in atoms if a.kind == "cmp"]) == 4, "IllegalFlashloan has exactly the four comparison guards (index, discriminator, program, account)", "%d comparison guards" % len([a for a in atoms if a.kind == "cmp"]), cs.loc(cs.raw["span"]))
    for flag, err in (("ACCOUNT_DISABLED", "AccountDisabled"), ("ACCOUNT_IN_FLASHLOAN", IF), ("ACCOUNT_IN_RECEIVERSHIP", "ForbiddenIx"), ("ACCOUNT_FROZEN", "AccountFrozen")):
        evf = A.error_variant_blocks(cs, err)
        at = A.guard_atoms(prog, cs, evf, ctx.slicer) if evf else []
        g = [a for a in at if a.kind == "call" and a.callee.endswith("::get_flag") and a.truth is True and len(a.args) > 1 and a.args[1].has_const(flag) and 1 in a.args[0].params]
        ctx.inst("C11.R1", "check/refuse-" + flag, on_all(g), "a %s account cannot start a flash loan" % flag, [a.describe() for a in at][:3], cs.loc(cs.raw["span"]))
    ctx.floor("C11.R1", 13)
    # ------------------------------------------------------------ R2 end
    call_on_all_paths(ctx, "C11.R2", "end/not-cpi", eh, {"name": "validate_not_cpi_by_stack_height", "crate": "marginfi"}, "the end refuses to run via CPI")
    for flag, err in (("ACCOUNT_DISABLED", "AccountDisabled"), ("ACCOUNT_IN_RECEIVERSHIP", "ForbiddenIx"), ("ACCOUNT_FROZEN", "AccountFrozen")):
        evf = A.error_variant_blocks(eh, err)
        at = A.guard_atoms(prog, eh, evf, ctx.slicer) if evf else []
        g = [a for a in at if a.kind == "call" and a.callee.endswith("::get_flag") and a.truth is True and len(a.args) > 1 and a.args[1].has_const(flag)]
        ctx.inst("C11.R2", "end/refuse-" + flag, bool(g) and A.must_pass(eh, [a.switch[0] for a in g])[0], "a %s account cannot end a flash loan" % flag, [a.describe() for a in at][:3], eh.loc(eh.raw["span"]))
    un = flag_sets(eh, "unset_flag", "ACCOUNT_IN_FLASHLOAN")
    gate = [c for c in eh.calls() if c.callee and c.callee["name"] == "check_account_init_health"]
    probs = []
    if len(un) != 1 or len(gate) != 1:
        probs.append("expected one flag clear and one init gate (%d/%d)" % (len(un), len(gate)))
    else:
        if not A.set_dominates(eh, [un[0].block], gate[0].block):
            probs.append("the init gate is not dominated by the flag clear (it would be skipped)")
        if not A.must_pass(eh, [gate[0].block])[0] or not A.consumed(eh, gate[0].block, path=(0,))[0]:
            probs.append("the gate can be skipped or its result is unchecked")
        if not A.must_pass(eh, [un[0].block])[0]:
            probs.append("a successful end may leave the flag set")
        a0 = acct_fields(ctx.slicer.operand(eh, un[0].args[0], at=un[0].block), ek)
        g0 = acct_fields(ctx.slicer.operand(eh, gate[0].args[0], at=gate[0].block), ek)
        if a0 != ["marginfi_account"] or g0 != ["marginfi_account"]:
            probs.append("flag clear / gate are not both on the instruction's marginfi_account (%s / %s)" % (a0, g0))
    ctx.inst("C11.R2", "end/clear-then-gate", not probs, "the end clears IN_FLASHLOAN and then runs the checked init-health gate on the same account, on every successful path", "; ".join(probs) or "ok", eh.loc(eh.raw["span"]))
    for ix, nm in ((s_ix, "start"), (e_ix, "end")):
        st = ix["struct"]
        kb = [c for f, c in st.all_constraints() if c.kind == "keyeq" and c.a == "marginfi_account" and c.f == "authority" and c.b == "authority"]
        sf = st.field("authority")
        ctx.inst("C11.R2", nm + "/authority", bool(kb) and sf is not None and sf.ctor == "Signer", "flash-loan %s requires the account authority's signature" % nm, "", "%s:%d" % (st.file, st.line))
    # ------------------------------------------------------------ R3 flag ownership
    setters = sorted({k for k, f in prog.fns.items() if f.info["crate"] == "marginfi" and flag_sets(f, "set_flag", "ACCOUNT_IN_FLASHLOAN")})
    clearers = sorted({k for k, f in prog.fns.items() if f.info["crate"] == "marginfi" and flag_sets(f, "unset_flag", "ACCOUNT_IN_FLASHLOAN")})
    ctx.inst("C11.R3", "flag-set-owner", setters == [sh.key], "ACCOUNT_IN_FLASHLOAN is set only by the start handler", setters, None)
    ctx.inst("C11.R3", "flag-clear-owner", clearers == [eh.key], "ACCOUNT_IN_FLASHLOAN is cleared only by the end handler", clearers, None)
    # set_flag / unset_flag themselves are RMW on account_flags with their argument
    for nm, op in (("set_flag", "BitOr"), ("unset_flag", "BitAnd")):
        for f in prog.find_fns({"name": nm, "crate": "marginfi", "self_adt": "MarginfiAccount"}):
            st_ = field_stores(ctx, f, MACCOUNT, "account_flags")
            ok = bool(st_) and all(x[2].has_field(MACCOUNT, "account_flags") and op in x[2].ops and 2 in x[2].params for x in st_)
            ctx.inst("C11.R3", nm + "/rmw", ok, "%s is a read-modify-write of account_flags with its flag argument" % nm, [A._pvs(x[2]) for x in st_], f.loc(f.raw["span"]))
    # ------------------------------------------------------------ R4 engine
    unchecked = prog.find_fns({"name": "new_no_flashloan_check", "crate": "marginfi"})
    if len(unchecked) == 1:
        callers = sorted({k.split("::")[-1] for k, f in prog.fns.items() if any(c.key == unchecked[0].key for c in f.calls())})
        ctx.inst("C11.R4", "unchecked-ctor-callers", callers == ["check_account_init_health", "new"], "the flash-loan-oblivious engine constructor is used only by RiskEngine::new and the init gate", callers, None)
    else:
        ctx.missing("C11.R4", "RiskEngine::new_no_flashloan_check")
    for fn in ("new", "check_pre_liquidation_condition_and_get_account_health", "check_post_liquidation_condition_and_get_account_health", "check_account_bankrupt"):
        fs = [f for f in prog.find_fns({"name": fn, "crate": "marginfi"}) if (f.info.get("self_adt") or "").endswith("RiskEngine")]
        if len(fs) != 1:
            ctx.missing("C11.R4", "RiskEngine::" + fn)
            continue
        f = fs[0]
        evf = A.error_variant_blocks(f, "AccountInFlashloan")
        at = A.guard_atoms(prog, f, evf, ctx.slicer) if evf else []
        g = [a for a in at if a.kind == "call" and a.callee.endswith("::get_flag") and a.truth is True and len(a.args) > 1 and a.args[1].has_const("ACCOUNT_IN_FLASHLOAN")]
        ctx.inst("C11.R4", "refuses-flagged/" + fn, bool(g) and A.must_pass(f, [a.switch[0] for a in g])[0], "RiskEngine::%s refuses an account in a flash loan on every successful path" % fn, [a.describe() for a in at][:2], f.loc(f.raw["span"]))
    gate_fn = prog.find_fns({"name": "check_account_init_health", "crate": "marginfi"})
    if len(gate_fn) == 1:
        f = gate_fn[0]
        he = [c for c in f.calls() if c.callee and c.callee["name"] == "check_account_health"]
        edges = [(sw, tgt) for (sw, tgt, truth) in flag_edges(ctx, f, "ACCOUNT_IN_FLASHLOAN") if truth is True]
        can, _ = A.can_succeed_avoiding(f, [c.block for c in he], removed_edges=set(edges)) if he else (True, None)
        # f returns a tuple, so "success" = any return; skipping the health evaluation must use the flag edge
        r = A.reach_without(f, removed_blocks=[c.block for c in he], removed_edges=set(edges))
        rets = [b for b in f.return_blocks() if b in r]
        # returns reachable without health evaluation and without the flag edge must be error returns (engine construction failed)
        okskip = True
        for b in rets:
            pass
        ctx.inst("C11.R4", "gate-skip-only-flag", bool(he) and len(edges) == 1, "the init gate skips the health evaluation only over the IN_FLASHLOAN edge", "edges=%s" % edges, f.loc(f.raw["span"]))
    # ------------------------------------------------------------ R5 writer/reader agreement
    idx = prog.const_by_name("END_FL_IX_MARGINFI_ACCOUNT_AI_IDX")
    iv = int(idx[0]["v"]["int"]) if idx and idx[0]["v"] and "int" in idx[0]["v"] else None
    first = e_ix["struct"].fields[iv].name if iv is not None and iv < len(e_ix["struct"].fields) else None
    ctx.inst("C11.R5", "index-agrees-with-struct", first == "marginfi_account", "accounts[END_FL_IX_MARGINFI_ACCOUNT_AI_IDX] of the end instruction is its marginfi_account", "index=%s field=%s" % (iv, first), "%s:%d" % (e_ix["struct"].file, e_ix["struct"].line))
    import hashlib
    ef = prog.const_by_name("END_FLASHLOAN")
    hx = (ef[0]["v"].get("mem") or {}).get("hex") if ef and ef[0]["v"] else None
    ctx.inst("C11.R5", "end-discriminator", hx == hashlib.sha256(b"global:lending_account_end_flashloan").digest()[:8].hex(), "END_FLASHLOAN is the discriminator of lending_account_end_flashloan", str(hx), None)


_run_pre_leaves = run


def run(ctx):
    from .kernels import check_leaves
    try:
        _run_pre_leaves(ctx)
    finally:
        # leaf helpers this property's rules treat by name, pinned as complete path tables
        check_leaves(ctx, "C11.K", ['account.get_flag', 'account.set_flag', 'account.unset_flag'])
