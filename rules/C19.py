"""C19 Fees and emissions reach only their destinations (structural clauses only)."""
from engine import analysis as A
from engine.model import op_place
from .common import *

INFO = {
    "explanation": "Decided statically: (R1) fee collection: each bucket's transfer amount, destination and new bucket value belong together (insurance -> "
                   "insurance vault PDA, group -> fee vault PDA, program -> fee_ata) and fee_ata is guarded by InvalidFeeAta against the ATA of the global "
                   "fee wallet, the bank's mint and the token program; the vault PDAs are seeds-bound to the bank; (R2) vault drawdown: Fee-authority "
                   "transfers only in the admin withdrawal and the permissionless one whose destination is key-bound to bank.fees_destination_account "
                   "(assigned only by the admin instruction); Insurance-authority transfers only in bankruptcy and the admin withdrawal; (R3) emissions: "
                   "credited = min(computed, emissions_remaining), the same value is added to the position and subtracted from the pool, the position's "
                   "emissions timestamp is refreshed on every successful claim (also when nothing accrues), the accrual period is now - last_update, the "
                   "pool is assigned only by setup / update / claim, payout = floor(outstanding) with the remainder kept, transfers are signed by the "
                   "(bank, mint) emissions PDA from the emissions vault PDA, the authority-signed withdrawal vs the ATA-of-registered-wallet guard of the "
                   "permissionless one, and the destination registration requires the authority. Not decided: proportionality of emissions as numbers.",
    "assumptions": ["get_associated_token_address_with_program_id derives the canonical ATA", "SPL transfer_checked semantics"],
}


def run(ctx):
    prog = ctx.prog
    am = ctx.am
    # ------------------------------------------------------------ R1 collection
    try:
        ix = ctx.ix("C19.R1", "lending_pool_collect_bank_fees")
        h = ix["handlers"][0]
        st = ix["struct"]
        skey = st.key
        ts = transfer_sites(ctx, h, skey)
        dest_of = {"collected_insurance_fees_outstanding": "insurance_vault", "collected_group_fees_outstanding": "fee_vault", "collected_program_fees_outstanding": "fee_ata"}
        for b, dst in dest_of.items():
            tt = [t for t in ts if t["to"] == [dst]]
            ok = len(tt) == 1
            why = "%d transfers" % len(tt)
            if ok:
                # the amount handed to the transfer is this bucket's own min(..).int(): its defining chain reaches a min() whose first argument reads this bucket
                a = tt[0]["amount"]
                ok = a.has_field(BANK, b) and tt[0]["from"] == ["liquidity_vault"]
                # exact pairing through the defining call chain: amount <- checked_to_num(int(int(min(bucket, available))))
                c = tt[0]["call"]
                o = c.args[1]
                names = []
                cur = o
                for _ in range(8):
                    dc = defining_call(h, cur)
                    if dc is None:
                        break
                    nm = h.dinfo(dc[1]["res"] if dc[1].get("res") is not None else dc[1]["raw"])["name"]
                    names.append(nm)
                    if nm == "min":
                        b0 = ctx.slicer.operand(h, dc[1]["args"][0], at=dc[0])
                        ok = ok and b0.has_field(BANK, b) and not any(b0.has_field(BANK, x) for x in dest_of if x != b)
                        break
                    cur = dc[1]["args"][0]
                ok = ok and "min" in names and "int" in names and "checked_to_num" in names
                why = "chain=%s" % names
            ctx.inst("C19.R1", "collect-pairing/" + b, ok, "the transfer to %s moves the whole-token part of min(%s, available liquidity)" % (dst, b), why, h.loc(h.raw["span"]))
        expect_atom(ctx, "C19.R1", "fee-ata-guard", h, "InvalidFeeAta", "ne",
                    lambda p: acct_fields(p, skey) == ["fee_ata"] or p.has_call(prog, {"name": "get_associated_token_address_with_program_id"}),
                    lambda p: acct_fields(p, skey) == ["fee_ata"] or p.has_call(prog, {"name": "get_associated_token_address_with_program_id"}), "error_if(fee_ata != ATA(global fee wallet, bank mint, token program))")
        for c in h.calls():
            if c.callee and c.callee["name"] == "get_associated_token_address_with_program_id":
                a = [ctx.slicer.operand(h, x, at=c.block) for x in c.args]
                ok = a[0].has_field("FeeState", "global_fee_wallet") and acct_fields(a[0], skey) == ["fee_state"] and a[1].has_field(BANK, "mint") and acct_fields(a[2], skey) == ["token_program"]
                ctx.inst("C19.R1", "fee-ata-derivation", ok, "expected ATA = f(fee_state.global_fee_wallet, bank.mint, token_program)", "", c.loc)
        for fld, seed in (("liquidity_vault", "LIQUIDITY_VAULT_SEED"), ("insurance_vault", "INSURANCE_VAULT_SEED"), ("fee_vault", "FEE_VAULT_SEED"), ("liquidity_vault_authority", "LIQUIDITY_VAULT_AUTHORITY_SEED")):
            f = st.field(fld)
            sd = [c for c in (f.cons if f else []) if c.kind == "seeds"]
            ok = bool(sd) and len(sd[0].seeds) == 2 and sd[0].seeds[0].replace(" ", "").startswith(seed + ".") and sd[0].seeds[1].replace(" ", "").startswith("bank.key()")
            ctx.inst("C19.R1", "collect-pda/" + fld, ok, "%s = PDA[%s, bank]" % (fld, seed), sd[0].seeds if sd else None, "%s:%d" % (st.file, st.line))
        fs = st.field("fee_state")
        sd = [c for c in (fs.cons if fs else []) if c.kind == "seeds"]
        ctx.inst("C19.R1", "collect-pda/fee_state", bool(sd) and [s.replace(" ", "") for s in sd[0].seeds] == ["FEE_STATE_SEED.as_bytes()"], "fee_state is the global fee-state PDA", "", "%s:%d" % (st.file, st.line))
    except Exception as e:
        if e.__class__.__name__ != "AnchorMissing":
            raise
    # ------------------------------------------------------------ R2 drawdown
    for ixn, vt, src, role, dest_rule in (("lending_pool_withdraw_fees", "Fee", "fee_vault", "admin", None), ("lending_pool_withdraw_insurance", "Insurance", "insurance_vault", "admin", None),
                                          ("lending_pool_withdraw_fees_permissionless", "Fee", "fee_vault", None, "fees_destination_account")):
        try:
            ix = ctx.ix("C19.R2", ixn)
        except Exception:
            continue
        h = ix["handlers"][0]
        st = ix["struct"]
        ts = transfer_sites(ctx, h, st.key)
        probs = []
        if len(ts) != 1 or ts[0]["vault_types"] != {vt} or ts[0]["from"] != [src]:
            probs.append("expected one %s-authority transfer from %s (found %s)" % (vt, src, [(sorted(t["vault_types"]), t["from"]) for t in ts]))
        if role:
            ks = [c for f, c in st.all_constraints() if c.kind == "keyeq" and c.f == role and c.a == "group"]
            sf = st.field(ks[0].b) if ks else None
            if not ks or sf is None or sf.ctor != "Signer":
                probs.append("group.%s Signer binding missing" % role)
        if dest_rule:
            kb = [c for f, c in st.all_constraints() if c.kind == "keyeq" and c.a == "bank" and c.f == dest_rule and not getattr(c, "neg", False)]
            if not kb or (ts and ts[0]["to"] != [kb[0].b]):
                probs.append("destination is not key-bound to bank.%s" % dest_rule)
        f = st.field(src)
        sd = [c for c in (f.cons if f else []) if c.kind == "seeds"]
        if not sd or not sd[0].seeds[1].replace(" ", "").startswith("bank.key()"):
            probs.append("%s is not the bank's PDA" % src)
        ctx.inst("C19.R2", "drawdown/" + ixn, not probs, "%s draws the %s vault only %s" % (ixn, vt.lower(), "under the group admin's signature" if role else "into the admin-fixed destination"), "; ".join(probs) or "ok", h.loc(h.raw["span"]))
    ws = sorted(k for k, kinds in writers_of(prog, BANK, "fees_destination_account") if "assign" in kinds)
    upd = am.ix("lending_pool_update_fees_destination_account")
    cb = am.ix("lending_pool_clone_bank")    # staging/localnet-only clone into a new bank (admin-signed)
    okset = {upd["handlers"][0].key} if upd else set()
    if cb:
        okset.add(cb["handlers"][0].key)
    ctx.inst("C19.R2", "fees-destination-writers", upd is not None and set(ws) <= okset and upd["handlers"][0].key in ws, "bank.fees_destination_account is assigned only by the admin instruction", ws, None)

    # ------------------------------------------------------------ R3 emissions
    ce = prog.find_fns({"name": "claim_emissions", "crate": "marginfi"})
    if len(ce) != 1:
        ctx.missing("C19.R3", "claim_emissions")
        return
    ce = ce[0]
    mins = [c for c in ce.calls() if c.callee and c.callee["name"] == "min"]
    okmin = False
    for c in mins:
        pa = [ctx.slicer.operand(ce, x, at=c.block) for x in c.args]
        okmin = any(p.has_call(prog, {"name": "calc_emissions"}) and not p.has_field(BANK, "emissions_remaining") for p in pa) and any(p.has_field(BANK, "emissions_remaining") and not p.has_call(prog, {"name": "calc_emissions"}) for p in pa)
    ctx.inst("C19.R3", "claim/capped", okmin and len(mins) == 1, "credited emissions = min(computed, bank.emissions_remaining)", "", mins[0].loc if mins else ce.loc(ce.raw["span"]))
    from .C02 import root_parity
    so = field_stores(ctx, ce, BALANCE, "emissions_outstanding")
    sr = field_stores(ctx, ce, BANK, "emissions_remaining")
    ok = len(so) == 1 and len(sr) == 1
    if ok:
        po, pr = so[0][2], sr[0][2]
        ok = po.has_field(BALANCE, "emissions_outstanding") and po.has_call(prog, {"name": "checked_add"}) and po.has_call(prog, {"name": "min"}) and \
            pr.has_field(BANK, "emissions_remaining") and pr.has_call(prog, {"name": "checked_sub"}) and pr.has_call(prog, {"name": "min"})
        # the same value object is added and subtracted
        adds = [c for c in ce.calls() if c.callee and c.callee["name"] == "checked_add"]
        subs = [c for c in ce.calls() if c.callee and c.callee["name"] == "checked_sub"]
        ra = {root_parity(ce, c.args[1]) for c in adds}
        rs = {root_parity(ce, c.args[1]) for c in subs if ctx.slicer.operand(ce, c.args[0], at=c.block).has_field(BANK, "emissions_remaining")}
        ok = ok and bool(ra & rs)
    ctx.inst("C19.R3", "claim/conserves", ok, "the same capped value is added to the position's outstanding emissions and subtracted from the pool", "", ce.loc(ce.raw["span"]))
    lu = field_stores(ctx, ce, BALANCE, "last_update")
    oklu = len(lu) == 1 and lu[0][2].params == {2} and not lu[0][2].fields and A.must_pass(ce, [lu[0][0]])[0]
    ctx.inst("C19.R3", "claim/timestamp-always", oklu, "every successful claim sets the position's emissions timestamp to now, whether or not anything accrued", "%d stores" % len(lu), ce.bloc(lu[0][0]) if lu else ce.loc(ce.raw["span"]))
    # period = now - last_update
    cs = [c for c in ce.calls() if c.callee and c.callee["name"] == "calc_emissions"]
    for c in cs:
        per = ctx.slicer.operand(ce, c.args[0], at=c.block)
        amt = ctx.slicer.operand(ce, c.args[1], at=c.block)
        rate = ctx.slicer.operand(ce, c.args[3], at=c.block)
        ok = 2 in per.params and per.has_field(BALANCE, "last_update") and per.has_call(prog, {"name": "checked_sub"}) and \
            (amt.has_call(prog, {"name": "get_asset_amount"}) or amt.has_call(prog, {"name": "get_liability_amount"})) and rate.has_field(BANK, "emissions_rate")
        ctx.inst("C19.R3", "claim/inputs", ok, "emissions = f(now - position.last_update, position amount, decimals, bank.emissions_rate)", "period=%s" % A._pvs(per), c.loc)
    # side selection table: which converter is used for which (side, flags)
    ws = sorted(k for k, kinds in writers_of(prog, BANK, "emissions_remaining") if "assign" in kinds)
    allowed = {ce.key}
    for n in ("lending_pool_setup_emissions", "lending_pool_update_emissions_parameters"):
        if am.ix(n):
            allowed.add(am.ix(n)["handlers"][0].key)
    ctx.inst("C19.R3", "pool-writers", set(ws) <= allowed and ce.key in ws, "the emissions pool is assigned only by setup, update and claim", ws, None)
    st_fn = prog.find_fns({"name": "settle_emissions_and_get_transfer_amount", "crate": "marginfi"})
    if len(st_fn) == 1:
        f = st_fn[0]
        pv = ctx.slicer.local(f, 0, path=(0,))
        ok = pv.has_call(prog, {"name": "checked_floor"}) and pv.has_field(BALANCE, "emissions_outstanding") and not pv.has_call(prog, {"name": "checked_ceil"})
        cl = [c for c in f.calls() if c.key == ce.key]
        ok = ok and bool(cl) and A.must_pass(f, [c.block for c in cl])[0] and all(A.consumed(f, c.block)[0] for c in cl)
        so2 = field_stores(ctx, f, BALANCE, "emissions_outstanding")
        ok = ok and len(so2) == 1 and so2[0][2].has_call(prog, {"name": "checked_sub"}) and so2[0][2].has_call(prog, {"name": "checked_floor"})
        ctx.inst("C19.R3", "settle/floor", ok, "payout = floor(outstanding) after a checked claim; the fraction stays outstanding", A._pvs(pv), f.loc(f.raw["span"]))
    else:
        ctx.missing("C19.R3", "settle_emissions_and_get_transfer_amount")
    for ixn, permissionless in (("lending_account_withdraw_emissions", False), ("lending_account_withdraw_emissions_permissionless", True)):
        try:
            ix = ctx.ix("C19.R3", ixn)
        except Exception:
            continue
        h = ix["handlers"][0]
        st = ix["struct"]
        skey = st.key
        probs = []
        tc = [c for c in h.calls() if c.callee and c.callee["name"] == "transfer_checked"]
        if len(tc) != 1:
            probs.append("%d transfers" % len(tc))
        else:
            c = tc[0]
            cpi = ctx.slicer.operand(h, c.args[0], at=c.block)
            amt = ctx.slicer.operand(h, c.args[1], at=c.block)
            fl = set(acct_fields(cpi, skey))
            if not {"emissions_vault", "destination_account", "emissions_auth", "emissions_mint"} <= fl:
                probs.append("transfer accounts are %s" % sorted(fl))
            if not (cpi.has_const("EMISSIONS_AUTH_SEED") and "bank" in fl):
                probs.append("not signed with the (bank, mint) emissions authority seeds")
            if not amt.has_call(prog, {"name": "settle_emissions_and_get_transfer_amount"}):
                probs.append("amount is not the settled payout")
            # from / to / authority positions
            for bi, bb in enumerate(h.blocks):
                for s in bb["s"]:
                    v = s.get("v")
                    if v and v["r"] == "agg" and v.get("ak") == "adt" and v["adt"].endswith("TransferChecked"):
                        roles = {n: acct_fields(ctx.slicer.operand(h, o, at=bi), skey) for n, o in zip(v["fields"], v["a"])}
                        if roles.get("from") != ["emissions_vault"] or roles.get("to") != ["destination_account"] or roles.get("authority") != ["emissions_auth"]:
                            probs.append("TransferChecked roles %s" % roles)
        for fld, seed in (("emissions_auth", "EMISSIONS_AUTH_SEED"), ("emissions_vault", "EMISSIONS_TOKEN_ACCOUNT_SEED")):
            f = st.field(fld)
            sd = [c for c in (f.cons if f else []) if c.kind == "seeds"]
            if not sd or [x.replace(" ", "") for x in sd[0].seeds] != [seed + ".as_bytes()", "bank.key().as_ref()", "emissions_mint.key().as_ref()"]:
                probs.append("%s is not PDA[%s, bank, mint]" % (fld, seed))
        if not any(c.kind == "keyeq" and c.a == "bank" and c.f == "emissions_mint" for f, c in st.all_constraints()):
            probs.append("emissions_mint not bound to bank.emissions_mint")
        if permissionless:
            ev = A.error_variant_blocks(h, "InvalidEmissionsDestinationAccount")
            atoms = A.guard_atoms(prog, h, ev, ctx.slicer) if ev else []
            ata = [a for a in atoms if a.kind == "cmp" and a.rel == "ne" and (a.lhs.has_call(prog, {"name": "get_associated_token_address_with_program_id"}) or a.rhs.has_call(prog, {"name": "get_associated_token_address_with_program_id"}))
                   and ("destination_account" in acct_fields(a.lhs, skey) + acct_fields(a.rhs, skey))]
            dflt = [a for a in atoms if a.kind == "cmp" and a.rel == "eq" and (a.lhs.has_field(MACCOUNT, "emissions_destination_account") or a.rhs.has_field(MACCOUNT, "emissions_destination_account"))]
            if not ata or not A.must_pass(h, [a.switch[0] for a in ata])[0]:
                probs.append("destination is not checked against the ATA of the registered wallet on every successful path")
            if not dflt:
                probs.append("an unset registered wallet is not refused")
            for c in h.calls():
                if c.callee and c.callee["name"] == "get_associated_token_address_with_program_id":
                    a = [ctx.slicer.operand(h, x, at=c.block) for x in c.args]
                    if not (a[0].has_field(MACCOUNT, "emissions_destination_account") and acct_fields(a[1], skey) == ["emissions_mint"] and acct_fields(a[2], skey) == ["token_program"]):
                        probs.append("ATA is not derived from (registered wallet, emissions mint, token program)")
            if any(f.ctor == "Signer" for f in st.fields):
                pass
        else:
            if ixn not in ("lending_account_withdraw_emissions",):
                pass
            preds = [c.expr.replace(" ", "") for c in st.field("marginfi_account").cons if c.kind == "pred"]
            if not any(p.startswith("is_signer_authorized(") and p.endswith(",false)") for p in preds):
                probs.append("authority rule missing")
        ctx.inst("C19.R3", "payout/" + ixn, not probs, "%s pays the settled amount from the emissions vault PDA, signed by the emissions authority PDA, to %s" % (ixn, "the ATA of the registered wallet" if permissionless else "the authority's chosen account"), "; ".join(probs) or "ok", h.loc(h.raw["span"]))
    ws = sorted(k for k, kinds in writers_of(prog, MACCOUNT, "emissions_destination_account") if "assign" in kinds)
    reg = am.ix("marginfi_account_update_emissions_destination_account")
    okw_set = ({reg["handlers"][0].key} if reg else set()) | {f.key for f in prog.find_fns({"name": "initialize", "crate": "marginfi", "self_adt": "MarginfiAccount"})}
    for n in ("transfer_to_new_account", "transfer_to_new_account_pda"):     # authority-signed move to the authority's new account
        if am.ix(n):
            okw_set.add(am.ix(n)["handlers"][0].key)
    okw = reg is not None and set(ws) <= okw_set
    ctx.inst("C19.R3", "destination-writers", okw and bool(ws), "the registered emissions wallet is assigned only by the authority-signed registration (and account initialisation)", ws, None)



def _emissions_funding(ctx):
    """C19.R3: what the emissions admin funds is what is promised: the pool grows by the net amount the vault receives,
    the transfer is grossed up for the Token-2022 fee."""
    import re
    prog = ctx.prog
    for nm, want_pool in (("lending_pool_setup_emissions", "p4"), ("lending_pool_update_emissions_parameters", "checked_add(load_mut(p1.accounts.bank).emissions_remaining,p4)")):
        fs = [x for x in prog.find_fns({"name": nm, "crate": "marginfi"}) if "::instructions::" in x.key]
        if len(fs) != 1:
            ctx.missing("C19.R3", nm)
            continue
        f = fs[0]
        pools = []
        for bi, bb in enumerate(f.blocks):
            for s_ in bb["s"]:
                d_ = s_.get("d")
                if d_ and d_.get("p") and any(isinstance(e, dict) and e.get("n") == "emissions_remaining" for e in d_["p"]) and s_.get("v"):
                    pools.append(rvalue_tree(prog, f, s_["v"], inline=1))
        tr = [expr_tree(prog, f, c.args[1], inline=1) for c in f.calls() if c.callee and c.callee["name"] in ("transfer_checked", "deposit_spl_transfer") and len(c.args) >= 2]
        okp = pools == [want_pool]
        okt = tr == ["calculate_pre_fee_spl_deposit_amount(to_account_info(p1.accounts.emissions_mint),p4,get().epoch)"]
        ctx.inst("C19.R3", "funding/credited-equals-net-received/" + nm, okp and okt,
                 "%s: emissions_remaining %s the funded amount x, and the funder is charged pre-fee(x) so that x arrives in the emissions vault" % (nm, "becomes" if "setup" in nm else "grows by"),
                 {"pool": pools, "transfer": tr}, f.loc(f.raw["span"]))


_run_pre_funding = run


def run(ctx):
    try:
        _run_pre_funding(ctx)
    finally:
        _emissions_funding(ctx)
