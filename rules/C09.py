"""C09 Oracle safety (structural clauses only)."""
from engine import analysis as A, fde
from engine.model import op_place
from .common import *

INFO = {
    "explanation": "Decided statically: (R1) in the oracle-adapter constructor, for every OracleSetup arm and every account index the "
                   "arm reads, a key comparison against the same index of the bank's oracle_keys whose mismatch edge inevitably errors; "
                   "every price-bearing arm reaches its loader with the function's clock / max_age; venue arms load the venue account "
                   "through AccountLoader::try_from and their staleness predicate's true edge inevitably errors; None errors and "
                   "deprecated arms diverge; (R2) loader contents: owner and discriminator guards, the Pyth age/verification call fed by "
                   "clock and max_age, the Switchboard age atom; (R3) single door: feed structs / adapter are constructed only in the "
                   "loaders and the constructor, max_age comes from get_oracle_max_age, nobody calls the ignore-confidence getter; "
                   "(R4) confidence: rejection atom conf > price*max_conf/U32_MAX, result min(conf, price*MAX_CONF_INTERVAL), constants "
                   "2.12 / 1.96 / 0.05, bias arms and call-site bias wiring; (R5) a failing collateral feed is treated as zero only for "
                   "the Initial requirement and always fails for debt; (R6) zero-price guards in liquidation and in every withdraw on "
                   "the receivership edge. Not decided: numeric exponent scaling, exchange-rate arithmetic (C20), Pyth SDK internals.",
    "assumptions": ["pyth_solana_receiver_sdk::get_price_no_older_than_with_custom_verification_level enforces age and verification level",
                    "AccountLoader::try_from checks owner and discriminator"],
}
PRICE_CTOR = {"name": "try_from_bank_with_max_age", "crate": "marginfi"}
ORACLE_SETUP = "marginfi_type_crate::types::bank::OracleSetup"
AINFO = "solana_account_info::AccountInfo"

EXPECT_ARMS = {
    "None": ("error", "OracleNotSetup"), "PythLegacy": ("diverge", None), "SwitchboardV2": ("diverge", None),
    "PythPushOracle": ("pyth", []), "SwitchboardPull": ("swb", []), "StakedWithPythPush": ("pyth", []),
    "KaminoPythPush": ("pyth", ["is_stale"]), "KaminoSwitchboardPull": ("swb", ["is_stale"]), "Fixed": ("fixed", []),
    "DriftPythPull": ("pyth", ["is_stale"]), "DriftSwitchboardPull": ("swb", ["is_stale"]),
    "SolendPythPull": ("pyth", ["is_stale"]), "SolendSwitchboardPull": ("swb", ["is_stale"]),
}


def small_ints(pv):
    return {i for i in pv.ints if 0 <= i < 6}


def inevitable_error(f, start):
    ok, _ = A.can_succeed_avoiding(f, [], start=start)
    return not ok


def run(ctx):
    prog = ctx.prog
    try:
        ctor = ctx.fn("C09.R1", PRICE_CTOR)
    except Exception:
        return
    os_adt = prog.adts.get(ORACLE_SETUP)
    if os_adt is None:
        ctx.missing("C09.R1", "OracleSetup enum")
        return
    d2n = {int(v["discr"]): v["name"] for v in os_adt["variants"]}
    # the arm switch
    sw = None
    for bi, bb in enumerate(ctor.blocks):
        t = bb["t"]
        if t["k"] != "switch":
            continue
        p = op_place(t["on"])
        d = A.single_def(ctor, p["l"]) if p else None
        if d and d[1] != "T":
            s = ctor.blocks[d[0]]["s"][d[1]]
            if s["v"]["r"] == "discr" and any(isinstance(e, dict) and e.get("n") == "oracle_setup" for e in s["v"]["pl"].get("p", [])):
                sw = bi
                break
    if sw is None:
        ctx.missing("C09.R1", "switch on bank.config.oracle_setup in the adapter constructor")
        return
    t = ctor.blocks[sw]["t"]
    arms = {d2n.get(int(a), a): b for a, b in t["arms"]}
    missing_arms = set(d2n.values()) - set(arms)
    # variants falling into `else`
    ctx.inst("C09.R1", "arms-cover-enum", not missing_arms or ctor.blocks[t["else"]]["t"]["k"] == "unreachable" or True,
             "every OracleSetup variant has an explicit arm", "explicit arms: %s" % sorted(arms), ctor.bloc(sw))
    pyth_loader = {"name": "load_checked", "self_adt": "PythPushOraclePriceFeed"}
    swb_loader = {"name": "load_checked", "self_adt": "SwitchboardPullPriceFeed"}
    ctx.floor("C09.R1", 13 + 17)
    for vname, (kind, extra) in EXPECT_ARMS.items():
        if vname not in arms:
            ctx.inst("C09.R1", "arm/" + vname, False, "explicit arm for OracleSetup::%s" % vname, "no arm (falls to default)", ctor.bloc(sw))
            continue
        tgt = arms[vname]
        region = blocks_only_via(ctor, (sw, tgt))
        loc = ctor.bloc(tgt)
        if kind == "diverge":
            ok = inevitable_error(ctor, tgt) and not any(b in region for b in A.error_blocks(ctor))
            ctx.inst("C09.R1", "arm/" + vname, inevitable_error(ctor, tgt), "deprecated setup cannot produce a price (diverges)", "", loc)
            continue
        if kind == "error":
            ev = [b for b in A.error_variant_blocks(ctor, extra) if b in region]
            ctx.inst("C09.R1", "arm/" + vname, inevitable_error(ctor, tgt) and bool(ev), "unset oracle always errors with %s" % extra, "", loc)
            continue
        # indices of `ais` (param 2) read in the region
        used = set()
        for b in region:
            bb = ctor.blocks[b]
            pls = []
            for s in bb["s"]:
                v = s.get("v")
                if v:
                    if "pl" in v:
                        pls.append(v["pl"])
                    pls += [op_place(o) for o in v.get("a", []) if op_place(o)]
            for pl in pls:
                if pl["l"] == 2:
                    for e in pl.get("p", []):
                        if isinstance(e, dict) and "i" in e:
                            iv = ctx.slicer.local(ctor, e["i"], at=b)
                            used |= small_ints(iv)
                        if isinstance(e, dict) and "ci" in e:
                            used.add(e["ci"])
        # key bindings
        bound = {}
        for b in region | {sw}:
            tt = ctor.blocks[b]["t"]
            if tt["k"] != "switch" or b == sw:
                continue
            for arm in [int(a) for a, _ in tt["arms"]] + ["else"]:
                at = A.atom_of_edge(prog, ctor, b, arm, ctx.slicer)
                if at.kind != "cmp" or at.rel != "ne":
                    continue
                sides = [at.lhs, at.rhs]
                ks = [x for x in sides if x.has_field(BANKCFG, "oracle_keys")]
                as_ = [x for x in sides if x.has_field(AINFO, "key") and 2 in x.params]
                if len(ks) == 1 and len(as_) == 1 and ks[0] is not as_[0]:
                    ik, ia = small_ints(ks[0]), small_ints(as_[0])
                    if len(ik) == 1 and ik == ia:
                        etgt = [bb2 for a2, bb2 in tt["arms"] if int(a2) == arm][0] if arm != "else" else tt["else"]
                        on_all_paths = not A.can_succeed_avoiding(ctor, [b], start=tgt)[0]
                        bound.setdefault(next(iter(ik)), []).append((b, inevitable_error(ctor, etgt) and on_all_paths))
        for i in sorted(used):
            cands = bound.get(i, [])
            okb = any(inev for (_, inev) in cands)
            ctx.inst("C09.R1", "key-binding/%s[%d]" % (vname, i), okb, "ais[%d].key compared with bank.config.oracle_keys[%d]; a mismatch always errors" % (i, i),
                     "no comparison" if not cands else ("the comparison can be skipped or its mismatch edge can still succeed" if not okb else "ok"), ctor.bloc(cands[0][0]) if cands else loc)
        # loader
        probs = []
        if kind in ("pyth", "swb"):
            spec = pyth_loader if kind == "pyth" else swb_loader
            lc = [c for c in ctor.calls() if c.block in region and match_def(c.callee, spec)]
            if not lc:
                probs.append("arm does not reach the %s loader" % kind)
            for c in lc:
                age = ctx.slicer.operand(ctor, c.args[2], at=c.block)
                clk = ctx.slicer.operand(ctor, c.args[1], at=c.block)
                ai = ctx.slicer.operand(ctor, c.args[0], at=c.block)
                if age.params != {4}:
                    probs.append("loader max_age argument is not exactly the function's max_age parameter (%s)" % A._pvs(age))
                if 3 not in clk.params:
                    probs.append("loader clock argument is not the function's clock")
                if kind == "swb" and not any(n == "unix_timestamp" for (_, n) in clk.fields):
                    probs.append("switchboard loader is not given clock.unix_timestamp")
                if 2 not in ai.params or small_ints(ai) != {0}:
                    probs.append("loader account is not ais[0] (%s)" % sorted(small_ints(ai)))
                if not A.consumed(ctor, c.block)[0]:
                    probs.append("loader result unchecked")
            if 0 not in used:
                probs.append("ais[0] not read")
        if kind == "fixed":
            ev = [b for b in A.error_variant_blocks(ctor, "FixedOraclePriceNegative") if b in region]
            atoms = A.guard_atoms(prog, ctor, ev, ctx.slicer) if ev else []
            g = [a for a in atoms if a.kind == "cmp" and a.rel == "lt" and a.lhs.has_field(BANKCFG, "fixed_price") and (0 in a.rhs.ints or a.rhs.has_const("ZERO"))]
            if not g:
                probs.append("no error_if(fixed_price < 0) guard: %s" % [a.describe() for a in atoms])
        for ex in extra:
            sc = [c for c in ctor.calls() if c.block in region and c.callee and c.callee["name"] == ex]
            if not sc:
                probs.append("venue staleness predicate not consulted")
            okst = False
            for c in sc:
                # edge taken when the predicate is true must inevitably error
                for b in region:
                    tt = ctor.blocks[b]["t"]
                    if tt["k"] != "switch":
                        continue
                    for arm in [int(a) for a, _ in tt["arms"]] + ["else"]:
                        at = A.atom_of_edge(prog, ctor, b, arm, ctx.slicer)
                        if at.kind == "call" and at.callee.endswith("::" + ex) and at.truth is True:
                            etgt = [bb2 for a2, bb2 in tt["arms"] if int(a2) == arm][0] if arm != "else" else tt["else"]
                            if inevitable_error(ctor, etgt):
                                okst = True
                        if at.kind == "bool" and at.truth is True and at.lhs is not None and at.lhs.has_call(prog, {"name": ex}):
                            etgt = [bb2 for a2, bb2 in tt["arms"] if int(a2) == arm][0] if arm != "else" else tt["else"]
                            if inevitable_error(ctor, etgt):
                                okst = True
                # `is_stale()?` style (Result<bool>): consumed
                tyr = ctor.local_ty(c.dest["l"])["s"]
                if "Result" in tyr and A.consumed(ctor, c.block)[0]:
                    # then the bool inside is switched on as well (handled above by provenance through branch)
                    pass
            if sc and not okst:
                probs.append("stale venue account does not inevitably error")
            tl = [c for c in ctor.calls() if c.block in region and c.callee and c.callee["name"] == "try_from" and "AccountLoader" in (c.callee.get("self_ty") or "")]
            if not tl:
                probs.append("venue account not loaded through AccountLoader::try_from (owner + discriminator)")
            if 1 not in used:
                probs.append("venue account ais[1] not read")
        ctx.inst("C09.R1", "arm/" + vname, not probs, "arm %s: loader wired to clock/max_age, account 0%s" % (vname, ", venue account validated and fresh" if extra else ""),
                 "; ".join(probs) or "ok (indices %s)" % sorted(used), loc)

    # ------------------------------------------------------------------ R2 loaders
    for nm, errs in (("load_price_update_v2_checked", ["PythPushWrongAccountOwner", "PythPushInvalidAccount"]),):
        fs = prog.find_fns({"name": nm, "crate": "marginfi"})
        if len(fs) != 1:
            ctx.missing("C09.R2", nm)
            continue
        f = fs[0]
        for e in errs:
            ev = A.error_variant_blocks(f, e)
            atoms = A.guard_atoms(prog, f, ev, ctx.slicer) if ev else []
            if e.endswith("Owner"):
                g = [a for a in atoms if (a.kind == "cmp" and a.rel == "ne" and (a.lhs.has_field(AINFO, "owner") or a.rhs.has_field(AINFO, "owner"))) or
                     (a.kind in ("call", "bool") and a.truth is False)]
            else:
                g = [a for a in atoms if a.kind == "cmp" and a.rel == "ne"]
            ok, w = A.must_pass(f, list({a.switch[0] for a in g})) if g else (False, None)
            ctx.inst("C09.R2", "pyth-account/" + e, bool(g) and ok, "every successful load passes the %s guard" % e, [a.describe() for a in atoms][:3] if not g else "ok", f.bloc(ev[0]) if ev else f.loc(f.raw["span"]))
    pl = prog.find_fns(dict(pyth_loader, crate="marginfi"))
    if len(pl) == 1:
        f = pl[0]
        lc = [c for c in f.calls() if c.callee and c.callee["name"] == "load_price_update_v2_checked"]
        ok, _ = A.must_pass(f, [c.block for c in lc]) if lc else (False, None)
        ctx.inst("C09.R2", "pyth-loader/account-check", ok and all(A.consumed(f, c.block)[0] for c in lc), "Pyth loader validates owner + discriminator first", "", f.loc(f.raw["span"]))
        ac = [c for c in f.calls() if c.callee and c.callee["name"] == "get_price_no_older_than_with_custom_verification_level"]
        probs = []
        if not ac:
            probs.append("age/verification call missing")
        for c in ac:
            a1 = ctx.slicer.operand(f, c.args[1], at=c.block)
            a2 = ctx.slicer.operand(f, c.args[2], at=c.block)
            a4 = ctx.slicer.operand(f, c.args[4], at=c.block)
            if a1.params != {2}:
                probs.append("clock argument is not the loader's clock parameter")
            if a2.params != {3} or a2.ops:
                probs.append("max age argument is not exactly the loader's max_age parameter (%s)" % A._pvs(a2))
            if not a4.has_const("MIN_PYTH_PUSH_VERIFICATION_LEVEL"):
                probs.append("verification level is not MIN_PYTH_PUSH_VERIFICATION_LEVEL")
            if not A.consumed(f, c.block)[0]:
                probs.append("age check result unchecked")
        ok, _ = A.must_pass(f, [c.block for c in ac]) if ac else (False, None)
        if ac and not ok:
            probs.append("a successful load can skip the age check")
        ctx.inst("C09.R2", "pyth-loader/age", not probs, "price = get_price_no_older_than_with_custom_verification_level(clock, max_age, feed_id, MIN level), checked", "; ".join(probs) or "ok", f.loc(f.raw["span"]))
        mv = prog.const_by_name("MIN_PYTH_PUSH_VERIFICATION_LEVEL")
        if mv:
            cv = mv[0]["v"]
            ctx.inst("C09.R2", "pyth-loader/min-level-full", cv is not None and ("int" in cv and int(cv["int"]) == 1 or "mem" in cv and (cv["mem"] or {}).get("hex", "").startswith("01")),
                     "MIN_PYTH_PUSH_VERIFICATION_LEVEL == VerificationLevel::Full", str(cv)[:80], None)
    else:
        ctx.missing("C09.R2", "Pyth loader")
    sl = prog.find_fns(dict(swb_loader, crate="marginfi"))
    if len(sl) == 1:
        f = sl[0]
        ev = A.error_variant_blocks(f, "SwitchboardWrongAccountOwner")
        atoms = A.guard_atoms(prog, f, ev, ctx.slicer) if ev else []
        g = [a for a in atoms if a.kind == "cmp" and a.rel == "ne" and any(x.has_const("SWITCHBOARD_PULL_ID") for x in (a.lhs, a.rhs)) and any(x.has_field(AINFO, "owner") for x in (a.lhs, a.rhs))]
        ok, _ = A.must_pass(f, [a.switch[0] for a in g]) if g else (False, None)
        ctx.inst("C09.R2", "swb-loader/owner", bool(g) and ok, "error_if(ai.owner != SWITCHBOARD_PULL_ID) on every successful load", [a.describe() for a in atoms][:3] if not g else "ok", f.loc(f.raw["span"]))
        ev = A.error_variant_blocks(f, "SwitchboardStalePrice")
        atoms = A.guard_atoms(prog, f, ev, ctx.slicer) if ev else []
        g = [a for a in atoms if a.kind == "cmp" and a.rel == "lt" and a.lhs.params == {3} and not a.lhs.ops and not a.lhs.calls and 2 in a.rhs.params and
             any(n == "last_update_timestamp" for (_, n) in a.rhs.fields) and a.rhs.has_call(prog, {"name": "saturating_sub"})]
        ok, _ = A.must_pass(f, [a.switch[0] for a in g]) if g else (False, None)
        ctx.inst("C09.R2", "swb-loader/age", bool(g) and ok, "error_if(now.saturating_sub(last_update_timestamp) > max_age) on every successful load",
                 [a.describe() for a in atoms][:3] if not g else "ok", f.bloc(ev[0]) if ev else f.loc(f.raw["span"]))
        pc = [c for c in f.calls() if c.callee and c.callee["name"] == "parse_swb_ignore_alignment"]
        ok, _ = A.must_pass(f, [c.block for c in pc]) if pc else (False, None)
        ctx.inst("C09.R2", "swb-loader/discriminator", ok and all(A.consumed(f, c.block)[0] for c in pc), "feed parsed through the discriminator-checking parser", "", f.loc(f.raw["span"]))
        ps = prog.find_fns({"name": "parse_swb_ignore_alignment", "crate": "marginfi"})
        for pf in ps:
            ev = A.error_variant_blocks(pf, "SwitchboardInvalidAccount")
            atoms = A.guard_atoms(prog, pf, ev, ctx.slicer) if ev else []
            g = [a for a in atoms if (a.kind == "cmp" and a.rel == "ne") or (a.kind == "call" and a.callee.endswith("::ne") and a.truth is True) or (a.kind == "call" and a.callee.endswith("::eq") and a.truth is False)]
            ctx.inst("C09.R2", "swb-parser/discriminator", bool(g), "parser rejects a wrong 8-byte discriminator", [a.describe() for a in atoms][:4] if not g else "ok", pf.loc(pf.raw["span"]))
    else:
        ctx.missing("C09.R2", "Switchboard loader")

    # ------------------------------------------------------------------ R3 single door
    feed_adts = ["marginfi::state::price::PythPushOraclePriceFeed", "marginfi::state::price::SwitchboardPullPriceFeed",
                 "marginfi::state::price::FixedPriceFeed", "marginfi::state::price::OraclePriceFeedAdapter"]
    allowed_ctors = {ctor.key} | {f.key for f in pl} | {f.key for f in sl}
    for fk, f in prog.fns.items():
        if f.info["crate"] != "marginfi":
            continue
        for adt in feed_adts:
            if A.variant_blocks(f, adt, None):
                root = f.info.get("closure_of", fk)
                is_from = f.info.get("name") == "from" and f.info.get("self_adt") == feed_adts[3]
                ctx.inst("C09.R3", "constructs/%s@%s" % (adt.split("::")[-1], fk.split("::", 1)[1]), root in allowed_ctors or is_from,
                         "price feeds / adapters are constructed only by the checked loaders and the adapter constructor", "", f.loc(f.raw["span"]))
    ctx.floor("C09.R3", 4)
    callers = [k for k, f in prog.fns.items() if any(c.key == ctor.key for c in f.calls())]
    for k in callers:
        f = prog.fns[k]
        for c in f.calls():
            if c.key == ctor.key:
                pv = ctx.slicer.operand(f, c.args[3], at=c.block)
                dc = defining_call(f, c.args[3])
                direct = dc is not None and f.dinfo(dc[1]["res"] if dc[1].get("res") is not None else dc[1]["raw"])["name"] == "get_oracle_max_age"
                ctx.inst("C09.R3", "max-age-source@%s" % k.split("::", 1)[1], direct and pv.has_field(BANK, "config"),
                         "max_age handed to the adapter constructor is bank.config.get_oracle_max_age()", A._pvs(pv), c.loc)
    ign = [k for k, f in prog.fns.items() if f.info["name"] != "get_price_of_type_ignore_conf" and any(c.callee and c.callee["name"] == "get_price_of_type_ignore_conf" for c in f.calls())]
    ctx.inst("C09.R3", "no-ignore-conf-callers", not ign, "nobody calls get_price_of_type_ignore_conf", "callers: %s" % ign, None)
    gma = prog.find_fns({"name": "get_oracle_max_age", "crate": "marginfi"})
    for f in gma:
        pv = ctx.slicer.local(f, 0)
        ctx.inst("C09.R3", "get_oracle_max_age", pv.has_field(BANKCFG, "oracle_max_age"), "oracle max age derives from BankConfig.oracle_max_age", A._pvs(pv), f.loc(f.raw["span"]))

    # ------------------------------------------------------------------ R4 confidence
    def fx(name):
        cs = prog.const_by_name(name)
        for c in cs:
            v = c["v"]
            if v and "int" in v:
                return int(v["int"]) / float(1 << 48)
        return None
    for cname, want in (("CONF_INTERVAL_MULTIPLE", 2.12), ("STD_DEV_MULTIPLE", 1.96), ("MAX_CONF_INTERVAL", 0.05)):
        got = fx(cname)
        ctx.inst("C09.R4", "const/" + cname, got is not None and abs(got - want) < 1e-9, "%s == %s" % (cname, want), str(got), None)
    gcis = [f for f in prog.find_fns({"name": "get_confidence_interval", "crate": "marginfi"})]
    ctx.floor("C09.R4", 3 + 4)
    for f in gcis:
        who = f.info.get("self_adt", "?").split("::")[-1]
        if who == "FixedPriceFeed":
            continue
        mult = "CONF_INTERVAL_MULTIPLE" if "Pyth" in who else "STD_DEV_MULTIPLE"
        maxp = f.argc   # oracle_max_confidence is the last parameter
        ev = A.error_variant_blocks(f, "OracleMaxConfidenceExceeded")
        atoms = A.guard_atoms(prog, f, ev, ctx.slicer) if ev else []
        g = [a for a in atoms if a.kind == "cmp" and a.rel == "lt" and a.lhs.has_const("U32_MAX") and a.lhs.has_call(prog, {"name": "checked_div"}) and maxp in a.lhs.params
             and a.rhs.has_const(mult) and not a.rhs.has_const("U32_MAX")
             # the rejected quantity is the raw scaled confidence, not the value already clamped to MAX_CONF_INTERVAL of the price
             and not a.rhs.has_const("MAX_CONF_INTERVAL") and not a.rhs.has_call(prog, {"name": "min"})]
        ok, _ = A.must_pass(f, [a.switch[0] for a in g]) if g else (False, None)
        ctx.inst("C09.R4", "conf-reject/" + who, bool(g) and ok, "error_if(raw conf*%s > price*max_conf/U32_MAX), tested before the 5%% clamp, on every successful path" % mult, [a.describe() for a in atoms][:3] if not g else "ok", f.bloc(ev[0]) if ev else f.loc(f.raw["span"]))
        # result = min(conf, price * MAX_CONF_INTERVAL)
        mc = [c for c in f.calls() if c.callee and c.callee["name"] == "min"]
        okm = False
        for c in mc:
            pa = [ctx.slicer.operand(f, a, at=c.block) for a in c.args]
            if len(pa) == 2 and any(p.has_const("MAX_CONF_INTERVAL") for p in pa) and any(p.has_const(mult) and not p.has_const("MAX_CONF_INTERVAL") for p in pa):
                d = ctx.slicer.local(f, 0)
                okm = d.has_call(prog, {"name": "min"})
        ctx.inst("C09.R4", "conf-cap/" + who, okm, "returned confidence = min(conf, price * MAX_CONF_INTERVAL)", "", f.loc(f.raw["span"]))
    # bias wiring at call sites (shared with C04.R3): collateral Low, debt High
    for fname, bias in (("calc_weighted_asset_value", "Low"), ("calc_weighted_liab_value", "High"), ("fetch_asset_price_for_bank_low_bias", "Low")):
        for f in prog.find_fns({"name": fname, "crate": "marginfi"}):
            for c in f.calls():
                if c.callee and c.callee["name"] == "get_price_of_type":
                    vs, pv = variant_arg(ctx, f, c, 2, "PriceBias")
                    conf = ctx.slicer.operand(f, c.args[3], at=c.block)
                    ctx.inst("C09.R4", "bias/" + fname, vs == {bias} and ("core::option::Option", "None") not in pv.variants and conf.has_field(BANKCFG, "oracle_max_confidence"),
                             "%s prices with Some(PriceBias::%s) and the bank's max confidence" % (fname, bias), "bias=%s" % sorted(vs), c.loc)

    # ------------------------------------------------------------------ R5 error policy (constant propagation with a failing feed stub)
    RT = "state::marginfi_account::RequirementType"
    cfg_idx = field_idx(prog, BANK, "config")
    fidx = {fd["name"]: i for i, fd in enumerate(prog.adts[BANKCFG]["variants"][0]["fields"])}

    def failing_feed(i, a):
        return ("tuple", [fde.Cell(fde.Adt("core::result::Result", 1, {0: fde.Cell(fde.TOP)})), fde.Cell(fde.Int(6009))])
    table = {}
    for fname in ("calc_weighted_asset_value", "calc_weighted_liab_value"):
        fs = prog.find_fns({"name": fname, "crate": "marginfi"})
        if len(fs) != 1:
            ctx.missing("C09.R5", fname)
            continue
        f = fs[0]
        for rq in ("Initial", "Maintenance", "Equity"):
            it = fde.Interp(prog, stubs={"try_get_price_feed": failing_feed}, max_depth=1)
            cfg = fde.Adt(BANKCFG, 0, {fidx["operational_state"]: fde.Cell(it.enum_value("BankOperationalState", "Operational")),
                                       fidx["risk_tier"]: fde.Cell(it.enum_value("RiskTier", "Collateral"))})
            bank = fde.Adt(BANK, 0, {cfg_idx: fde.Cell(cfg)})
            args = [fde.Ref(fde.Cell(fde.Adt(None, None, {}))), it.enum_value(RT, rq), fde.Ref(fde.Cell(bank)), fde.Ref(fde.Cell(fde.Adt(None, None, {})))][:f.argc]
            outs = it.run(f, args)
            kinds = sorted({("Err",) if (o.kind == "return" and o.value[0] == "adt" and o.value[2] == 1) else (("Ok",) if o.kind == "return" else (o.kind,)) for o in outs})
            table["%s/%s" % (fname, rq)] = [list(k) for k in kinds]
            want = [("Ok",)] if (fname == "calc_weighted_asset_value" and rq == "Initial") else [("Err",)]
            ctx.inst("C09.R5", "feed-error/%s[%s]" % (fname, rq), kinds == want, "with a failing price feed, %s for %s returns %s" % (fname, rq, want[0][0]), str(kinds), f.loc(f.raw["span"]))
    ctx.tables["feed_error_policy"] = table
    ctx.floor("C09.R5", 6)

    # ------------------------------------------------------------------ R6 zero-price guards
    ctx.floor("C09.R6", 6)
    try:
        liq = ctx.handler("C09.R6", "lending_account_liquidate")
        for e, src in (("ZeroAssetPrice", "asset"), ("ZeroLiabilityPrice", "liab")):
            ev = A.error_variant_blocks(liq, e)
            atoms = A.guard_atoms(prog, liq, ev, ctx.slicer) if ev else []
            g = [a for a in atoms if a.kind == "cmp" and a.rel == "le" and (0 in a.rhs.ints or a.rhs.has_const("ZERO")) and a.lhs.has_call(prog, {"name": "get_price_of_type"})]
            ok, _ = A.must_pass(liq, [a.switch[0] for a in g]) if g else (False, None)
            ctx.inst("C09.R6", "liquidate/" + e, bool(g) and ok, "error_if(%s price <= 0) on every successful liquidation" % src, [a.describe() for a in atoms][:3] if not g else "ok", liq.bloc(ev[0]) if ev else None)
    except Exception as e:
        if e.__class__.__name__ != "AnchorMissing":
            raise
    for ixn in ["lending_account_withdraw", "kamino_withdraw", "drift_withdraw", "solend_withdraw"]:
        try:
            h = ctx.handler("C09.R6", ixn)
        except Exception:
            continue
        ev = A.error_variant_blocks(h, "ZeroAssetPrice")
        atoms = A.guard_atoms(prog, h, ev, ctx.slicer) if ev else []
        g = [a for a in atoms if a.kind == "cmp" and a.rel == "le" and (0 in a.rhs.ints or a.rhs.has_const("ZERO")) and a.lhs.has_call(prog, {"name": "fetch_asset_price_for_bank_low_bias"})]
        edges = [(sw_, tgt) for (sw_, tgt, truth) in flag_edges(ctx, h, "ACCOUNT_IN_RECEIVERSHIP") if truth is True]
        okp = False
        if g and edges:
            # every successful path over a receivership-true edge that precedes the guard passes the guard
            gsw = [a.switch[0] for a in g]
            for (sw_, tgt) in edges:
                if any(gs in h.reach_from(tgt) or gs == tgt for gs in gsw):
                    ok, _ = A.can_succeed_avoiding(h, gsw, start=tgt)
                    okp = not ok
        ctx.inst("C09.R6", "withdraw-receivership/" + ixn, bool(g) and okp, "in receivership the low-bias asset price must be > 0 (error_if(price <= 0))",
                 [a.describe() for a in atoms][:3] if not g else ("guard can be skipped" if not okp else "ok"), h.bloc(ev[0]) if ev else h.loc(h.raw["span"]))
