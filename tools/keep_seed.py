#!/usr/bin/env python3
"""python3 tools/keep_seed.py <id> <worktree> "<caught-by note>"  — archive a confirmed seeded change under /verif/seeded/<id>/"""
import json, os, shutil, sys
sid, wt, note = sys.argv[1], sys.argv[2], sys.argv[3]
out = os.path.join("/verif/seeded", sid)
os.makedirs(out, exist_ok=True)
for f in ("patch.diff", "demo.diff"):
    shutil.copy(os.path.join(wt, "OUT", f), os.path.join(out, f))
m = json.load(open(os.path.join(wt, "OUT", "meta.json")))
c = json.load(open(os.path.join(wt, "OUT", "confirm.json")))
meta = {"property": m["property"], "summary": m.get("summary"), "why_it_breaks": m.get("why_it_breaks"),
        "needs_to_manifest": m.get("needs_to_manifest"), "demo_cmd": m.get("demo_cmd"),
        "agent_verified": m.get("verified"),
        "confirmed_by_me": {"ran": "tools/confirm_seed.sh in the seed's scratch worktree: demo on clean tree, demo with patch, "
                                   "`cargo test --workspace --offline --lib --no-fail-fast` and `cargo test -p marginfi --offline --test tests regression` with the patch",
                            "demo_exit_clean_tree": c.get("demo_clean_exit"), "demo_exit_with_patch": c.get("demo_patched_exit"),
                            "baseline_tests_passed_with_patch": c.get("passed_total"), "baseline_tests_failed_with_patch": c.get("failed_total")},
        "detection": note}
json.dump(meta, open(os.path.join(out, "meta.json"), "w"), indent=1)
print("kept", out)
