#!/usr/bin/env python3
"""Regenerates /verif/MANIFEST.json from the rule modules present in /verif/rules."""
import importlib, json, os, sys
V = os.path.dirname(os.path.dirname(os.path.abspath(__file__)))
sys.path.insert(0, V)
from engine import run
props = [json.loads(l) for l in open(os.path.join(V, "properties.jsonl"))]
NA = json.load(open(os.path.join(V, "tools/not_applicable.json")))
checks = []
na = []
for p in props:
    pid = p["id"]
    if os.path.exists(os.path.join(V, "rules", pid + ".py")) and pid not in NA:
        mod = importlib.import_module("rules." + pid)
        info = mod.INFO
        checks.append({
            "property_id": pid,
            "quick_cmd": "./check %s --tier quick" % pid,
            "thorough_cmd": "./check %s --tier thorough" % pid,
            "evidence_file": "/verif/evidence/%s.json" % pid,
            "replay_cmd_template": "./check %s --tier quick" % pid,
            "engine": "mirfacts+rules",
            "level_claimed": {
                "category": "other",
                "text": "Static analysis of /repo's type-checked MIR and Accounts constraints; decides only the structural necessary "
                        "conditions named here, not the behavioural property as a whole. " + info["explanation"] + (run.UNITS_NOTE % pid if pid in run.UNITS_PROPS else ""),
                "design_ref": "DESIGN.md section 4 (%s)" % pid,
            },
            "level_note": "Trusted: rustc (nightly) type check, MIR construction and callee resolution; Anchor derive expansion; external crate "
                          "semantics at call boundaries; the frozen expectation tables in /verif/rules. " + " ".join(info.get("assumptions", [])),
            "technique": info.get("technique", "static analysis: call-graph, dominance/must-pass path rules, value provenance, guard atoms, constant propagation tables over MIR; Anchor constraint normalisation"),
        })
    else:
        na.append({"property_id": pid, "reason": NA.get(pid, "static rules for this property are not built yet in this session; no check is claimed")})
m = {
    "version": 1,
    "setup_cmd": "./setup.sh",
    "hooks": {"guard": "--cfg marginfi_v2_verif (unused: the analysis reads unmodified source)", "enable": "none needed; checks run `cargo check` on /repo's working tree through the mirfacts rustc wrapper",
              "baseline_off_cmd": "cd /repo && cargo test --workspace --no-fail-fast --offline", "source_commits": [], "add_only": True},
    "engines": [{"name": "mirfacts+rules", "path": "/verif/engine", "serves_properties": [c["property_id"] for c in checks],
                 "kind_free_text": "rustc_private MIR/AST fact extractor (tools/mirfacts) + python rule engine (call graph, CFG path rules, provenance slicing, guard atoms, finite-domain constant propagation, Anchor constraint model)"}],
    "checks": checks,
    "not_applicable": na,
    "notes": "All checks share one facts build per tree state (content-addressed cache under /verif/.work). See DESIGN.md.",
}
json.dump(m, open(os.path.join(V, "MANIFEST.json"), "w"), indent=1)
print("checks:", [c["property_id"] for c in checks], "na:", [n["property_id"] for n in na])
