#!/bin/bash
# usage: confirm_seed.sh <worktree> ; confirms a seeded change: compiles, baseline tests unchanged, demo fails with / passes without.
# Writes <worktree>/OUT/confirm.json
WT=$1
cd $WT || exit 2
export CARGO_NET_OFFLINE=true
DEMO=$(python3 -c "import json,re;c=json.load(open('OUT/meta.json'))['demo_cmd'];c=re.sub(r'cd \S+ && ','',c);c=re.sub(r'git apply \S+ && ','',c);print(c)")
git reset -q --hard; git clean -fdq -e OUT -e target
res() { echo "\"$1\": $2,"; }
{
echo "{"
git apply OUT/demo.diff || echo '"demo_apply_error": true,'
eval "$DEMO" > OUT/confirm_demo_clean.log 2>&1; res demo_clean_exit $?
git apply OUT/patch.diff || echo '"patch_apply_error": true,'
eval "$DEMO" > OUT/confirm_demo_patched.log 2>&1; res demo_patched_exit $?
git reset -q --hard; git clean -fdq -e OUT -e target
git apply OUT/patch.diff
cargo test --workspace --offline --lib --no-fail-fast > OUT/confirm_lib.log 2>&1; res lib_exit $?
cargo test -p marginfi --offline --test tests regression > OUT/confirm_reg.log 2>&1; res reg_exit $?
P=$(grep -h "^test result" OUT/confirm_lib.log OUT/confirm_reg.log | sed -E 's/.* ([0-9]+) passed.*/\1/' | paste -sd+ | bc)
res passed_total "${P:-0}"
F=$(grep -h "^test result" OUT/confirm_lib.log OUT/confirm_reg.log | sed -E 's/.* ([0-9]+) failed.*/\1/' | paste -sd+ | bc)
echo "\"failed_total\": ${F:-0}"
echo "}"
} > OUT/confirm.json
git reset -q --hard; git clean -fdq -e OUT -e target
cat OUT/confirm.json
