#!/bin/bash
# runs every built check on /repo (or $VERIF_REPO) and prints one line each
cd "$(dirname "$(readlink -f "$0")")/.."
for f in rules/C*.py; do p=$(basename $f .py); ./check $p "$@" 2>&1 | tail -1; done
