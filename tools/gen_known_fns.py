#!/usr/bin/env python3
"""python3 tools/gen_known_fns.py — writes rules/known_fns.json: the ids (crate|Self type|name|module, no impl index) of every
function of the analysed crates on the reviewed tree.  A function that is not in this list is treated as newly extracted code and is
spliced into its callers before the rules run (engine/inline.py).  Regenerate only after reviewing the tree the rules were written for."""
import json, os, sys
V = os.path.dirname(os.path.dirname(os.path.abspath(__file__)))
sys.path.insert(0, V)
from engine import facts, model, inline
ids = set()
adts = set()
prints = {}
for cfg in facts.CONFIGS:
    d, meta = facts.build(cfg)
    prog = model.Program(facts.load_raw(d))
    ids |= inline.all_ids(prog)
    adts |= {k for k in prog.adts if k.split("::")[0] in inline.ANALYSED}
    for k, f in prog.fns.items():
        if f.info["kind"] == "Closure" or "{closure#" in k or f.info["crate"] not in ("marginfi", "marginfi_type_crate") or "::tests::" in k:
            continue
        if k.startswith("marginfi::__private") or k.startswith("marginfi::instruction::") or "__client_accounts" in k or "__cpi_client_accounts" in k:
            continue
        tr = f.info.get("trait")
        if tr and tr.split("::")[0] not in inline.ANALYSED:
            continue
        prints.setdefault(inline.fn_id(f), inline.fingerprint(f))
json.dump({"fns": sorted(ids), "adts": sorted(adts), "prints": prints}, open(inline.KNOWN_FILE, "w"), indent=0, sort_keys=True)
print(len(ids), "known functions,", len(adts), "known ADTs")
