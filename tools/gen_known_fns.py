#!/usr/bin/env python3
"""python3 tools/gen_known_fns.py — writes rules/known_fns.json: the ids (crate|Self type|name|module, no impl index) of every
function of the analysed crates on the reviewed tree.  A function that is not in this list is treated as newly extracted code and is
spliced into its callers before the rules run (engine/inline.py).  Regenerate only after reviewing the tree the rules were written for."""
import json, os, sys
V = os.path.dirname(os.path.dirname(os.path.abspath(__file__)))
sys.path.insert(0, V)
from engine import facts, model, inline
ids = set()
for cfg in facts.CONFIGS:
    d, meta = facts.build(cfg)
    prog = model.Program(facts.load_raw(d))
    ids |= inline.all_ids(prog)
json.dump(sorted(ids), open(inline.KNOWN_FILE, "w"), indent=0)
print(len(ids), "known functions")
