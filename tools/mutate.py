#!/usr/bin/env python3
"""Development-time mutation self-test (not a registered check).

  python3 tools/mutate.py [--all-props] [name-substring ...]

Applies each mutant of mutants/corpus.py to a scratch git worktree of /repo under /tmp, runs the
expected property's check against that worktree (VERIF_REPO) and reports whether the expected rule
fired.  Silent-on edits must produce no violation at all.  The worktree is removed at the end."""
import json
import os
import re
import subprocess
import sys
import time

V = os.path.dirname(os.path.dirname(os.path.abspath(__file__)))
sys.path.insert(0, V)
WT = os.environ.get("MUT_WT", "/tmp/mfi-mut-wt")


def sh(cmd, **kw):
    return subprocess.run(cmd, shell=True, stdout=subprocess.PIPE, stderr=subprocess.STDOUT, text=True, **kw)


def built_props():
    return sorted(f[:-3] for f in os.listdir(os.path.join(V, "rules")) if re.match(r"C\d+\.py$", f))


def main():
    from mutants.corpus import MUTANTS
    args = [a for a in sys.argv[1:] if not a.startswith("--")]
    allp = "--all-props" in sys.argv
    sel = [m for m in MUTANTS if not args or any(a in m["name"] for a in args)]
    sh("git -C /repo worktree remove --force %s" % WT)
    sh("rm -rf %s" % WT)
    r = sh("git -C /repo worktree add --detach %s HEAD" % WT)
    if r.returncode != 0:
        print(r.stdout)
        return 1
    results = []
    try:
        props = built_props()
        for m in sel:
            sh("git -C %s checkout -- ." % WT)
            path = os.path.join(WT, m["file"])
            src = open(path).read()
            if src.count(m["old"]) < 1:
                print("!! %s: pattern not found" % m["name"])
                results.append((m["name"], "PATTERN-MISSING", ""))
                continue
            cnt = m.get("count", 1)
            idx = m.get("occurrence", 0)
            if idx:
                parts = src.split(m["old"])
                src = m["old"].join(parts[:idx + 1]) + m["new"] + m["old"].join(parts[idx + 1:])
            else:
                src = src.replace(m["old"], m["new"], cnt)
            open(path, "w").write(src)
            expect = m.get("expect", [])   # list of property ids (or rule prefixes) expected to fire
            silent = m.get("silent", False)
            torun = props if (allp or silent) else sorted({e.split(".")[0] for e in expect} & set(props))
            fired = {}
            t0 = time.time()
            for p in torun:
                env = dict(os.environ, VERIF_REPO=WT)
                rr = subprocess.run([os.path.join(V, "check"), p], env=env, stdout=subprocess.PIPE, stderr=subprocess.STDOUT, text=True)
                rules = re.findall(r"^  rule=(\S+) construct=(\S+)", rr.stdout, re.M)
                if rr.returncode == 2 or "ANALYSIS-ERROR" in rr.stdout:
                    fired[p] = "ANALYSIS-ERROR " + rr.stdout[-300:]
                elif rr.returncode != 0:
                    fired[p] = sorted({a for a, b in rules})
            status = "?"
            if silent:
                status = "OK-silent" if not fired else "FALSE-ALARM"
            else:
                hit = [e for e in expect if any((isinstance(v, list) and any(x.startswith(e) for x in v)) for p, v in fired.items())]
                notbuilt = [e for e in expect if e.split(".")[0] not in props]
                if hit:
                    status = "CAUGHT"
                elif notbuilt and len(notbuilt) == len(expect):
                    status = "not-built"
                else:
                    status = "MISSED"
            print("%-12s %-45s expect=%s fired=%s (%.0fs)" % (status, m["name"], expect, fired, time.time() - t0), flush=True)
            results.append((m["name"], status, fired))
    finally:
        sh("git -C /repo worktree remove --force %s" % WT)
        sh("rm -rf %s" % WT)
    from collections import Counter
    print(Counter(s for _, s, _ in results))
    json.dump(results, open(os.path.join(V, ".work", "mutate_last.json"), "w"), indent=1, default=str)
    return 0


if __name__ == "__main__":
    sys.exit(main())
