#!/usr/bin/env python3
"""python3 tools/diff_snapshot.py <patch.diff> <helper-substr>... — dev aid: path table of snapshot helpers on a patched scratch tree vs the reviewed snapshot"""
import json, os, subprocess, sys
V = os.path.dirname(os.path.dirname(os.path.abspath(__file__)))
sys.path.insert(0, V)
patch = os.path.abspath(sys.argv[1]); subs = sys.argv[2:]
WT = "/tmp/mfi-ds-wt-%d" % os.getpid()
subprocess.run("git -C /repo worktree add --detach %s HEAD >/dev/null 2>&1 && git -C %s apply %s" % (WT, WT, patch), shell=True, check=True)
os.environ["VERIF_REPO"] = WT
try:
    from engine import facts, model, run
    facts.REPO = WT
    d, meta = facts.build("default", repo=WT)
    prog = model.Program(facts.load_raw(d)); run.prepare(prog)
    from rules import snapshot, kernels
    snap = json.load(open(snapshot.SNAP_FILE))
    live = {fid: f for fid, f in snapshot.candidates(prog)}
    for fid, want in snap.items():
        if not any(s in fid for s in subs): continue
        f = live.get(fid)
        if f is None: print("MISSING", fid); continue
        got = kernels.leaf_sig(prog, f)
        if got == want: print("SAME", fid); continue
        print("DIFF", fid)
        for x in got:
            if x not in want: print("   GOT ", x[:700])
        for x in want:
            if x not in got: print("   WANT", x[:700])
finally:
    subprocess.run("git -C /repo worktree remove --force %s" % WT, shell=True)
