#!/usr/bin/env python3
"""Prints the prompt given to an independent sub-agent asked to seed a property-breaking change.
Contains only the property text and the scratch worktree path (nothing about /verif's checks)."""
import json, sys
pid = sys.argv[1]
wt = sys.argv[2]
variant = sys.argv[3] if len(sys.argv) > 3 else ''
p = [json.loads(l) for l in open('/verif/properties.jsonl') if json.loads(l)['id'] == pid][0]
extra = ""
if variant == "offcentre":
    extra = ("* AVOID the single most obvious place for this property (the main handler or the central helper everyone would look at first). Pick a LESS CENTRAL code path through which the property can still be broken: an admin / configuration path, one of the third-party venue integrations (Kamino / Drift / Solend handlers and mocks), a rarely used instruction variant or flag combination, a cache / bookkeeping field that another instruction later trusts, an account-constraint in an Accounts struct, or a small helper several callers share.\n ")
if variant == "cooperating":
    extra = ("* The change MUST consist of TWO (or three) cooperating edits at DIFFERENT sites (different functions, preferably different files) that each look harmless or even like an improvement when reviewed alone — e.g. a helper's contract is subtly changed and one caller is 'adapted' while another is not; a check is moved from a callee into only some of its callers; a value is now pre-scaled / pre-rounded / pre-negated at the producer but still scaled / rounded / negated at one consumer; a cached field is now refreshed lazily and one reader was not updated; a guard is weakened in one place because 'the other place already checks it' while that other check is also narrowed. Neither edit alone may break the property (or, alone, it would be caught immediately by the existing tests).\n ")
if variant == "sequence":
    extra = ("* The breakage MUST need a specific MULTI-STEP HISTORY to manifest: state written by one instruction (a flag, counter, timestamp, cache field, share value, emissions / fee bucket, liquidation record, position slot) is later trusted by a different instruction, and only the combination misbehaves — e.g. the second of two operations in the same slot/second, an operation right after a position was closed and its slot reused, an admin reconfiguration between two user actions, an accrual with zero elapsed time, a bank that was emptied and refilled, an account that was transferred / disabled / frozen earlier. A single instruction on fresh state must still behave correctly. Your demonstration should replay that history against the real functions.\n ")
print(f"""You are working alone in a scratch git worktree of the mrgnlabs/marginfi-v2 repository (a Solana/Anchor on-chain lending protocol written in Rust) at {wt}. The sandbox has NO network: build with `--offline`; the repository pins Rust 1.79 (rust-toolchain.toml). A warm `target/` directory has already been copied into the worktree so builds are incremental. Work ONLY inside {wt} (and /tmp scratch space); never touch /repo, never read or write anything under /verif or /root/.claude.

THE PROPERTY (it holds, or is intended to hold, on the current code):
  id: {p['id']} — {p['title']}
  statement: {p['statement']}
  quantified over: {p['quantifier']['text']}

YOUR TASK: produce ONE realistic change to the program's source code (under programs/, type-crate/, id-crate/ — not the tests) that BREAKS this property, while the code still compiles and the existing test-suite result is unchanged.
 * "Existing tests unchanged": `cd {wt} && cargo test --workspace --no-fail-fast --offline` (or `cargo nextest run --workspace --no-fail-fast --offline`). In this sandbox many integration tests (those needing BPF program fixtures) already fail before any change; what matters is that the 172 tests that pass on the unchanged tree (names listed in /root/.vp/BASELINE.json under "stable_pass") still pass with your change. Running `cargo test --workspace --offline --lib` plus the `regression` tests of programs/marginfi/tests covers them; confirm before and after.
 * The change should look like something a developer could plausibly introduce (a refactoring slip, a wrong comparison, a dropped or misplaced check, a wrong constant/argument, a condition that is right in one sibling and wrong in another, two cooperating edits that each look fine alone...). Prefer a SUBTLE change that needs something specific to manifest — a particular multi-step sequence of instructions, an unusual input or configuration, a specific branch/feature, a boundary value, or two cooperating sites — rather than something that ordinary use would expose at once. Do not add new instructions or gratuitous dead code; keep it small.
 {extra}* Provide a DEMONSTRATION: a Rust unit test (or small program) that FAILS with your change applied and PASSES without it, exercising the real code (you may call internal functions / construct state structs directly in memory; integration tests through the BPF loader do not work here). Put the demonstration in a separate patch so that the source change can be applied without it.

DELIVERABLES (write them under {wt}/OUT/):
  1. patch.diff  — `git diff` of the source change ONLY (must apply with `git apply` to a clean checkout of the same commit).
  2. demo.diff   — a patch adding the demonstration test (applies on a clean checkout, with or without patch.diff), and the exact command to run it.
  3. meta.json   — {{"property": "{p['id']}", "summary": "...what was changed...", "why_it_breaks": "...", "needs_to_manifest": "...the specific input/sequence/config needed...", "demo_cmd": "...", "verified": {{"compiles": true/false, "baseline_tests_still_pass": true/false, "demo_fails_with_patch": true/false, "demo_passes_without_patch": true/false}}, "commands_run": ["..."]}}
Verify every claim in `verified` by actually running the commands. When finished, leave the worktree source files in the PATCHED state is not required — just make sure OUT/ is complete. Reply with a short summary of the change and the verification results.""")
