#!/usr/bin/env python3
"""python3 tools/constraint_mutants.py <outdir> — development aid: writes one patch per state predicate inside an `#[account(..)]`
attribute (`!x.load()?.get_flag(F)` made vacuous by F -> 0, `!group.load()?.is_protocol_paused()` -> `!false`), to check that every
such constraint is owned by some property's rule (run them with tools/try_many.py)."""
import os, re, subprocess, sys
out = sys.argv[1]
os.makedirs(out, exist_ok=True)
REPO = "/repo"
n = 0
for root, _, fs in os.walk(os.path.join(REPO, "programs/marginfi/src/instructions")):
    for fn in sorted(fs):
        if not fn.endswith(".rs"):
            continue
        path = os.path.join(root, fn)
        src = open(path).read()
        # attribute regions
        for m in re.finditer(r"#\[account\(", src):
            i = m.end()
            d = 1
            j = i
            while d and j < len(src):
                if src[j] == "(":
                    d += 1
                elif src[j] == ")":
                    d -= 1
                j += 1
            region = src[i:j]
            for mm in re.finditer(r"!\s*\(?\s*[\w\.]+\.load\(\)\?\s*\.get_flag\((\w+)\)|!\s*\(?\s*[\w\.]+\.load\(\)\?\s*\.is_protocol_paused\(\)", region):
                a, b = i + mm.start(), i + mm.end()
                txt = src[a:b]
                if "get_flag" in txt:
                    new = txt[:txt.rindex("(") + 1] + "0)"
                else:
                    new = re.sub(r"[\w\.]+\.load\(\)\?\s*\.is_protocol_paused\(\)", "false", txt)
                mut = src[:a] + new + src[b:]
                rel = os.path.relpath(path, REPO)
                tmp = "/tmp/_cmut_new.rs"
                open(tmp, "w").write(mut)
                r = subprocess.run(["diff", "-u", "--label", "a/" + rel, "--label", "b/" + rel, path, tmp], stdout=subprocess.PIPE, text=True)
                n += 1
                name = "%03d-%s-%s.diff" % (n, fn[:-3], (mm.group(1) or "paused"))
                open(os.path.join(out, name), "w").write(r.stdout)
print(n, "constraint mutants in", out)
