// mirfacts: rustc_private driver that dumps type-checked, callee-resolved MIR
// facts (plus Anchor `#[account(..)]` attribute token trees and evaluated
// constants) of one crate as JSON.  Used as RUSTC_WORKSPACE_WRAPPER.
//
// Environment:
//   MIRFACTS_OUT    directory where <crate>.json is written
//   MIRFACTS_CRATES comma separated crate names to dump (others compile normally)
//   MIRFACTS_NONCE  copied into the output (freshness proof)
#![feature(rustc_private)]
#![allow(clippy::all)]

extern crate rustc_abi;
extern crate rustc_ast;
extern crate rustc_ast_pretty;
extern crate rustc_driver;
extern crate rustc_hir;
extern crate rustc_interface;
extern crate rustc_middle;
extern crate rustc_span;

use rustc_driver::{Callbacks, Compilation};
use rustc_hir::def::DefKind;
use rustc_hir::def_id::{DefId, LocalDefId, LOCAL_CRATE};
use rustc_middle::mir::{
    self, AggregateKind, BasicBlock, Body, Const, ConstValue, Operand, Place, PlaceElem,
    Rvalue, StatementKind, TerminatorKind,
};
use rustc_middle::ty::print::with_no_trimmed_paths;
use rustc_middle::ty::{self, GenericArgsRef, Instance, Ty, TyCtxt, TypeVisitableExt, TypingEnv};
use rustc_span::Span;
use std::collections::HashMap;
use std::fmt::Write as _;

fn esc(s: &str) -> String {
    let mut o = String::with_capacity(s.len() + 2);
    o.push('"');
    for c in s.chars() {
        match c {
            '"' => o.push_str("\\\""),
            '\\' => o.push_str("\\\\"),
            '\n' => o.push_str("\\n"),
            '\r' => o.push_str("\\r"),
            '\t' => o.push_str("\\t"),
            c if (c as u32) < 0x20 => {
                let _ = write!(o, "\\u{:04x}", c as u32);
            }
            c => o.push(c),
        }
    }
    o.push('"');
    o
}

struct Ctx<'tcx> {
    tcx: TyCtxt<'tcx>,
    defs: Vec<String>,            // json objects for def table
    def_ix: HashMap<DefId, usize>,
    tys: Vec<String>,
    ty_ix: HashMap<String, usize>,
    files: Vec<String>,
    file_ix: HashMap<String, usize>,
}

impl<'tcx> Ctx<'tcx> {
    fn ty_id(&mut self, t: Ty<'tcx>) -> usize {
        let s = with_no_trimmed_paths!(format!("{}", t));
        if let Some(&i) = self.ty_ix.get(&s) {
            return i;
        }
        // reserve slot first (recursive types terminate through the string key)
        let i = self.tys.len();
        self.tys.push(String::new());
        self.ty_ix.insert(s.clone(), i);
        let mut o = format!("{{\"s\":{}", esc(&s));
        match t.kind() {
            ty::Adt(d, args) => {
                let _ = write!(o, ",\"k\":\"adt\",\"adt\":{}", esc(&self.canon(d.did())));
                let ids: Vec<String> = args.types().map(|a| self.ty_id(a).to_string()).collect();
                let _ = write!(o, ",\"args\":[{}]", ids.join(","));
            }
            ty::Ref(_, inner, m) => {
                let ii = self.ty_id(*inner);
                let _ = write!(o, ",\"k\":\"ref\",\"mut\":{},\"to\":{}", m.is_mut(), ii);
            }
            ty::RawPtr(inner, m) => {
                let ii = self.ty_id(*inner);
                let _ = write!(o, ",\"k\":\"ptr\",\"mut\":{},\"to\":{}", m.is_mut(), ii);
            }
            ty::Tuple(ts) => {
                let ids: Vec<String> = ts.iter().map(|a| self.ty_id(a).to_string()).collect();
                let _ = write!(o, ",\"k\":\"tuple\",\"args\":[{}]", ids.join(","));
            }
            ty::Array(inner, _) | ty::Slice(inner) => {
                let ii = self.ty_id(*inner);
                let _ = write!(o, ",\"k\":\"array\",\"to\":{}", ii);
            }
            ty::Bool => o.push_str(",\"k\":\"bool\""),
            ty::Int(_) => o.push_str(",\"k\":\"int\""),
            ty::Uint(_) => o.push_str(",\"k\":\"uint\""),
            ty::Float(_) => o.push_str(",\"k\":\"float\""),
            ty::Closure(d, _) => {
                let di = self.def_id(*d);
                let _ = write!(o, ",\"k\":\"closure\",\"def\":{}", di);
            }
            ty::FnDef(d, _) => {
                let di = self.def_id(*d);
                let _ = write!(o, ",\"k\":\"fndef\",\"def\":{}", di);
            }
            _ => o.push_str(",\"k\":\"other\""),
        }
        o.push('}');
        self.tys[i] = o;
        i
    }

    fn canon(&self, d: DefId) -> String {
        format!("{}{}", self.tcx.crate_name(d.krate), self.tcx.def_path(d).to_string_no_crate_verbose())
    }

    fn adt_path(&self, t: Ty<'tcx>) -> Option<String> {
        match t.kind() {
            ty::Adt(d, _) => Some(self.canon(d.did())),
            ty::Ref(_, inner, _) => self.adt_path(*inner),
            _ => None,
        }
    }

    fn def_id(&mut self, d: DefId) -> usize {
        if let Some(&i) = self.def_ix.get(&d) {
            return i;
        }
        let tcx = self.tcx;
        let kind = tcx.def_kind(d);
        let path = with_no_trimmed_paths!(tcx.def_path_str(d));
        let krate = tcx.crate_name(d.krate).to_string();
        let key = format!("{}{}", krate, tcx.def_path(d).to_string_no_crate_verbose());
        let name = tcx.opt_item_name(d).map(|s| s.to_string()).unwrap_or_default();
        let mut o = String::new();
        let _ = write!(
            o,
            "{{\"key\":{},\"path\":{},\"name\":{},\"crate\":{},\"kind\":{}",
            esc(&key),
            esc(&path),
            esc(&name),
            esc(&krate),
            esc(&format!("{:?}", kind))
        );
        // impl / trait container
        if matches!(kind, DefKind::AssocFn | DefKind::AssocConst { .. } | DefKind::AssocTy) {
            let parent = tcx.parent(d);
            match tcx.def_kind(parent) {
                DefKind::Impl { of_trait } => {
                    let self_ty = tcx.type_of(parent).instantiate_identity().skip_norm_wip();
                    let st = with_no_trimmed_paths!(format!("{}", self_ty));
                    let _ = write!(o, ",\"self_ty\":{}", esc(&st));
                    if let Some(a) = self.adt_path(self_ty) {
                        let _ = write!(o, ",\"self_adt\":{}", esc(&a));
                    }
                    if of_trait {
                        let tr = tcx.impl_trait_ref(parent).instantiate_identity().skip_norm_wip();
                        let tp = self.canon(tr.def_id);
                        let _ = write!(o, ",\"trait\":{}", esc(&tp));
                    }
                }
                DefKind::Trait => {
                    let tp = self.canon(parent);
                    let _ = write!(o, ",\"trait\":{},\"trait_decl\":true", esc(&tp));
                }
                _ => {}
            }
        }
        if matches!(kind, DefKind::Closure) {
            let root = tcx.typeck_root_def_id(d);
            let pk = format!(
                "{}{}",
                tcx.crate_name(root.krate),
                tcx.def_path(root).to_string_no_crate_verbose()
            );
            let _ = write!(o, ",\"closure_of\":{}", esc(&pk));
        }
        o.push('}');
        let i = self.defs.len();
        self.defs.push(o);
        self.def_ix.insert(d, i);
        i
    }

    fn span(&mut self, sp: Span) -> String {
        let sm = self.tcx.sess.source_map();
        let exp = sp.from_expansion();
        let sp2 = if exp { sp.source_callsite() } else { sp };
        let loc = sm.lookup_char_pos(sp2.lo());
        let fname = format!("{}", loc.file.name.prefer_local_unconditionally());
        let fi = if let Some(&i) = self.file_ix.get(&fname) {
            i
        } else {
            let i = self.files.len();
            self.files.push(fname.clone());
            self.file_ix.insert(fname, i);
            i
        };
        format!("[{},{},{}]", fi, loc.line, if exp { 1 } else { 0 })
    }

    fn place(&mut self, body: &Body<'tcx>, p: &Place<'tcx>) -> String {
        let tcx = self.tcx;
        let mut o = String::new();
        let _ = write!(o, "{{\"l\":{}", p.local.as_usize());
        if !p.projection.is_empty() {
            o.push_str(",\"p\":[");
            let mut pty = mir::PlaceTy::from_ty(body.local_decls[p.local].ty);
            for (i, e) in p.projection.iter().enumerate() {
                if i > 0 {
                    o.push(',');
                }
                match e {
                    PlaceElem::Deref => o.push_str("\"*\""),
                    PlaceElem::Field(f, _) => {
                        let (owner, fname) = match pty.ty.kind() {
                            ty::Adt(def, _) => {
                                let vi = pty.variant_index.unwrap_or(rustc_abi::FIRST_VARIANT);
                                let v = def.variant(vi);
                                let mut op = self.canon(def.did());
                                if def.is_enum() {
                                    op = format!("{}::{}", op, v.name);
                                }
                                let fnm = v
                                    .fields
                                    .get(f)
                                    .map(|fd| fd.name.to_string())
                                    .unwrap_or_else(|| format!("{}", f.as_usize()));
                                (op, fnm)
                            }
                            ty::Tuple(_) => ("(tuple)".to_string(), format!("{}", f.as_usize())),
                            ty::Closure(..) => ("(closure)".to_string(), format!("{}", f.as_usize())),
                            _ => ("(other)".to_string(), format!("{}", f.as_usize())),
                        };
                        let _ = write!(
                            o,
                            "{{\"f\":{},\"n\":{},\"o\":{}}}",
                            f.as_usize(),
                            esc(&fname),
                            esc(&owner)
                        );
                    }
                    PlaceElem::Index(l) => {
                        let _ = write!(o, "{{\"i\":{}}}", l.as_usize());
                    }
                    PlaceElem::ConstantIndex { offset, from_end, .. } => {
                        let _ = write!(o, "{{\"ci\":{},\"fe\":{}}}", offset, from_end);
                    }
                    PlaceElem::Subslice { from, to, from_end } => {
                        let _ = write!(o, "{{\"ss\":[{},{}],\"fe\":{}}}", from, to, from_end);
                    }
                    PlaceElem::Downcast(name, vi) => {
                        let nm = name.map(|s| s.to_string()).unwrap_or_else(|| format!("{}", vi.as_usize()));
                        let _ = write!(o, "{{\"dc\":{},\"v\":{}}}", esc(&nm), vi.as_usize());
                    }
                    PlaceElem::OpaqueCast(_) => o.push_str("\"oc\""),
                    PlaceElem::UnwrapUnsafeBinder(_) => o.push_str("\"ub\""),
                }
                pty = pty.projection_ty(tcx, e);
            }
            o.push(']');
            let fin = pty.ty;
            let ti = self.ty_id(fin);
            let _ = write!(o, ",\"t\":{}", ti);
            if let Some(v) = pty.variant_index {
                let _ = write!(o, ",\"tv\":{}", v.as_usize());
            }
        }
        o.push('}');
        o
    }

    fn bytes_of_alloc(&self, alloc_id: rustc_middle::mir::interpret::AllocId, off: u64, len: Option<u64>, depth: u32) -> Option<String> {
        use rustc_middle::mir::interpret::GlobalAlloc;
        let tcx = self.tcx;
        let ga = tcx.try_get_global_alloc(alloc_id)?;
        let alloc = match ga {
            GlobalAlloc::Memory(a) => a,
            GlobalAlloc::Static(did) => {
                let key = format!("{}{}", tcx.crate_name(did.krate), tcx.def_path(did).to_string_no_crate_verbose());
                return Some(format!("{{\"static\":{}}}", esc(&key)));
            }
            _ => return None,
        };
        let a = alloc.inner();
        let total = a.len() as u64;
        if off > total {
            return None;
        }
        let len = len.unwrap_or(total - off).min(total - off);
        if len > 8192 {
            return None;
        }
        let bytes = a.inspect_with_uninit_and_ptr_outside_interpreter(off as usize..(off + len) as usize);
        let mut hex = String::with_capacity(bytes.len() * 2);
        for b in bytes {
            let _ = write!(hex, "{:02x}", b);
        }
        let mut o = format!("{{\"hex\":\"{}\"", hex);
        // follow pointers one level
        let ptrs: Vec<_> = a.provenance().ptrs().iter().map(|(sz, p)| (sz.bytes(), p.alloc_id())).collect();
        if !ptrs.is_empty() && depth < 2 {
            o.push_str(",\"ptrs\":[");
            let mut first = true;
            for (poff, pid) in ptrs {
                if poff < off || poff >= off + len {
                    continue;
                }
                // pointer value (offset in target) is stored in the bytes
                let mut w = [0u8; 8];
                let s = poff as usize;
                w.copy_from_slice(a.inspect_with_uninit_and_ptr_outside_interpreter(s..s + 8));
                let toff = u64::from_le_bytes(w);
                if let Some(inner) = self.bytes_of_alloc(pid, toff, None, depth + 1) {
                    if !first {
                        o.push(',');
                    }
                    first = false;
                    let _ = write!(o, "{{\"at\":{},\"to\":{}}}", poff - off, inner);
                }
            }
            o.push(']');
        }
        o.push('}');
        Some(o)
    }

    fn constval(&mut self, cv: ConstValue, ty: Ty<'tcx>) -> String {
        match cv {
            ConstValue::Scalar(rustc_middle::mir::interpret::Scalar::Int(i)) => {
                let bits = i.to_bits(i.size());
                let signed = matches!(ty.kind(), ty::Int(_));
                if signed {
                    let sz = i.size().bits();
                    let v = if sz == 128 { bits as i128 } else {
                        let sh = 128 - sz;
                        ((bits << sh) as i128) >> sh
                    };
                    format!("{{\"int\":\"{}\"}}", v)
                } else {
                    format!("{{\"int\":\"{}\"}}", bits)
                }
            }
            ConstValue::Scalar(rustc_middle::mir::interpret::Scalar::Ptr(p, _)) => {
                let (prov, off) = p.into_raw_parts();
                match self.bytes_of_alloc(prov.alloc_id(), off.bytes(), None, 0) {
                    Some(b) => format!("{{\"ptr\":{}}}", b),
                    None => "{\"ptr\":null}".to_string(),
                }
            }
            ConstValue::ZeroSized => "{\"zst\":true}".to_string(),
            ConstValue::Slice { alloc_id, meta } => {
                match self.bytes_of_alloc(alloc_id, 0, None, 0) {
                    Some(b) => format!("{{\"slice\":{},\"meta\":{}}}", b, meta),
                    None => "{\"slice\":null}".to_string(),
                }
            }
            ConstValue::Indirect { alloc_id, offset } => {
                let size = self
                    .tcx
                    .layout_of(TypingEnv::fully_monomorphized().as_query_input(ty))
                    .ok()
                    .map(|l| l.size.bytes());
                match self.bytes_of_alloc(alloc_id, offset.bytes(), size, 0) {
                    Some(b) => format!("{{\"mem\":{}}}", b),
                    None => "{\"mem\":null}".to_string(),
                }
            }
        }
    }

    fn operand(&mut self, body: &Body<'tcx>, owner: LocalDefId, op: &Operand<'tcx>) -> String {
        match op {
            Operand::Copy(p) => format!("{{\"c\":{}}}", self.place(body, p)),
            Operand::Move(p) => format!("{{\"m\":{}}}", self.place(body, p)),
            Operand::Constant(c) => {
                let tcx = self.tcx;
                let cty = c.const_.ty();
                let mut o = String::from("{\"k\":{");
                let _ = write!(o, "\"ty\":{}", self.ty_id(cty));
                match cty.kind() {
                    ty::FnDef(d, _) => {
                        let _ = write!(o, ",\"fn\":{}", self.def_id(*d));
                    }
                    _ => {}
                }
                if let Const::Unevaluated(uv, _) = c.const_ {
                    let _ = write!(o, ",\"item\":{}", self.def_id(uv.def));
                    if let Some(p) = uv.promoted {
                        let _ = write!(o, ",\"promoted\":{}", p.as_usize());
                    }
                }
                let env = TypingEnv::post_analysis(tcx, owner.to_def_id());
                if !matches!(cty.kind(), ty::FnDef(..)) && !c.const_.has_non_region_param() {
                    // do not evaluate promoteds here (they are dumped as bodies)
                    let is_promoted = matches!(c.const_, Const::Unevaluated(uv, _) if uv.promoted.is_some());
                    if !is_promoted {
                        if let Ok(v) = c.const_.eval(tcx, env, c.span) {
                            let vs = self.constval(v, cty);
                            let _ = write!(o, ",\"v\":{}", vs);
                        }
                    }
                }
                o.push_str("}}");
                o
            }
            #[allow(unreachable_patterns)]
            _ => "{\"x\":\"runtime-checks\"}".to_string(),
        }
    }

    fn rvalue(&mut self, body: &Body<'tcx>, owner: LocalDefId, rv: &Rvalue<'tcx>) -> String {
        match rv {
            Rvalue::Use(op, ..) => format!("{{\"r\":\"use\",\"a\":[{}]}}", self.operand(body, owner, op)),
            Rvalue::Repeat(op, _) => format!("{{\"r\":\"repeat\",\"a\":[{}]}}", self.operand(body, owner, op)),
            Rvalue::Ref(_, bk, p) => {
                let m = matches!(bk, mir::BorrowKind::Mut { .. });
                format!("{{\"r\":\"ref\",\"mut\":{},\"pl\":{}}}", m, self.place(body, p))
            }
            Rvalue::RawPtr(k, p) => {
                let m = matches!(k, mir::RawPtrKind::Mut);
                format!("{{\"r\":\"rawptr\",\"mut\":{},\"pl\":{}}}", m, self.place(body, p))
            }
            Rvalue::ThreadLocalRef(_) => "{\"r\":\"tls\"}".to_string(),
            Rvalue::Cast(k, op, t) => {
                let st = op.ty(&body.local_decls, self.tcx);
                format!(
                    "{{\"r\":\"cast\",\"kind\":{},\"a\":[{}],\"from\":{},\"to\":{}}}",
                    esc(&format!("{:?}", k)),
                    self.operand(body, owner, op),
                    self.ty_id(st),
                    self.ty_id(*t)
                )
            }
            Rvalue::BinaryOp(op, ab) => {
                let (a, b) = &**ab;
                format!(
                    "{{\"r\":\"bin\",\"op\":{},\"a\":[{},{}]}}",
                    esc(&format!("{:?}", op)),
                    self.operand(body, owner, a),
                    self.operand(body, owner, b)
                )
            }
            Rvalue::UnaryOp(op, a) => format!(
                "{{\"r\":\"un\",\"op\":{},\"a\":[{}]}}",
                esc(&format!("{:?}", op)),
                self.operand(body, owner, a)
            ),
            Rvalue::Discriminant(p) => format!("{{\"r\":\"discr\",\"pl\":{}}}", self.place(body, p)),
            Rvalue::Aggregate(k, ops) => {
                let mut o = String::from("{\"r\":\"agg\"");
                match &**k {
                    AggregateKind::Array(_) => o.push_str(",\"ak\":\"array\""),
                    AggregateKind::Tuple => o.push_str(",\"ak\":\"tuple\""),
                    AggregateKind::Adt(d, vi, _, _, _) => {
                        let adt = self.tcx.adt_def(*d);
                        let v = adt.variant(*vi);
                        let p = self.canon(*d);
                        let _ = write!(
                            o,
                            ",\"ak\":\"adt\",\"adt\":{},\"variant\":{},\"vi\":{},\"fields\":[",
                            esc(&p),
                            esc(&v.name.to_string()),
                            vi.as_usize()
                        );
                        for (i, f) in v.fields.iter().enumerate() {
                            if i > 0 {
                                o.push(',');
                            }
                            o.push_str(&esc(&f.name.to_string()));
                        }
                        o.push(']');
                    }
                    AggregateKind::Closure(d, _) => {
                        let _ = write!(o, ",\"ak\":\"closure\",\"def\":{}", self.def_id(*d));
                    }
                    AggregateKind::Coroutine(d, _) | AggregateKind::CoroutineClosure(d, _) => {
                        let _ = write!(o, ",\"ak\":\"coroutine\",\"def\":{}", self.def_id(*d));
                    }
                    AggregateKind::RawPtr(..) => o.push_str(",\"ak\":\"rawptr\""),
                }
                o.push_str(",\"a\":[");
                for (i, op) in ops.iter().enumerate() {
                    if i > 0 {
                        o.push(',');
                    }
                    o.push_str(&self.operand(body, owner, op));
                }
                o.push_str("]}");
                o
            }
            Rvalue::CopyForDeref(p) => format!("{{\"r\":\"use\",\"a\":[{{\"c\":{}}}]}}", self.place(body, p)),
            Rvalue::WrapUnsafeBinder(op, _) => format!("{{\"r\":\"use\",\"a\":[{}]}}", self.operand(body, owner, op)),
        }
    }

    fn callee(&mut self, owner: LocalDefId, d: DefId, args: GenericArgsRef<'tcx>) -> String {
        let tcx = self.tcx;
        let mut o = String::new();
        let raw = self.def_id(d);
        let _ = write!(o, "\"raw\":{}", raw);
        let sub = with_no_trimmed_paths!(format!("{:?}", args));
        let _ = write!(o, ",\"sub\":{}", esc(&sub));
        let env = TypingEnv::post_analysis(tcx, owner.to_def_id());
        match Instance::try_resolve(tcx, env, d, args) {
            Ok(Some(inst)) => {
                let rd = inst.def_id();
                let r = self.def_id(rd);
                let _ = write!(o, ",\"res\":{}", r);
                let ik = match inst.def {
                    ty::InstanceKind::Item(_) => "item",
                    ty::InstanceKind::Virtual(..) => "virtual",
                    ty::InstanceKind::Intrinsic(_) => "intrinsic",
                    ty::InstanceKind::ClosureOnceShim { .. } => "closure_once_shim",
                    ty::InstanceKind::FnPtrShim(..) => "fnptr_shim",
                    ty::InstanceKind::DropGlue(..) => "drop_glue",
                    ty::InstanceKind::CloneShim(..) => "clone_shim",
                    ty::InstanceKind::ReifyShim(..) => "reify_shim",
                    _ => "other",
                };
                let _ = write!(o, ",\"ik\":\"{}\"", ik);
                // For closure calls (FnOnce::call_once etc. on a closure type), record the closure def.
                if let Some(a0) = inst.args.types().next() {
                    if let ty::Closure(cd, _) = a0.kind() {
                        let c = self.def_id(*cd);
                        let _ = write!(o, ",\"closure\":{}", c);
                    }
                }
            }
            Ok(None) => o.push_str(",\"res\":null"),
            Err(_) => o.push_str(",\"res\":null,\"err\":true"),
        }
        // closure passed as Self of Fn* call (unresolved generic case)
        if let Some(a0) = args.types().next() {
            if let ty::Closure(cd, _) = a0.kind() {
                let c = self.def_id(*cd);
                let _ = write!(o, ",\"self_closure\":{}", c);
            }
        }
        o
    }

    fn body(&mut self, owner: LocalDefId, body: &Body<'tcx>, promoted: Option<usize>) -> String {
        let tcx = self.tcx;
        let mut o = String::new();
        let d = self.def_id(owner.to_def_id());
        let _ = write!(o, "{{\"def\":{}", d);
        if let Some(p) = promoted {
            let _ = write!(o, ",\"promoted\":{}", p);
        }
        let sp = self.span(body.span);
        let _ = write!(o, ",\"span\":{},\"argc\":{}", sp, body.arg_count);
        // locals
        o.push_str(",\"locals\":[");
        for (i, ld) in body.local_decls.iter().enumerate() {
            if i > 0 {
                o.push(',');
            }
            let _ = write!(o, "{}", self.ty_id(ld.ty));
        }
        o.push(']');
        // debug names
        o.push_str(",\"names\":{");
        let mut first = true;
        for vdi in &body.var_debug_info {
            if let mir::VarDebugInfoContents::Place(p) = &vdi.value {
                if p.projection.is_empty() {
                    if !first {
                        o.push(',');
                    }
                    first = false;
                    let _ = write!(o, "\"{}\":{}", p.local.as_usize(), esc(&vdi.name.to_string()));
                }
            }
        }
        o.push('}');
        // closure upvar names
        o.push_str(",\"blocks\":[");
        for (bi, bb) in body.basic_blocks.iter_enumerated() {
            if bi.as_usize() > 0 {
                o.push(',');
            }
            o.push_str("{\"s\":[");
            let mut firsts = true;
            for st in &bb.statements {
                match &st.kind {
                    StatementKind::Assign(b) => {
                        let (pl, rv) = &**b;
                        if !firsts {
                            o.push(',');
                        }
                        firsts = false;
                        let pls = self.place(body, pl);
                        let rvs = self.rvalue(body, owner, rv);
                        let sps = self.span(st.source_info.span);
                        let _ = write!(o, "{{\"d\":{},\"v\":{},\"sp\":{}}}", pls, rvs, sps);
                    }
                    StatementKind::SetDiscriminant { place, variant_index } => {
                        if !firsts {
                            o.push(',');
                        }
                        firsts = false;
                        let pls = self.place(body, place);
                        let sps = self.span(st.source_info.span);
                        let _ = write!(
                            o,
                            "{{\"d\":{},\"v\":{{\"r\":\"setdiscr\",\"vi\":{}}},\"sp\":{}}}",
                            pls,
                            variant_index.as_usize(),
                            sps
                        );
                    }
                    StatementKind::Intrinsic(_) => {
                        if !firsts {
                            o.push(',');
                        }
                        firsts = false;
                        o.push_str("{\"intrinsic\":true}");
                    }
                    _ => {}
                }
            }
            o.push_str("],\"t\":");
            let term = bb.terminator();
            let tsp = self.span(term.source_info.span);
            let cleanup = bb.is_cleanup;
            match &term.kind {
                TerminatorKind::Goto { target } => {
                    let _ = write!(o, "{{\"k\":\"goto\",\"to\":{}", target.as_usize());
                }
                TerminatorKind::SwitchInt { discr, targets } => {
                    let ds = self.operand(body, owner, discr);
                    let dty = discr.ty(&body.local_decls, tcx);
                    let _ = write!(o, "{{\"k\":\"switch\",\"on\":{},\"ty\":{},\"arms\":[", ds, self.ty_id(dty));
                    for (i, (v, t)) in targets.iter().enumerate() {
                        if i > 0 {
                            o.push(',');
                        }
                        let _ = write!(o, "[\"{}\",{}]", v, t.as_usize());
                    }
                    let _ = write!(o, "],\"else\":{}", targets.otherwise().as_usize());
                }
                TerminatorKind::UnwindResume => o.push_str("{\"k\":\"resume\""),
                TerminatorKind::UnwindTerminate(_) => o.push_str("{\"k\":\"abort\""),
                TerminatorKind::Return => o.push_str("{\"k\":\"return\""),
                TerminatorKind::Unreachable => o.push_str("{\"k\":\"unreachable\""),
                TerminatorKind::Drop { place, target, .. } => {
                    let ps = self.place(body, place);
                    let _ = write!(o, "{{\"k\":\"drop\",\"pl\":{},\"to\":{}", ps, target.as_usize());
                }
                TerminatorKind::Call { func, args, destination, target, unwind, .. } => {
                    o.push_str("{\"k\":\"call\"");
                    let fty = func.ty(&body.local_decls, tcx);
                    match fty.kind() {
                        ty::FnDef(d, ga) => {
                            let cs = self.callee(owner, *d, ga);
                            let _ = write!(o, ",{}", cs);
                        }
                        _ => {
                            let fs = self.operand(body, owner, func);
                            let _ = write!(o, ",\"indirect\":{}", fs);
                        }
                    }
                    o.push_str(",\"args\":[");
                    for (i, a) in args.iter().enumerate() {
                        if i > 0 {
                            o.push(',');
                        }
                        let s = self.operand(body, owner, &a.node);
                        o.push_str(&s);
                    }
                    o.push(']');
                    let ds = self.place(body, destination);
                    let _ = write!(o, ",\"dest\":{}", ds);
                    match target {
                        Some(t) => {
                            let _ = write!(o, ",\"to\":{}", t.as_usize());
                        }
                        None => o.push_str(",\"to\":null"),
                    }
                    if let mir::UnwindAction::Cleanup(c) = unwind {
                        let _ = write!(o, ",\"unwind\":{}", c.as_usize());
                    }
                }
                TerminatorKind::TailCall { .. } => o.push_str("{\"k\":\"tailcall\""),
                TerminatorKind::Assert { cond, expected, msg, target, .. } => {
                    let cs = self.operand(body, owner, cond);
                    let mk = match &**msg {
                        mir::AssertKind::BoundsCheck { .. } => "bounds".to_string(),
                        mir::AssertKind::Overflow(op, ..) => format!("overflow:{:?}", op),
                        mir::AssertKind::OverflowNeg(_) => "overflow:Neg".to_string(),
                        mir::AssertKind::DivisionByZero(_) => "div0".to_string(),
                        mir::AssertKind::RemainderByZero(_) => "rem0".to_string(),
                        _ => "other".to_string(),
                    };
                    let _ = write!(
                        o,
                        "{{\"k\":\"assert\",\"cond\":{},\"expected\":{},\"msg\":{},\"to\":{}",
                        cs,
                        expected,
                        esc(&mk),
                        target.as_usize()
                    );
                }
                TerminatorKind::FalseEdge { real_target, .. } => {
                    let _ = write!(o, "{{\"k\":\"goto\",\"to\":{}", real_target.as_usize());
                }
                TerminatorKind::FalseUnwind { real_target, .. } => {
                    let _ = write!(o, "{{\"k\":\"goto\",\"to\":{}", real_target.as_usize());
                }
                TerminatorKind::Yield { .. } => o.push_str("{\"k\":\"yield\""),
                TerminatorKind::CoroutineDrop => o.push_str("{\"k\":\"codrop\""),
                TerminatorKind::InlineAsm { .. } => o.push_str("{\"k\":\"asm\""),
            }
            let _ = write!(o, ",\"sp\":{}", tsp);
            if cleanup {
                o.push_str(",\"cleanup\":true");
            }
            o.push_str("}}");
        }
        o.push_str("]}");
        let _ = BasicBlock::from_usize(0);
        o
    }
}

fn token_trees(ts: &rustc_ast::tokenstream::TokenStream, out: &mut String) {
    use rustc_ast::tokenstream::TokenTree;
    out.push('[');
    let mut first = true;
    for tt in ts.iter() {
        if !first {
            out.push(',');
        }
        first = false;
        match tt {
            TokenTree::Token(tok, _) => {
                let s = rustc_ast_pretty::pprust::token_to_string(tok);
                out.push_str(&esc(&s));
            }
            TokenTree::Delimited(_, _, delim, inner) => {
                let d = match delim {
                    rustc_ast::token::Delimiter::Parenthesis => "(",
                    rustc_ast::token::Delimiter::Bracket => "[",
                    rustc_ast::token::Delimiter::Brace => "{",
                    _ => "",
                };
                let _ = write!(out, "{{\"g\":{},\"t\":", esc(d));
                token_trees(inner, out);
                out.push('}');
            }
        }
    }
    out.push(']');
}

struct Cb {
    out_dir: String,
    nonce: String,
    ast_structs: Vec<String>,
}

fn ast_attrs(sm: &rustc_span::source_map::SourceMap, attrs: &[rustc_ast::ast::Attribute]) -> String {
    let mut o = String::from("[");
    let mut first = true;
    for a in attrs {
        if let rustc_ast::ast::AttrKind::Normal(n) = &a.kind {
            let path: Vec<String> = n.item.path.segments.iter().map(|s| s.ident.name.to_string()).collect();
            let mut toks = String::new();
            match &n.item.args {
                rustc_ast::ast::AttrItemKind::Unparsed(rustc_ast::ast::AttrArgs::Delimited(d)) => token_trees(&d.tokens, &mut toks),
                _ => toks.push_str("[]"),
            }
            if !first {
                o.push(',');
            }
            first = false;
            let loc = sm.lookup_char_pos(a.span.lo());
            let _ = write!(
                o,
                "{{\"path\":{},\"tokens\":{},\"file\":{},\"line\":{}}}",
                esc(&path.join("::")),
                toks,
                esc(&format!("{}", loc.file.name.prefer_local_unconditionally())),
                loc.line
            );
        }
    }
    o.push(']');
    o
}

fn ast_items(sm: &rustc_span::source_map::SourceMap, items: &[Box<rustc_ast::ast::Item>], modpath: &str, out: &mut Vec<String>) {
    use rustc_ast::ast::{ItemKind, ModKind, VariantData};
    for it in items {
        match &it.kind {
            ItemKind::Mod(_, ident, ModKind::Loaded(inner, ..)) => {
                let mp = format!("{}::{}", modpath, ident.name);
                ast_items(sm, inner, &mp, out);
            }
            ItemKind::Struct(ident, _, vd) => {
                let fields = match vd {
                    VariantData::Struct { fields, .. } => &fields[..],
                    VariantData::Tuple(fields, _) => &fields[..],
                    VariantData::Unit(_) => &[][..],
                };
                let mut any = false;
                let mut fs = String::from("[");
                for (i, f) in fields.iter().enumerate() {
                    if i > 0 {
                        fs.push(',');
                    }
                    let at = ast_attrs(sm, &f.attrs);
                    if at.len() > 2 {
                        any = true;
                    }
                    let nm = f.ident.map(|i| i.name.to_string()).unwrap_or_else(|| format!("{}", i));
                    let tys = rustc_ast_pretty::pprust::ty_to_string(&f.ty);
                    let _ = write!(fs, "{{\"name\":{},\"ty_src\":{},\"attrs\":{}}}", esc(&nm), esc(&tys), at);
                }
                fs.push(']');
                let sat = ast_attrs(sm, &it.attrs);
                if any || sat.len() > 2 {
                    let loc = sm.lookup_char_pos(it.span.lo());
                    out.push(format!(
                        "{{\"path\":{},\"name\":{},\"file\":{},\"line\":{},\"attrs\":{},\"fields\":{}}}",
                        esc(&format!("{}::{}", modpath, ident.name)),
                        esc(&ident.name.to_string()),
                        esc(&format!("{}", loc.file.name.prefer_local_unconditionally())),
                        loc.line,
                        sat,
                        fs
                    ));
                }
            }
            _ => {}
        }
    }
}

impl Callbacks for Cb {
    fn after_expansion<'tcx>(&mut self, _c: &rustc_interface::interface::Compiler, tcx: TyCtxt<'tcx>) -> Compilation {
        let steal = tcx.resolver_for_lowering();
        let guard = steal.borrow();
        let krate = &guard.1;
        let crate_name = tcx.crate_name(LOCAL_CRATE).to_string();
        let sm = tcx.sess.source_map();
        ast_items(sm, &krate.items, &crate_name, &mut self.ast_structs);
        Compilation::Continue
    }

    fn after_analysis<'tcx>(&mut self, _c: &rustc_interface::interface::Compiler, tcx: TyCtxt<'tcx>) -> Compilation {
        let crate_name = tcx.crate_name(LOCAL_CRATE).to_string();
        let mut cx = Ctx {
            tcx,
            defs: vec![],
            def_ix: HashMap::new(),
            tys: vec![],
            ty_ix: HashMap::new(),
            files: vec![],
            file_ix: HashMap::new(),
        };
        let mut bodies: Vec<String> = vec![];
        let mut skipped = 0usize;
        for owner in tcx.hir_body_owners() {
            let dk = tcx.def_kind(owner);
            let is_fn_like = matches!(dk, DefKind::Fn | DefKind::AssocFn | DefKind::Closure);
            if !is_fn_like {
                skipped += 1;
                continue;
            }
            if matches!(dk, DefKind::Closure) && tcx.is_coroutine(owner.to_def_id()) {
                skipped += 1;
                continue;
            }
            // closures inside const contexts (anon const / const item) have no optimized_mir
            if tcx.hir_body_const_context(owner).is_some_and(|c| !matches!(c, rustc_hir::ConstContext::ConstFn)) {
                skipped += 1;
                continue;
            }
            let body = tcx.optimized_mir(owner.to_def_id());
            bodies.push(cx.body(owner, body, None));
            let promoted = tcx.promoted_mir(owner.to_def_id());
            for (pi, pb) in promoted.iter_enumerated() {
                bodies.push(cx.body(owner, pb, Some(pi.as_usize())));
            }
        }
        // constants
        let mut consts: Vec<String> = vec![];
        for id in tcx.hir_crate_items(()).definitions() {
            let dk = tcx.def_kind(id);
            if !matches!(dk, DefKind::Const { .. } | DefKind::AssocConst { .. } | DefKind::Static { .. }) {
                continue;
            }
            let did = id.to_def_id();
            if tcx.generics_of(did).requires_monomorphization(tcx) {
                continue;
            }
            // skip trait-declared assoc consts without a body
            if matches!(dk, DefKind::AssocConst { .. }) {
                let parent = tcx.parent(did);
                if matches!(tcx.def_kind(parent), DefKind::Trait) {
                    continue;
                }
            }
            let ty = tcx.type_of(did).instantiate_identity().skip_norm_wip();
            let val = if matches!(dk, DefKind::Static { .. }) {
                match tcx.eval_static_initializer(did) {
                    Ok(_) => None,
                    Err(_) => None,
                }
            } else {
                tcx.const_eval_poly(did).ok()
            };
            let di = cx.def_id(did);
            let tyi = cx.ty_id(ty);
            let sp = cx.span(tcx.def_span(did));
            let vs = match val {
                Some(v) => cx.constval(v, ty),
                None => "null".to_string(),
            };
            consts.push(format!("{{\"def\":{},\"ty\":{},\"v\":{},\"span\":{}}}", di, tyi, vs, sp));
        }
        // structs with field attributes (#[account(..)]) and ADT field lists
        let mut adts: Vec<String> = vec![];
        for id in tcx.hir_crate_items(()).definitions() {
            let dk = tcx.def_kind(id);
            if !matches!(dk, DefKind::Struct | DefKind::Enum) {
                continue;
            }
            let did = id.to_def_id();
            let adt = tcx.adt_def(did);
            let mut o = String::new();
            let di = cx.def_id(did);
            let sp = cx.span(tcx.def_span(did));
            let _ = write!(o, "{{\"def\":{},\"span\":{},\"is_enum\":{},\"variants\":[", di, sp, adt.is_enum());
            for (vi, v) in adt.variants().iter_enumerated() {
                if vi.as_usize() > 0 {
                    o.push(',');
                }
                let discr = if adt.is_enum() { adt.discriminant_for_variant(tcx, vi).val } else { 0 };
                let _ = write!(o, "{{\"name\":{},\"discr\":\"{}\",\"fields\":[", esc(&v.name.to_string()), discr);
                for (fi, f) in v.fields.iter().enumerate() {
                    if fi > 0 {
                        o.push(',');
                    }
                    let fty = tcx.type_of(f.did).instantiate_identity().skip_norm_wip();
                    let tyi = cx.ty_id(fty);
                    let _ = write!(o, "{{\"name\":{},\"ty\":{}", esc(&f.name.to_string()), tyi);
                    if let Some(fl) = f.did.as_local() {
                        let hid = tcx.local_def_id_to_hir_id(fl);
                        let mut attrs = String::new();
                        let mut firsta = true;
                        for a in tcx.hir_attrs(hid) {
                            if let rustc_hir::Attribute::Unparsed(item) = a {
                                let path: Vec<String> = item.path.segments.iter().map(|s| s.to_string()).collect();
                                let mut toks = String::new();
                                match &item.args {
                                    rustc_hir::AttrArgs::Delimited(d) => token_trees(&d.tokens, &mut toks),
                                    _ => toks.push_str("[]"),
                                }
                                if !firsta {
                                    attrs.push(',');
                                }
                                firsta = false;
                                let asp = cx.span(item.span);
                                let _ = write!(attrs, "{{\"path\":{},\"tokens\":{},\"sp\":{}}}", esc(&path.join("::")), toks, asp);
                            }
                        }
                        if !attrs.is_empty() {
                            let _ = write!(o, ",\"attrs\":[{}]", attrs);
                        }
                        let fsp = cx.span(tcx.def_span(f.did));
                        let _ = write!(o, ",\"sp\":{}", fsp);
                    }
                    o.push('}');
                }
                o.push_str("]}");
            }
            o.push(']');
            // struct-level attributes (e.g. #[instruction(..)])
            let hid = tcx.local_def_id_to_hir_id(id);
            let mut attrs = String::new();
            let mut firsta = true;
            for a in tcx.hir_attrs(hid) {
                if let rustc_hir::Attribute::Unparsed(item) = a {
                    let path: Vec<String> = item.path.segments.iter().map(|s| s.to_string()).collect();
                    let mut toks = String::new();
                    match &item.args {
                        rustc_hir::AttrArgs::Delimited(d) => token_trees(&d.tokens, &mut toks),
                        _ => toks.push_str("[]"),
                    }
                    if !firsta {
                        attrs.push(',');
                    }
                    firsta = false;
                    let _ = write!(attrs, "{{\"path\":{},\"tokens\":{}}}", esc(&path.join("::")), toks);
                }
            }
            let _ = write!(o, ",\"attrs\":[{}]}}", attrs);
            adts.push(o);
        }

        let mut out = String::new();
        let _ = write!(
            out,
            "{{\"crate\":{},\"nonce\":{},\"skipped_bodies\":{},\"files\":[",
            esc(&crate_name),
            esc(&self.nonce),
            skipped
        );
        for (i, f) in cx.files.iter().enumerate() {
            if i > 0 {
                out.push(',');
            }
            out.push_str(&esc(f));
        }
        out.push_str("],\"types\":[");
        for (i, t) in cx.tys.iter().enumerate() {
            if i > 0 {
                out.push(',');
            }
            out.push_str(t);
        }
        out.push_str("],\"defs\":[\n");
        out.push_str(&cx.defs.join(",\n"));
        out.push_str("],\"consts\":[\n");
        out.push_str(&consts.join(",\n"));
        out.push_str("],\"adts\":[\n");
        out.push_str(&adts.join(",\n"));
        out.push_str("],\"ast_structs\":[\n");
        out.push_str(&self.ast_structs.join(",\n"));
        out.push_str("],\"bodies\":[\n");
        out.push_str(&bodies.join(",\n"));
        out.push_str("]}\n");
        let path = format!("{}/{}.json", self.out_dir, crate_name);
        let tmp = format!("{}.tmp.{}", path, std::process::id());
        std::fs::write(&tmp, out).expect("write facts");
        std::fs::rename(&tmp, &path).expect("rename facts");
        Compilation::Continue
    }
}

struct Nop;
impl Callbacks for Nop {}

fn main() {
    let mut args: Vec<String> = std::env::args().collect();
    // RUSTC_WORKSPACE_WRAPPER convention: argv[1] is the real rustc path.
    if args.len() > 1 && (args[1].ends_with("rustc") || args[1].contains("/rustc")) {
        args.remove(1);
    }
    let out_dir = std::env::var("MIRFACTS_OUT").unwrap_or_default();
    let crates = std::env::var("MIRFACTS_CRATES").unwrap_or_default();
    let nonce = std::env::var("MIRFACTS_NONCE").unwrap_or_default();
    let mut crate_name = String::new();
    let mut i = 0;
    while i < args.len() {
        if args[i] == "--crate-name" && i + 1 < args.len() {
            crate_name = args[i + 1].clone();
        }
        i += 1;
    }
    let is_build_script = crate_name.starts_with("build_script");
    let wanted = !out_dir.is_empty()
        && !is_build_script
        && crates.split(',').any(|c| c == crate_name)
        && !args.iter().any(|a| a == "--test");
    if wanted {
        let mut cb = Cb { out_dir, nonce, ast_structs: vec![] };
        rustc_driver::run_compiler(&args, &mut cb);
    } else {
        rustc_driver::run_compiler(&args, &mut Nop);
    }
}
