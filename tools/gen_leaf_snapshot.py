#!/usr/bin/env python3
"""python3 tools/gen_leaf_snapshot.py — (re)generate rules/leaf_snapshot.json from /repo's current tree. Review the diff before committing."""
import json, os, sys
V = os.path.dirname(os.path.dirname(os.path.abspath(__file__)))
sys.path.insert(0, V)
from engine import facts, model
from rules import snapshot
d, meta = facts.build("default")
prog = model.Program(facts.load_raw(d))
snap = snapshot.build(prog)
json.dump(snap, open(snapshot.SNAP_FILE, "w"), indent=1, sort_keys=True)
print(len(snap), "helpers snapshotted")
from collections import Counter
c = Counter(p for fid in snap for p in snapshot.props_of(fid))
print(sorted(c.items()))
