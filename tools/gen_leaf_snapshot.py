#!/usr/bin/env python3
"""python3 tools/gen_leaf_snapshot.py — (re)generate rules/leaf_snapshot.json from /repo's current tree. Review the diff before committing."""
import json, os, sys
V = os.path.dirname(os.path.dirname(os.path.abspath(__file__)))
sys.path.insert(0, V)
from engine import facts, model
from rules import snapshot
d, meta = facts.build("default")
prog = model.Program(facts.load_raw(d))
snap = snapshot.build(prog)
json.dump(snap, open(snapshot.SNAP_FILE, "w"), indent=1, sort_keys=True)
print(len(snap), "helpers snapshotted")
# deep forms (fallback "equal modulo helper boundaries") of the snapshot helpers, the kernels and the leaf helpers
from engine import run
from rules import kernels
run.prepare(prog)
deep = {}
live = {fid: f for fid, f in snapshot.candidates(prog)}
for fid in snap:
    f = live.get(fid)
    if f is not None:
        sg = kernels.deep_sig(prog, f)
        if sg:
            deep["S|" + fid] = sg
for tab, pre in ((kernels.KERNELS, "K|"), (kernels.LEAVES, "L|")):
    for nm, ent in tab.items():
        fs = prog.find_fns(ent[0])
        if len(fs) == 1:
            sg = kernels.deep_sig(prog, fs[0])
            if sg:
                deep[pre + nm] = sg
# deep forms of the direct callers of every snapshot helper: a helper whose contract changed (split into phases, a flag replaced by
# an enum, a parameter passed by reference ...) is still the reviewed behaviour when every caller's deep form is unchanged
ncall = 0
for fid in snap:
    f = live.get(fid)
    if f is None:
        continue
    cl = []
    for g in snapshot.callers_of(prog, f):
        gid = snapshot.fn_id(g)
        key = "C|" + gid
        if key not in deep:
            if len(g.blocks) > 150 or snapshot._has_loop(g):
                continue          # large / looping callers have no meaningful path table: the fallback is simply not available for them
            sg = kernels.deep_sig(prog, g, budget=3.0)
            if not sg:
                continue
            deep[key] = sg
            ncall += 1
        cl.append(gid)
    deep["CALLERS|" + fid] = sorted(set(cl))
print(ncall, "caller deep forms")
json.dump(deep, open(kernels.DEEP_FILE, "w"), indent=1, sort_keys=True)
print(len(deep), "deep forms")
from collections import Counter
c = Counter(p for fid in snap for p in snapshot.props_of(fid))
print(sorted(c.items()))
