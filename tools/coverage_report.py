#!/usr/bin/env python3
"""python3 tools/coverage_report.py — development aid: which function bodies reachable from an instruction entry point did the
rules examine with a path / provenance analysis (CFG, dominators, slicer), and which were only covered by the whole-program
analyses (call graph, write sets)?  Prints the unexamined ones, largest first."""
import importlib, os, re, sys
V = os.path.dirname(os.path.dirname(os.path.abspath(__file__)))
sys.path.insert(0, V)
from engine import facts, model, anchor, run
from rules import snapshot

d, meta = facts.build("default")
raw = facts.load_raw(d)
prog = model.Program(raw)
am = anchor.AnchorModel(prog, raw)
touched = {}
for pid in sorted(f[:-3] for f in os.listdir(os.path.join(V, "rules")) if re.match(r"C\d+\.py$", f)):
    ctx = run.Ctx(pid, "quick", prog, am, raw, meta)
    try:
        importlib.import_module("rules." + pid).run(ctx)
        snapshot.check_snapshot(ctx, pid)
    except run.AnchorMissing:
        pass
    for k, f in prog.fns.items():
        if f._defs is not None or f._dom is not None or f._rf is not None:
            touched.setdefault(k, set()).add(pid)
# reachable from instruction entry points
reach = set()
for name, e in (am.instructions.items() if isinstance(am.instructions, dict) else []):
    for h in e.get("handlers", []):
        reach |= prog.reach(h.key) | {h.key}
    ta = e.get("try_accounts")
    if ta is not None:
        reach |= prog.reach(ta.key) | {ta.key}
mine = [k for k in reach if k in prog.fns and prog.fns[k].info["crate"] in facts.CRATES]
un = sorted((k for k in mine if k not in touched), key=lambda k: -len(prog.fns[k].blocks))
print("reachable analysed-crate bodies: %d, examined by a path/provenance analysis: %d, not: %d" % (len(mine), len([k for k in mine if k in touched]), len(un)))
for k in un:
    f = prog.fns[k]
    if f.raw.get("from_expansion") and "try_accounts" in k:
        continue
    print("%4d  %s  %s" % (len(f.blocks), k, f.loc(f.raw["span"])))
