#!/bin/bash
# usage: run_facts_raw.sh <repo dir> <out dir> <nonce> [extra cargo args...]
set -e
REPO=$1; OUT=$2; NONCE=$3; shift 3
NIGHTLY_RUSTC=$(rustup which --toolchain nightly rustc)
SYSROOT=$(rustc +nightly --print sysroot)
mkdir -p "$OUT"
cd "$REPO"
exec env CARGO_NET_OFFLINE=true RUSTC=$NIGHTLY_RUSTC RUSTC_WORKSPACE_WRAPPER=/verif/tools/mirfacts/target/release/mirfacts \
  LD_LIBRARY_PATH=$SYSROOT/lib RUSTFLAGS="-Zmir-opt-level=0 -Awarnings -Cdebug-assertions=off -Coverflow-checks=on" \
  CARGO_TARGET_DIR=${FACTS_TARGET_DIR:-/verif/.work/target} MIRFACTS_OUT="$OUT" \
  MIRFACTS_CRATES=marginfi,marginfi_type_crate,kamino_mocks,drift_mocks,solend_mocks,id_crate MIRFACTS_NONCE="$NONCE" \
  cargo check --offline -p marginfi --lib "$@"
