#!/usr/bin/env python3
"""python3 tools/try_patch.py <patch.diff> [Cxx ...]  — run checks against a scratch worktree with the patch applied."""
import os, re, subprocess, sys
V = os.path.dirname(os.path.dirname(os.path.abspath(__file__)))
WT = "/tmp/mfi-try-wt-%d" % os.getpid()
patch = os.path.abspath(sys.argv[1])
props = sys.argv[2:] or sorted(f[:-3] for f in os.listdir(os.path.join(V, "rules")) if re.match(r"C\d+\.py$", f))
def sh(c): return subprocess.run(c, shell=True, stdout=subprocess.PIPE, stderr=subprocess.STDOUT, text=True)
sh("git -C /repo worktree remove --force %s; rm -rf %s" % (WT, WT))
r = sh("git -C /repo worktree add --detach %s HEAD" % WT)
try:
    r = sh("git -C %s apply %s" % (WT, patch))
    if r.returncode:
        print("APPLY FAILED", r.stdout); sys.exit(2)
    for p in props:
        rr = subprocess.run([os.path.join(V, "check"), p], env=dict(os.environ, VERIF_REPO=WT), stdout=subprocess.PIPE, stderr=subprocess.STDOUT, text=True)
        rules = sorted(set(re.findall(r"^  rule=(\S+) construct=(\S+)", rr.stdout, re.M)))
        print(p, "exit", rr.returncode, rules if rr.returncode else "")
        if rr.returncode == 2: print(rr.stdout[-800:])
        if os.environ.get("TRY_VERBOSE") and rr.returncode: print(rr.stdout[-6000:])
finally:
    sh("git -C /repo worktree remove --force %s; rm -rf %s" % (WT, WT))
