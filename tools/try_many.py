#!/usr/bin/env python3
"""python3 tools/try_many.py [-j N] <label=patch.diff> ...  — runs tools/try_patch.py (all twenty checks) on several patches in parallel
(each in its own scratch worktree; facts builds are serialised by the facts lock) and prints one summary line per patch."""
import os, re, subprocess, sys
from concurrent.futures import ThreadPoolExecutor
V = os.path.dirname(os.path.dirname(os.path.abspath(__file__)))
args = sys.argv[1:]
j = 4
if args and args[0] == "-j":
    j = int(args[1]); args = args[2:]
items = [a.split("=", 1) if "=" in a else (os.path.basename(os.path.dirname(os.path.abspath(a))) + "/" + os.path.basename(a), a) for a in args]
items = [(l, os.path.abspath(p)) for l, p in items]

def one(it):
    label, patch = it
    r = subprocess.run([sys.executable, os.path.join(V, "tools", "try_patch.py"), patch], stdout=subprocess.PIPE, stderr=subprocess.STDOUT, text=True, cwd="/tmp")
    fired = []
    for l in r.stdout.splitlines():
        m = re.match(r"(C\d+) exit (\d+) (.*)", l)
        if m and m.group(2) != "0":
            fired.append("%s:%s" % (m.group(1), m.group(3)[:400]))
        elif not m and l.strip():
            fired.append("?? " + l[:200])
    print("%-40s %s" % (label, "SILENT" if not fired else "FIRED " + " | ".join(fired)), flush=True)
    return label, fired

with ThreadPoolExecutor(j) as ex:
    res = list(ex.map(one, items))
print("%d patches, %d silent" % (len(res), sum(1 for _, f in res if not f)))
